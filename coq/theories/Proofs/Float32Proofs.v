(* Proofs/Float32Proofs.v -- the binary32 reference of Model/Serde:
     S1  nearest_single_pos is the correctly rounded binary32 of m * 10^e
     S2  it depends on the value only; nearest_single / sgl are blind to respellings
     S3  double rounding through binary64 differs (explicit witness)
     S4  the shortest-digits printer fmt_sf chk32 (fmt_f32_ref) reads back, with sgl, as
         the binary32 it printed
   Instantiates Proofs/FloatGenProofs.v at (prec, emax) = (24, 128). *)
From Coq Require Import ZArith NArith List Bool SpecFloat Reals Lia Lra.
From Flocq Require Import Core BinarySingleNaN.
From JsonSyntax Require Import Base.Prelude Base.Float64 Spec.EcmaNumber Spec.NumSpelling Model.Serde
  Proofs.Float64Proofs Proofs.NumberProofs Proofs.NearestDouble Proofs.FloatGenProofs.
Import ListNotations.
Local Open Scope Z_scope.

(* ------------------------------------------------------------------ S1 *)

Definition fexp32 : Z -> Z := FLT_exp (-149) 24.
Definition round32R (x : R) : R := round radix2 fexp32 ZnearestE x.

Definition nd_spec32 (x : R) (z : spec_float) : Prop :=
  if Rlt_bool (Rabs (round32R x)) (bpow radix2 128) then
    valid_binary 24 128 z = true /\ is_finite_SF z = true /\ sign_SF z = false /\
    SF2R radix2 z = round32R x
  else z = S754_infinity false.

Local Instance prec32_gt_0 : Prec_gt_0 24. Proof. reflexivity. Qed.
Local Instance prec32_lt_emax : Prec_lt_emax 24 128. Proof. reflexivity. Qed.
Local Instance fexp32_valid : Valid_exp fexp32.
Proof. unfold fexp32. apply FLT_exp_valid. reflexivity. Qed.

(* overflow shortcut: 2^128 <= 10^39 *)
Lemma bpow2_128_le_bpow10_39 : (bpow radix2 128 <= bpow radix10 39)%R.
Proof.
  rewrite <- IZR_pow2, <- IZR_pow10 by lia.
  apply IZR_le. apply Z.leb_le. vm_compute. reflexivity.
Qed.

(* underflow shortcut: 10^-46 <= 2^-150, half the least subnormal *)
Lemma bpow10_m46_le_bpow2_m150 : (bpow radix10 (-46) <= bpow radix2 (emin_g 24 128 - 1))%R.
Proof.
  change (emin_g 24 128 - 1) with (- (150)). change (-46) with (- (46)).
  rewrite 2!bpow_opp.
  apply Rinv_le. apply bpow_gt_0.
  rewrite <- IZR_pow2, <- IZR_pow10 by lia.
  apply IZR_le. apply Z.leb_le. vm_compute. reflexivity.
Qed.

Lemma nearest_single_pos_gen : forall m e,
  nearest_single_pos m e = nearest_pos_g 24 128 39 (-46) m e.
Proof. reflexivity. Qed.

Lemma nd_spec32_gen : forall x z, nd_spec32 x z = nd_spec_g 24 128 x z.
Proof. reflexivity. Qed.

Theorem nearest_single_pos_correct : forall m e,
  nd_spec32 (dec_R m e) (nearest_single_pos m e).
Proof.
  intros m e. rewrite nearest_single_pos_gen, nd_spec32_gen.
  apply nearest_pos_g_correct; auto with typeclass_instances.
  - exact bpow2_128_le_bpow10_39.
  - exact bpow10_m46_le_bpow2_m150.
Qed.

Theorem nearest_single_pos_shape : forall m e,
  match nearest_single_pos m e with
  | S754_zero s => s = false
  | S754_infinity s => s = false
  | S754_finite s _ _ => s = false /\ valid_binary 24 128 (nearest_single_pos m e) = true
  | S754_nan => False
  end.
Proof.
  intros m e. rewrite nearest_single_pos_gen.
  apply nearest_pos_g_shape; auto with typeclass_instances.
  - exact bpow2_128_le_bpow10_39.
  - exact bpow10_m46_le_bpow2_m150.
Qed.

(* ------------------------------------------------------------------ S2 *)

Theorem nearest_single_pos_value : forall m1 e1 m2 e2,
  dec_R m1 e1 = dec_R m2 e2 -> nearest_single_pos m1 e1 = nearest_single_pos m2 e2.
Proof.
  intros. rewrite !nearest_single_pos_gen.
  apply nearest_pos_g_value; auto with typeclass_instances.
  - exact bpow2_128_le_bpow10_39.
  - exact bpow10_m46_le_bpow2_m150.
Qed.

Theorem nearest_single_pos_shift : forall m e j, 0 <= j ->
  nearest_single_pos (m * Z.to_pos (10 ^ j)) e = nearest_single_pos m (e + j).
Proof. intros. apply nearest_single_pos_value. now apply dec_R_shift. Qed.

Theorem nearest_single_pos_Z : forall m1 e1 m2 e2 a b,
  0 <= a -> 0 <= b -> e1 - a = e2 - b ->
  Zpos m1 * 10 ^ a = Zpos m2 * 10 ^ b ->
  nearest_single_pos m1 e1 = nearest_single_pos m2 e2.
Proof.
  intros. rewrite !nearest_single_pos_gen.
  apply nearest_pos_g_Z with (a := a) (b := b); auto with typeclass_instances.
  - exact bpow2_128_le_bpow10_39.
  - exact bpow10_m46_le_bpow2_m150.
Qed.

Corollary nearest_single_pos_cross : forall m1 e1 m2 e2,
  Zpos m1 * 10 ^ (e1 - Z.min e1 e2) = Zpos m2 * 10 ^ (e2 - Z.min e1 e2) ->
  nearest_single_pos m1 e1 = nearest_single_pos m2 e2.
Proof.
  intros m1 e1 m2 e2 H.
  apply nearest_single_pos_Z with (a := e1 - Z.min e1 e2) (b := e2 - Z.min e1 e2); try lia.
Qed.

Theorem nearest_single_equiv : forall d d', dec_equiv d d' -> nearest_single d = nearest_single d'.
Proof.
  intros [ng m e] [ng' m' e']. unfold dec_equiv, nearest_single.
  cbn [d_neg d_mant d_exp]. intros [<- H].
  assert (Ha : 0 < 10 ^ (e - Z.min e e')) by (apply Z.pow_pos_nonneg; lia).
  assert (Hb : 0 < 10 ^ (e' - Z.min e e')) by (apply Z.pow_pos_nonneg; lia).
  destruct m as [|p|p], m' as [|p'|p']; try reflexivity; try (exfalso; nia).
  rewrite (nearest_single_pos_cross _ _ _ _ H). reflexivity.
Qed.

(* sgl is blind to numerically equal respellings *)
Theorem sgl_spelling : forall n n' d d',
  read_decimal n = Some d -> read_decimal n' = Some d' -> dec_equiv d d' -> sgl n = sgl n'.
Proof.
  intros n n' d d' H H' E. unfold sgl. rewrite H, H'. now apply nearest_single_equiv.
Qed.

Theorem sgl_render_equiv : forall sp sp', spelling_wf sp -> spelling_wf sp' ->
  dec_equiv (spelling_decimal sp) (spelling_decimal sp') -> sgl (render sp) = sgl (render sp').
Proof.
  intros sp sp' H H' E.
  apply (sgl_spelling _ _ _ _ (read_render sp H) (read_render sp' H') E).
Qed.

(* sgl of a well-formed spelling, in closed form *)
Theorem sgl_render : forall sp, spelling_wf sp -> sgl (render sp) = nearest_single (spelling_decimal sp).
Proof. intros sp H. unfold sgl. now rewrite (read_render sp H). Qed.

(* ---- the signed statement: nearest_single is round-to-nearest-even of the decimal ---- *)

Lemma round32R_opp : forall x, round32R (- x) = (- round32R x)%R.
Proof. intros x. unfold round32R. apply round_NE_opp. Qed.

Lemma valid32_sf_neg : forall z, valid_binary 24 128 (sf_neg z) = valid_binary 24 128 z.
Proof. intros [s|s| |s m e]; reflexivity. Qed.

Theorem nearest_single_correct : forall d, 0 <= d_mant d ->
  let x := decimal_R d in
  let z := nearest_single d in
  if Rlt_bool (Rabs (round32R x)) (bpow radix2 128) then
    valid_binary 24 128 z = true /\ is_finite_SF z = true /\ sign_SF z = d_neg d /\
    SF2R radix2 z = round32R x
  else z = S754_infinity (d_neg d).
Proof.
  intros [ng m e] Hm. cbn [d_mant] in Hm. unfold decimal_R, nearest_single.
  cbn [d_neg d_mant d_exp]. cbv zeta.
  destruct m as [|p|p]; [| |lia].
  - rewrite Rmult_0_l.
    assert (E : cond_Ropp ng 0 = 0%R) by (destruct ng; cbn; [apply Ropp_0|reflexivity]).
    rewrite E. unfold round32R. rewrite round_0 by auto with typeclass_instances.
    rewrite Rabs_R0, Rlt_bool_true by apply bpow_gt_0. repeat split; reflexivity.
  - pose proof (nearest_single_pos_correct p e) as H. unfold nd_spec32, dec_R in H.
    set (x := (IZR (Z.pos p) * bpow radix10 e)%R) in *.
    destruct ng; cbn [cond_Ropp].
    + rewrite round32R_opp, Rabs_Ropp.
      destruct (Rlt_bool (Rabs (round32R x)) (bpow radix2 128)).
      * destruct H as [V [F [S R]]].
        rewrite valid32_sf_neg, finite_sf_neg, SF2R_sf_neg, R.
        repeat split; try assumption.
        destruct (nearest_single_pos p e); cbn in *; try discriminate; now rewrite S.
      * rewrite H. reflexivity.
    + destruct (Rlt_bool (Rabs (round32R x)) (bpow radix2 128)).
      * destruct H as [V [F [S R]]]. repeat split; assumption.
      * exact H.
Qed.

Lemma nearest_single_valid : forall d, valid_binary 24 128 (nearest_single d) = true.
Proof.
  intros d. unfold nearest_single. destruct (d_mant d) as [|p|p]; try reflexivity.
  pose proof (nearest_single_pos_shape p (d_exp d)) as H.
  destruct (nearest_single_pos p (d_exp d)) as [s|s| |s m e]; try (destruct (d_neg d); reflexivity).
  destruct H as [_ H]. destruct (d_neg d); exact H.
Qed.

(* ------------------------------------------------------------------ S3 *)

(* "7.038531e-26": its nearest binary64 is exactly half-way between two binary32 values, so
   rounding the double again (ties to even) lands on 0x15ae43fe, whereas the decimal itself
   is nearer to 0x15ae43fd. *)
Example double_rounding_differs :
  let n := s2l "7.038531e-26" in
  sf_bits (dbl n) = 0x3ab5c87fb0000000 /\
  sf32_bits (round32 (dbl n)) = 0x15ae43fe /\
  sf32_bits (sgl n) = 0x15ae43fd /\
  round32 (dbl n) <> sgl n.
Proof.
  repeat split; try (vm_compute; reflexivity).
  vm_compute. discriminate.
Qed.

(* ------------------------------------------------------------------ S4: the shortest-digits search *)

Section SearchG.
Variable chk : Z -> Z -> bool.

Definition cand_ok_g (k : Z) (c : Z * Z) : bool :=
  let '(s, n') := c in (10 ^ (k - 1) <=? s) && (s <? 10 ^ k) && chk s (n' - k).

Definition best_g_step (num den k : Z) (acc : option (Z * Z)) (c : Z * Z) : option (Z * Z) :=
  let '(s, n') := c in
  if (10 ^ (k - 1) <=? s) && (s <? 10 ^ k) && chk s (n' - k) then
    match acc with
    | None => Some c
    | Some (s0, n0) =>
        let d0 := dist s0 (n0 - k) num den in
        let d1 := dist s (n' - k) num den in
        if dist_lt d1 d0 then Some c else if dist_eq d1 d0 && (s0 <? s) then Some c else acc
    end
  else acc.

Lemma best_g_unfold : forall num den k cs,
  best_g chk num den k cs = fold_left (best_g_step num den k) cs None.
Proof. reflexivity. Qed.

Lemma best_g_step_cases : forall num den k acc c,
  (best_g_step num den k acc c = acc /\ (cand_ok_g k c = true -> acc <> None)) \/
  (best_g_step num den k acc c = Some c /\ cand_ok_g k c = true).
Proof.
  intros num den k acc [s n']. unfold best_g_step, cand_ok_g.
  destruct ((10 ^ (k - 1) <=? s) && (s <? 10 ^ k) && chk s (n' - k)).
  - destruct acc as [[s0 n0]|]; [|right; split; reflexivity].
    cbv zeta. destruct (dist_lt _ _); [right; split; reflexivity|].
    destruct (dist_eq _ _ && (s0 <? s)); [right; split; reflexivity|].
    left. split; [reflexivity|discriminate].
  - left. split; [reflexivity|discriminate].
Qed.

Lemma fold_best_g_some : forall num den k cs acc r,
  fold_left (best_g_step num den k) cs acc = Some r ->
  acc = Some r \/ (In r cs /\ cand_ok_g k r = true).
Proof.
  induction cs as [|c cs IH]; intros acc r H.
  - left. exact H.
  - cbn [fold_left] in H. destruct (IH _ _ H) as [H1|[H1 H2]].
    + destruct (best_g_step_cases num den k acc c) as [[E _]|[E Hok]].
      * left. congruence.
      * right. rewrite E in H1. injection H1 as <-. split; [left; reflexivity|exact Hok].
    + right. split; [right; exact H1|exact H2].
Qed.

Lemma fold_best_g_none : forall num den k cs acc,
  fold_left (best_g_step num den k) cs acc = None ->
  acc = None /\ forall c, In c cs -> cand_ok_g k c = false.
Proof.
  induction cs as [|c cs IH]; intros acc H.
  - split; [exact H|]. intros c [].
  - cbn [fold_left] in H. destruct (IH _ H) as [H1 H2].
    destruct (best_g_step_cases num den k acc c) as [[E Hn]|[E Hok]].
    + rewrite E in H1. split; [exact H1|]. intros c' [<-|Hin]; [|now apply H2].
      destruct (cand_ok_g k c) eqn:Ec; [|reflexivity]. now elim (Hn eq_refl).
    + congruence.
Qed.

Lemma best_g_some : forall num den k cs s n',
  best_g chk num den k cs = Some (s, n') ->
  In (s, n') cs /\ 10 ^ (k - 1) <= s < 10 ^ k /\ chk s (n' - k) = true.
Proof.
  intros num den k cs s n' H. rewrite best_g_unfold in H.
  destruct (fold_best_g_some _ _ _ _ _ _ H) as [H1|[H1 H2]]; [discriminate|].
  split; [exact H1|]. unfold cand_ok_g in H2.
  rewrite !andb_true_iff, Z.leb_le, Z.ltb_lt in H2. destruct H2 as [[Ha Hb] Hc].
  split; [lia|exact Hc].
Qed.

Lemma best_g_none : forall num den k cs,
  best_g chk num den k cs = None -> forall c, In c cs -> cand_ok_g k c = false.
Proof. intros num den k cs H. rewrite best_g_unfold in H. now apply fold_best_g_none in H. Qed.

Lemma search_g_some : forall fuel num den n k n' k' s,
  search_g chk fuel num den n k = Some (n', k', s) ->
  k <= k' < k + Z.of_nat fuel /\
  best_g chk num den k' (cands num den n k') = Some (s, n').
Proof.
  induction fuel as [|f IH]; intros num den n k n' k' s H; [discriminate|].
  cbn [search_g] in H.
  destruct (best_g chk num den k (cands num den n k)) as [[s0 n0]|] eqn:B.
  - injection H as <- <- <-. split; [lia|exact B].
  - destruct (IH _ _ _ _ _ _ _ H) as [H1 H2]. split; [lia|exact H2].
Qed.

Lemma search_g_none : forall fuel num den n k, search_g chk fuel num den n k = None ->
  forall k', k <= k' < k + Z.of_nat fuel -> best_g chk num den k' (cands num den n k') = None.
Proof.
  induction fuel as [|f IH]; intros num den n k H k' Hk'; [lia|].
  cbn [search_g] in H.
  destruct (best_g chk num den k (cands num den n k)) as [[s0 n0]|] eqn:B; [discriminate|].
  destruct (Z.eq_dec k' k) as [->|Hne]; [exact B|].
  apply (IH _ _ _ _ H). lia.
Qed.

Lemma nks_g_unfold : forall m e,
  nks_g chk m e = search_g chk 17 (nks_num m e) (nks_den e) (nks_n0 m e) 1.
Proof.
  intros m e. unfold nks_g, nks_n0, nks_num, nks_den. destruct (scale2 e) as [sn sd]. reflexivity.
Qed.

Theorem nks_g_some : forall m e n k s, nks_g chk m e = Some (n, k, s) ->
  1 <= k <= 17 /\ 10 ^ (k - 1) <= s < 10 ^ k /\ chk s (n - k) = true.
Proof.
  intros m e n k s H. rewrite nks_g_unfold in H.
  destruct (search_g_some _ _ _ _ _ _ _ _ H) as [H1 H2].
  apply best_g_some in H2. destruct H2 as [_ [H2 H3]].
  split; [lia|]. split; assumption.
Qed.

End SearchG.

(* ------------------------------------------------------------------ S4: reading lexical's layout *)

Lemma sign_prefix_eq : forall (sg : bool) (a b : list N), a = b ->
  (if sg then [0x2D%N] else []) ++ a = (if sg then [0x2D%N] else []) ++ b.
Proof. intros; subst; reflexivity. Qed.

(* layout_lex without the ".0" suffix is the rendering of a well-formed spelling that denotes
   s * 10^(n-k) *)
Lemma layout_lex_spelling : forall (sg : bool) n k s, 1 <= k -> 10 ^ (k - 1) <= s < 10 ^ k ->
  exists sp j, spelling_wf sp /\ 0 <= j /\
    render sp = (if sg then [0x2D%N] else []) ++ layout_lex false n k s /\
    spelling_decimal sp = {| d_neg := sg; d_mant := s * 10 ^ j; d_exp := n - k - j |}.
Proof.
  intros sg n k s Hk Hs.
  assert (Hs0 : 0 < s).
  { assert (0 < 10 ^ (k - 1)) by (apply Z.pow_pos_nonneg; lia). lia. }
  destruct (dec_digits_correct s Hs0) as [Hall [Hv _]].
  pose proof (dec_digits_len s k Hk Hs) as Hlen.
  unfold layout_lex. remember (dec_digits s) as ds eqn:Eds. clear Eds. cbv zeta.
  destruct ((-5 <=? n - 1) && (n - 1 <=? 9)) eqn:C0.
  { apply andb_true_iff in C0. rewrite !Z.leb_le in C0.
    destruct (Z.leb_spec k n) as [C1|C1].
    { (* integer with trailing zeros *)
      exists {| sp_neg := sg; sp_int := ds ++ zeros (Z.to_nat (n - k)); sp_frac := None; sp_exp := None |}.
      exists (n - k). split.
      { repeat split; cbn [sp_int sp_frac sp_exp].
        - apply all_dig_app. split; [assumption|apply all_dig_zeros].
        - rewrite len_app. pose proof (len_nonneg (zeros (Z.to_nat (n - k)))). lia. }
      split; [lia|]. split.
      { unfold render. cbn [sp_neg sp_int sp_frac sp_exp]. apply sign_prefix_eq.
        rewrite !app_nil_r. reflexivity. }
      unfold spelling_decimal. cbn [sp_neg sp_int sp_frac sp_exp]. f_equal.
      - rewrite app_nil_r, dval_app, dval_zeros, Hv, Z2Nat.id by lia. reflexivity.
      - cbn. lia. }
    destruct (Z.ltb_spec 0 n) as [C2|C2].
    { (* digits . digits *)
      destruct (all_dig_firstn_skipn (Z.to_nat n) ds Hall) as [Hf Hsk].
      assert (Hlf : len (firstn (Z.to_nat n) ds) = n).
      { unfold len in *. rewrite firstn_length_le; lia. }
      assert (Hls : len (skipn (Z.to_nat n) ds) = k - n).
      { unfold len in *. rewrite skipn_length. lia. }
      exists {| sp_neg := sg; sp_int := firstn (Z.to_nat n) ds;
                sp_frac := Some (skipn (Z.to_nat n) ds); sp_exp := None |}.
      exists 0. split.
      { repeat split; cbn [sp_int sp_frac sp_exp]; try assumption. lia. }
      split; [lia|]. split.
      { unfold render. cbn [sp_neg sp_int sp_frac sp_exp]. apply sign_prefix_eq.
        rewrite !app_nil_r. reflexivity. }
      unfold spelling_decimal. cbn [sp_neg sp_int sp_frac sp_exp]. f_equal.
      - rewrite firstn_skipn, Hv. cbn. lia.
      - lia. }
    { (* 0.000ddd *)
      exists {| sp_neg := sg; sp_int := [0x30%N];
                sp_frac := Some (zeros (Z.to_nat (- n)) ++ ds); sp_exp := None |}.
      exists 0. split.
      { repeat split; cbn [sp_int sp_frac sp_exp].
        - constructor; [reflexivity|constructor].
        - cbn. lia.
        - apply all_dig_app. split; [apply all_dig_zeros|assumption]. }
      split; [lia|]. split.
      { unfold render. cbn [sp_neg sp_int sp_frac sp_exp]. apply sign_prefix_eq.
        rewrite !app_nil_r. reflexivity. }
      unfold spelling_decimal. cbn [sp_neg sp_int sp_frac sp_exp]. f_equal.
      - rewrite !dval_app, dval_zeros. change (dval [48%N] 0) with 0.
        rewrite Z.mul_0_l, Hv. cbn. lia.
      - rewrite len_app, len_zeros, Z2Nat.id by lia. lia. } }
  (* exponent notation *)
  apply andb_false_iff in C0. rewrite !Z.leb_gt in C0.
  assert (He : 0 < Z.abs (n - 1)) by lia.
  destruct (dec_digits_correct (Z.abs (n - 1)) He) as [Hea [Hev [_ Hel]]].
  set (es := dec_digits (Z.abs (n - 1))) in *.
  set (sgn := if 0 <=? n - 1 then None else Some false).
  assert (Hchars : (if 0 <=? n - 1 then [] else [45%N]) ++ es = exp_sign_chars sgn ++ es).
  { unfold sgn. destruct (0 <=? n - 1); reflexivity. }
  assert (Hval : exp_val sgn es = n - 1).
  { unfold sgn. destruct (Z.leb_spec 0 (n - 1)); cbn [exp_val]; lia. }
  rewrite Hchars.
  destruct ds as [|d [|c1 r]].
  - unfold len in Hlen; cbn in Hlen; lia.
  - (* one digit *)
    assert (k = 1) by (unfold len in Hlen; cbn in Hlen; lia). subst k.
    exists {| sp_neg := sg; sp_int := [d]; sp_frac := None; sp_exp := Some (false, sgn, es) |}.
    exists 0. split.
    { repeat split; cbn [sp_int sp_frac sp_exp]; try assumption; try (unfold len; cbn; lia). }
    split; [lia|]. split.
    { unfold render, exp_chars. cbn [sp_neg sp_int sp_frac sp_exp]. reflexivity. }
    unfold spelling_decimal. cbn [sp_neg sp_int sp_frac sp_exp]. f_equal.
    + rewrite app_nil_r, Hv. cbn. lia.
    + rewrite Hval. cbn. lia.
  - assert (Hd1 : all_dig [d]) by (inversion Hall; subst; constructor; [assumption|constructor]).
    assert (Hr : all_dig (c1 :: r)) by now inversion Hall.
    exists {| sp_neg := sg; sp_int := [d]; sp_frac := Some (c1 :: r); sp_exp := Some (false, sgn, es) |}.
    exists 0. split.
    { repeat split; cbn [sp_int sp_frac sp_exp]; try assumption; try (unfold len; cbn; lia). }
    split; [lia|]. split.
    { unfold render, exp_chars. cbn [sp_neg sp_int sp_frac sp_exp]. apply sign_prefix_eq.
      cbn [app]. rewrite <- ?app_assoc. reflexivity. }
    unfold spelling_decimal. cbn [sp_neg sp_int sp_frac sp_exp]. f_equal.
    + change ([d] ++ c1 :: r) with (d :: c1 :: r). rewrite Hv. cbn. lia.
    + rewrite Hval. rewrite len_cons in Hlen. lia.
Qed.

Theorem read_layout_lex : forall (sg : bool) n k s, 1 <= k -> 10 ^ (k - 1) <= s < 10 ^ k ->
  exists j, 0 <= j /\
    read_decimal ((if sg then [0x2D%N] else []) ++ layout_lex false n k s) =
    Some {| d_neg := sg; d_mant := s * 10 ^ j; d_exp := n - k - j |}.
Proof.
  intros sg n k s Hk Hs.
  destruct (layout_lex_spelling sg n k s Hk Hs) as [sp [j [Hwf [Hj [Hr Hd]]]]].
  exists j. split; [exact Hj|]. rewrite <- Hr, <- Hd. now apply read_render.
Qed.

(* ------------------------------------------------------------------ S4: the round trip *)

Lemma nearest_single_scaled : forall (sg : bool) s j x, 0 < s -> 0 <= j ->
  nearest_single {| d_neg := sg; d_mant := s * 10 ^ j; d_exp := x - j |} =
  (if sg then sf_neg (nearest_single_pos (Z.to_pos s) x) else nearest_single_pos (Z.to_pos s) x).
Proof.
  intros sg s j x Hs Hj. unfold nearest_single. cbn [d_neg d_mant d_exp].
  destruct s as [|ps|ps]; try lia.
  replace (Zpos ps * 10 ^ j) with (Zpos (ps * Z.to_pos (10 ^ j)))
    by (rewrite Pos2Z.inj_mul, Z2Pos.id; [reflexivity|apply Z.pow_pos_nonneg; lia]).
  cbv iota. rewrite nearest_single_pos_shift by exact Hj.
  replace (x - j + j) with x by lia. reflexivity.
Qed.

(* the printer's output, read as a binary32, is the binary32 that was printed
   (an empty output means: not finite, or no digits found) *)
Theorem fmt_sf_chk32_round_trip : forall x,
  fmt_sf chk32 false x <> [] -> sgl (fmt_sf chk32 false x) = x.
Proof.
  intros [s0|s0| |s0 m e] Hne; cbn [fmt_sf] in *; try (now elim Hne).
  - destruct s0; vm_compute; reflexivity.
  - destruct (nks_g (chk32 (S754_finite false m e)) m e) as [[[n k] s]|] eqn:E; [|now elim Hne].
    destruct (nks_g_some _ _ _ _ _ _ E) as [Hk [Hs Hc]].
    unfold chk32 in Hc. apply sf_eqb_eq in Hc.
    destruct (read_layout_lex s0 n k s ltac:(lia) Hs) as [j [Hj Hr]].
    unfold sgl. rewrite Hr.
    assert (Hs0 : 0 < s).
    { assert (0 < 10 ^ (k - 1)) by (apply Z.pow_pos_nonneg; lia). lia. }
    rewrite nearest_single_scaled by assumption. rewrite Hc.
    destruct s0; reflexivity.
Qed.

Corollary fmt_f32_ref_round_trip : forall b,
  fmt_f32_ref b <> [] -> sgl (fmt_f32_ref b) = sf32_of_bits b.
Proof. intros b. unfold fmt_f32_ref. apply fmt_sf_chk32_round_trip. Qed.

Print Assumptions nearest_single_pos_correct.
Print Assumptions nearest_single_pos_shape.
Print Assumptions nearest_single_pos_value.
Print Assumptions nearest_single_pos_shift.
Print Assumptions nearest_single_pos_Z.
Print Assumptions nearest_single_pos_cross.
Print Assumptions nearest_single_equiv.
Print Assumptions sgl_spelling.
Print Assumptions sgl_render_equiv.
Print Assumptions sgl_render.
Print Assumptions nearest_single_correct.
Print Assumptions nearest_single_valid.
Print Assumptions double_rounding_differs.
Print Assumptions nks_g_some.
Print Assumptions read_layout_lex.
Print Assumptions fmt_sf_chk32_round_trip.
Print Assumptions fmt_f32_ref_round_trip.
