(* Proofs/CanonNumber.v -- the structural half (Proofs/CanonProofs.v) and the number half
   (Proofs/NumberProofs.v) of RFC 8785 canonicalization put together for the reference
   number conversion [ref_num_canon] (the RFC 8785 rendering when it exists), which is the
   conversion the implementation is compared with on every run.  Depends on Flocq's
   theorems, hence on the four standard-library axioms they use. *)
From JsonSyntax Require Import Base.Prelude Base.Value Base.Unicode Base.Float64 Model.Compare Model.Canon
  Spec.Minimal Spec.EcmaNumber Spec.Jcs Spec.PermEq Spec.CanonSpec
  Proofs.CanonProofs Proofs.Float64Proofs Proofs.NumberProofs.
From Coq Require Import SpecFloat.

Lemma ref_num_canon_idem : forall n, ref_num_canon (ref_num_canon n) = ref_num_canon n.
Proof.
  intros n. unfold ref_num_canon at 2 3. destruct (canon_number n) as [t|] eqn:E.
  - unfold ref_num_canon. rewrite (canon_number_idempotent n t E). reflexivity.
  - unfold ref_num_canon. rewrite E. reflexivity.
Qed.

(* canonicalization with the reference conversion is idempotent, unconditionally *)
Theorem canon_ref_idem : forall v,
  canonicalize ref_num_canon (canonicalize ref_num_canon v) = canonicalize ref_num_canon v.
Proof. apply canon_idem. exact ref_num_canon_idem. Qed.

Lemma each_num_impl (P Q : list N -> Prop) : (forall n, P n -> Q n) -> forall v, each_num P v -> each_num Q v.
Proof.
  intros HPQ v. induction v as [| b | s | s | l IH | l IH] using value_ind'; try (intros _; exact I).
  - cbn [each_num]. apply HPQ.
  - rewrite !each_num_arr. rewrite !Forall_forall in *. intros H x Hx. apply IH; auto.
  - rewrite !each_num_obj. rewrite !Forall_forall in *. intros H x Hx. apply IH; auto.
Qed.

(* RFC 8785 on I-JSON values: no duplicate member names, every number renderable (finite
   nearest double).  The compact text of the canonical form IS the JCS text. *)
Definition renderable (n : list N) : Prop := exists t, canon_number n = Some t.
Definition ijson (v : value) : Prop := nodup_keys v /\ each_num renderable v.

Theorem canon_ref_jcs : forall v, ijson v -> keys_scalar v ->
  jcs v = Some (ser_min (canonicalize ref_num_canon v)).
Proof.
  intros v [Hnd Hn] Hks. apply canon_jcs; [exact Hnd|exact Hks|].
  unfold nums_ok. revert Hn. apply each_num_impl. intros n [t Ht].
  unfold ref_num_canon. rewrite Ht. reflexivity.
Qed.

(* each number keeps its double value (a negative zero becomes "0") and the rendering is a
   fixed point of the conversion *)
Theorem ref_num_canon_keeps_double : forall n, renderable n ->
  exists d d', read_decimal n = Some d /\ read_decimal (ref_num_canon n) = Some d' /\
               nearest_double d' = drop_zero_sign (nearest_double d).
Proof.
  intros n [t Ht]. unfold ref_num_canon. rewrite Ht. apply canon_number_keeps_double. exact Ht.
Qed.

(* two I-JSON values that differ only in member order canonicalize to the same text *)
Theorem canon_ref_perm_text : forall v w, keys_scalar v -> PermEq v w ->
  ser_min (canonicalize ref_num_canon v) = ser_min (canonicalize ref_num_canon w).
Proof. intros v w Hk Hp. rewrite (canon_perm ref_num_canon v w Hk Hp). reflexivity. Qed.

(* numerically equal spellings: same rendering, hence same canonical number *)
Theorem ref_num_canon_spelling : forall n n' d d',
  read_decimal n = Some d -> read_decimal n' = Some d' -> dec_equiv d d' ->
  renderable n -> ref_num_canon n = ref_num_canon n'.
Proof.
  intros n n' d d' H H' E [t Ht]. unfold ref_num_canon.
  rewrite <- (canon_number_spelling n n' d d' H H' E), Ht. reflexivity.
Qed.

Print Assumptions ref_num_canon_idem.
Print Assumptions canon_ref_idem.
Print Assumptions canon_ref_jcs.
Print Assumptions ref_num_canon_keeps_double.
Print Assumptions canon_ref_perm_text.
Print Assumptions ref_num_canon_spelling.
