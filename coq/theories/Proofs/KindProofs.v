(* Proofs/KindProofs.v -- Model/Kind.v refines Spec/KindSpec.v.
   The domain (valid representations, s < 64) is finite: where a statement is
   checked by computation it is checked on the WHOLE domain and lifted with
   [forallb_forall]; operators are proved for all N by bit lemmas. *)
From JsonSyntax Require Import Base.Prelude Base.Value Model.Kind Spec.KindSpec.

Definition dom64 : list N := map N.of_nat (seq 0 64).

Lemma dom64_complete s : valid s -> In s dom64.
Proof.
  unfold valid, dom64. intros H. apply in_map_iff. exists (N.to_nat s).
  split; [apply N2Nat.id|]. apply in_seq. lia.
Qed.

Lemma on_dom (P : N -> bool) :
  forallb P dom64 = true -> forall s, valid s -> P s = true.
Proof. intros H s Hs. rewrite forallb_forall in H. apply H, dom64_complete, Hs. Qed.

Lemma all_kinds_complete k : In k all_kinds.
Proof. destruct k; cbn; tauto. Qed.

Lemma on_kinds (P : kind -> bool) :
  forallb P all_kinds = true -> forall k, P k = true.
Proof. intros H k. rewrite forallb_forall in H. apply H, all_kinds_complete. Qed.

(* ---- masks denote singletons ---- *)
Lemma mem_mask k k' : mem (mask k) k' = true <-> k = k'.
Proof. destruct k, k'; vm_compute; split; congruence. Qed.

Lemma mask_valid k : valid (mask k).
Proof. destruct k; vm_compute; reflexivity. Qed.

Lemma mem_from k k' : mem (ks_from k) k' = true <-> k = k'.
Proof. apply mem_mask. Qed.

(* ---- operators: union / intersection, every operand combination ---- *)
Lemma mem_or a b k : mem (ks_or a b) k = mem a k || mem b k.
Proof. unfold mem, ks_or. apply N.lor_spec. Qed.

Lemma mem_and a b k : mem (ks_and a b) k = mem a k && mem b k.
Proof. unfold mem, ks_and. apply N.land_spec. Qed.

Lemma mem_or_kind a k0 k : mem (ks_or_kind a k0) k = mem a k || mem (ks_from k0) k.
Proof. apply mem_or. Qed.
Lemma mem_and_kind a k0 k : mem (ks_and_kind a k0) k = mem a k && mem (ks_from k0) k.
Proof. apply mem_and. Qed.
Lemma mem_kind_or_ks a k0 k : mem (kind_or_ks k0 a) k = mem (ks_from k0) k || mem a k.
Proof. apply mem_or. Qed.
Lemma mem_kind_and_ks a k0 k : mem (kind_and_ks k0 a) k = mem (ks_from k0) k && mem a k.
Proof. apply mem_and. Qed.
Lemma mem_kind_or k1 k2 k : mem (kind_or k1 k2) k = mem (ks_from k1) k || mem (ks_from k2) k.
Proof. apply mem_or. Qed.
Lemma mem_kind_and k1 k2 k : mem (kind_and k1 k2) k = mem (ks_from k1) k && mem (ks_from k2) k.
Proof. apply mem_and. Qed.

Lemma valid_bits s : valid s <-> forall n, 6 <= n -> N.testbit s n = false.
Proof.
  unfold valid. split.
  - intros H n Hn. destruct (N.eq_dec s 0) as [->|Hz]; [apply N.bits_0|].
    apply N.bits_above_log2. apply N.log2_lt_pow2; [lia|].
    apply N.lt_le_trans with (2 ^ 6); [exact H|]. apply N.pow_le_mono_r; lia.
  - intros H. destruct (N.lt_ge_cases s 64) as [L|G]; [exact L|exfalso].
    assert (Hs : s <> 0) by lia.
    pose proof (N.bit_log2 s Hs) as Hb.
    assert (6 <= N.log2 s).
    { change 6 with (N.log2 64). apply N.log2_le_mono. exact G. }
    rewrite H in Hb by assumption. discriminate.
Qed.

Lemma valid_or a b : valid a -> valid b -> valid (ks_or a b).
Proof.
  rewrite !valid_bits. intros Ha Hb n Hn. unfold ks_or.
  rewrite N.lor_spec, Ha, Hb by assumption. reflexivity.
Qed.
Lemma valid_and a b : valid a -> valid b -> valid (ks_and a b).
Proof.
  rewrite !valid_bits. intros Ha Hb n Hn. unfold ks_and.
  rewrite N.land_spec, Ha by assumption. reflexivity.
Qed.

(* a valid representation is determined by its members (extensionality) *)
Lemma valid_ext a b : valid a -> valid b -> (forall k, mem a k = mem b k) -> a = b.
Proof.
  intros Ha Hb H. apply N.bits_inj. intros n.
  destruct (N.lt_ge_cases n 6) as [L|G].
  - assert (C : n = 0 \/ n = 1 \/ n = 2 \/ n = 3 \/ n = 4 \/ n = 5) by lia.
    destruct C as [->|[->|[->|[->|[->| ->]]]]].
    + apply (H KNull). + apply (H KBoolean). + apply (H KNumber).
    + apply (H KString). + apply (H KArray). + apply (H KObject).
  - rewrite valid_bits in Ha, Hb. rewrite Ha, Hb by assumption. reflexivity.
Qed.

Lemma none_spec k : mem ks_none k = false.
Proof. destruct k; reflexivity. Qed.
Lemma all_spec k : mem ks_all k = true.
Proof. destruct k; reflexivity. Qed.

(* ---- len / is_empty ---- *)
Lemma len_spec s : valid s -> ks_len s = N.of_nat (length (members s)).
Proof.
  intros H. apply N.eqb_eq.
  apply (on_dom (fun s => ks_len s =? N.of_nat (length (members s)))); [vm_compute; reflexivity|exact H].
Qed.

Lemma is_empty_spec s : valid s -> ks_is_empty s = true <-> members s = [].
Proof.
  intros H.
  assert (E : Bool.eqb (ks_is_empty s) (match members s with [] => true | _ => false end) = true).
  { apply (on_dom (fun s => Bool.eqb (ks_is_empty s) (match members s with [] => true | _ => false end)));
      [vm_compute; reflexivity|exact H]. }
  apply Bool.eqb_prop in E. rewrite E. destruct (members s); split; congruence.
Qed.

(* ---- iteration ---- *)
Definition okind_eqb (a b : option kind) : bool :=
  match a, b with
  | None, None => true
  | Some x, Some y => kind_eqb x y
  | _, _ => false
  end.
Lemma kind_eqb_eq a b : kind_eqb a b = true <-> a = b.
Proof. destruct a, b; vm_compute; split; congruence. Qed.
Lemma okind_eqb_eq a b : okind_eqb a b = true <-> a = b.
Proof.
  destruct a as [a|], b as [b|]; cbn; try (split; congruence).
  rewrite kind_eqb_eq. split; congruence.
Qed.
Definition kinds_eqb := list_eqb kind_eqb.
Lemma kinds_eqb_eq a b : kinds_eqb a b = true <-> a = b.
Proof. apply list_eqb_spec, kind_eqb_eq. Qed.

Definition step_front_ok (s : N) : bool :=
  let '(y, s') := iter_next s in
  let '(y0, l') := pop_front (members s) in
  okind_eqb y y0 && kinds_eqb (members s') l' && (s' <? 64) && (size_hint s' =? N.of_nat (length l')).
Definition step_back_ok (s : N) : bool :=
  let '(y, s') := iter_next_back s in
  let '(y0, l') := pop_back (members s) in
  okind_eqb y y0 && kinds_eqb (members s') l' && (s' <? 64) && (size_hint s' =? N.of_nat (length l')).

Lemma step_front_all : forallb step_front_ok dom64 = true.
Proof. vm_compute. reflexivity. Qed.
Lemma step_back_all : forallb step_back_ok dom64 = true.
Proof. vm_compute. reflexivity. Qed.

Lemma step_front s : valid s ->
  fst (iter_next s) = fst (pop_front (members s)) /\
  members (snd (iter_next s)) = snd (pop_front (members s)) /\
  valid (snd (iter_next s)) /\
  size_hint (snd (iter_next s)) = N.of_nat (length (snd (pop_front (members s)))).
Proof.
  intros H. pose proof (on_dom _ step_front_all s H) as E. unfold step_front_ok in E.
  destruct (iter_next s) as [y s'], (pop_front (members s)) as [y0 l']. cbn [fst snd].
  rewrite !andb_true_iff, okind_eqb_eq, kinds_eqb_eq, N.ltb_lt, N.eqb_eq in E.
  unfold valid. tauto.
Qed.
Lemma step_back s : valid s ->
  fst (iter_next_back s) = fst (pop_back (members s)) /\
  members (snd (iter_next_back s)) = snd (pop_back (members s)) /\
  valid (snd (iter_next_back s)) /\
  size_hint (snd (iter_next_back s)) = N.of_nat (length (snd (pop_back (members s)))).
Proof.
  intros H. pose proof (on_dom _ step_back_all s H) as E. unfold step_back_ok in E.
  destruct (iter_next_back s) as [y s'], (pop_back (members s)) as [y0 l']. cbn [fst snd].
  rewrite !andb_true_iff, okind_eqb_eq, kinds_eqb_eq, N.ltb_lt, N.eqb_eq in E.
  unfold valid. tauto.
Qed.

(* every interleaving of next / next_back, of any length: by induction on the script *)
Lemma run_steps_refines steps : forall s, valid s ->
  fst (run_steps steps s) = fst (deque_run steps (members s)) /\
  members (snd (run_steps steps s)) = snd (deque_run steps (members s)) /\
  valid (snd (run_steps steps s)).
Proof.
  induction steps as [|b r IH]; intros s Hs; cbn [run_steps deque_run].
  - cbn. auto.
  - destruct b.
    + destruct (step_front s Hs) as (E1 & E2 & E3 & E4).
      destruct (iter_next s) as [y s'], (pop_front (members s)) as [y0 l']. cbn [fst snd] in *.
      specialize (IH s' E3). rewrite E2 in IH.
      destruct (run_steps r s') as [ys s''], (deque_run r l') as [ys0 l'']. cbn [fst snd] in *.
      destruct IH as (I1 & I2 & I3). subst. rewrite E4. auto.
    + destruct (step_back s Hs) as (E1 & E2 & E3 & E4).
      destruct (iter_next_back s) as [y s'], (pop_back (members s)) as [y0 l']. cbn [fst snd] in *.
      specialize (IH s' E3). rewrite E2 in IH.
      destruct (run_steps r s') as [ys s''], (deque_run r l') as [ys0 l'']. cbn [fst snd] in *.
      destruct IH as (I1 & I2 & I3). subst. rewrite E4. auto.
Qed.

Lemma iter_spec s : valid s -> ks_iter s = members s.
Proof.
  intros H. apply kinds_eqb_eq.
  apply (on_dom (fun s => kinds_eqb (ks_iter s) (members s))); [vm_compute; reflexivity|exact H].
Qed.
Lemma iter_rev_spec s : valid s -> ks_iter_rev s = rev (members s).
Proof.
  intros H. apply kinds_eqb_eq.
  apply (on_dom (fun s => kinds_eqb (ks_iter_rev s) (rev (members s)))); [vm_compute; reflexivity|exact H].
Qed.

(* members are ascending and duplicate free, and characterise mem *)
Lemma members_mem s k : In k (members s) <-> mem s k = true.
Proof.
  unfold members. rewrite filter_In. split; [tauto|]. intros H; split; [|exact H].
  destruct k; cbn; tauto.
Qed.
Lemma members_sorted s : exists f : kind -> bool, members s = filter f kinds_ascending.
Proof. exists (mem s). reflexivity. Qed.

(* ---- renderings ---- *)
Definition str_eqb' := str_eqb.
Lemma display_spec s : valid s -> ks_display s = comma_join (members s).
Proof.
  intros H. apply str_eqb_spec.
  apply (on_dom (fun s => str_eqb (ks_display s) (comma_join (members s)))); [vm_compute; reflexivity|exact H].
Qed.
Lemma disjunction_spec s : valid s -> ks_disjunction s = render_spec (s2l "or") (members s).
Proof.
  intros H. apply str_eqb_spec.
  apply (on_dom (fun s => str_eqb (ks_disjunction s) (render_spec (s2l "or") (members s))));
    [vm_compute; reflexivity|exact H].
Qed.
Lemma conjunction_spec s : valid s -> ks_conjunction s = render_spec (s2l "and") (members s).
Proof.
  intros H. apply str_eqb_spec.
  apply (on_dom (fun s => str_eqb (ks_conjunction s) (render_spec (s2l "and") (members s))));
    [vm_compute; reflexivity|exact H].
Qed.

(* ---- Value::kind / is_kind ---- *)
Lemma is_kind_spec v k : is_kind v k = true <-> kind_of v = k.
Proof. unfold is_kind. apply kind_eqb_eq. Qed.
