(* Proofs/FloatGenTotal.v -- the shortest-digits search of Model/Serde (nks_g, the same scheme
   as Spec/EcmaNumber.nks) always finds digits for a valid positive finite value of a binary
   format (prec, emax), when the acceptance test is "reads back with the correctly rounded
   conversion nearest_pos_g": with kd digits, 10^(1-kd)/2 < 2^-(prec+1), the floor or the
   ceiling of v / 10^(n-kd) rounds back to v.  Parametric version of Proofs/NumberTotal.v;
   instantiated for binary32 (kd = 9) in Proofs/Float32Total.v. *)
From Coq Require Import ZArith NArith List Bool SpecFloat Reals Lia Lra.
From Flocq Require Import Core BinarySingleNaN.
From JsonSyntax Require Import Base.Prelude Base.Float64 Spec.EcmaNumber Spec.NumSpelling Model.Serde
  Proofs.Float64Proofs Proofs.NumberProofs Proofs.NumberTotal Proofs.FloatGenProofs Proofs.Float32Proofs.
Import ListNotations.
Local Open Scope Z_scope.

Section GenTotal.
Variables prec emax ovf unf : Z.
Context (prec_gt_0_ : Prec_gt_0 prec).
Context (prec_lt_emax_ : Prec_lt_emax prec emax).
Hypothesis Hovf : (bpow radix2 emax <= bpow radix10 ovf)%R.
Hypothesis Hunf : (bpow radix10 unf <= bpow radix2 (emin_g prec emax - 1))%R.
(* decimal decades below the least positive value; size limits that make find_n's fuel
   sufficient; the number of digits that always suffices *)
Variables nlo kd : Z.
Hypothesis Hlo : (bpow radix10 nlo <= bpow radix2 (emin_g prec emax))%R.
Hypothesis Hsmall : -1100 <= emin_g prec emax /\ emax <= 1100 /\ -330 <= nlo /\ ovf <= 330.
Hypothesis Hkd : 1 <= kd <= 17.
Hypothesis Hkd2 : (bpow radix10 (1 - kd) / 2 < bpow radix2 (- (prec + 1)))%R.

Notation emin := (emin_g prec emax).
Notation fexpG := (fexp_g prec emax).
Notation roundG := (round_g prec emax).
Notation nearestG := (nearest_pos_g prec emax ovf unf).

Local Instance fexpG_valid : Valid_exp fexpG.
Proof. apply fexp_g_valid. exact prec_gt_0_. Qed.

Lemma valid_bounds_g : forall s m e, valid_binary prec emax (S754_finite s m e) = true ->
  Zpos m < 2 ^ prec /\ emin <= e <= emax - prec.
Proof.
  intros s m e H. cbn [valid_binary] in H. unfold bounded in H.
  apply andb_true_iff in H. destruct H as [H1 H2].
  apply Zle_bool_imp_le in H2.
  unfold canonical_mantissa in H1. apply Zeq_bool_eq in H1.
  unfold SpecFloat.fexp, SpecFloat.emin in H1.
  rewrite Zpos_digits2_pos in H1.
  assert (Hd : Zdigits radix2 (Zpos m) <= prec) by lia.
  apply Zpower_gt_Zdigits in Hd. cbn [Z.abs] in Hd.
  split; [exact Hd|unfold emin_g; lia].
Qed.

Lemma round_g_near : forall v y,
  generic_format radix2 fexpG v -> (0 < v)%R ->
  (Rabs (y - v) < v * bpow radix2 (- (prec + 1)))%R ->
  roundG y = v.
Proof.
  intros v y Fv Hv Hy.
  assert (Hnz : v <> 0%R) by lra.
  set (mu := mag radix2 v : Z).
  assert (Hmu : (bpow radix2 (mu - 1) <= v < bpow radix2 mu)%R).
  { pose proof (bpow_mag_le radix2 v Hnz). pose proof (bpow_mag_gt radix2 v).
    rewrite Rabs_pos_eq in * by lra. split; assumption. }
  assert (Hy' : (- (v * bpow radix2 (- (prec + 1))) < y - v < v * bpow radix2 (- (prec + 1)))%R).
  { apply Rabs_lt_inv in Hy. lra. } clear Hy.
  assert (H54 : (v * bpow radix2 (- (prec + 1)) < bpow radix2 (mu - (prec + 1)))%R).
  { replace (mu - (prec + 1)) with (mu + - (prec + 1)) by lia. rewrite bpow_plus.
    apply Rmult_lt_compat_r; [apply bpow_gt_0|apply Hmu]. }
  assert (Hulp : ulp radix2 fexpG v = bpow radix2 (fexpG mu)).
  { rewrite ulp_neq_0 by exact Hnz. reflexivity. }
  assert (Hhalf : forall z, mu - (prec + 1) <= z - 1 ->
            (bpow radix2 (mu - (prec + 1)) <= bpow radix2 z / 2)%R).
  { intros z Hz. rewrite <- bpow2_half. now apply bpow_le. }
  unfold round_g. apply Rle_antisym.
  - apply round_N_le_midp; [typeclasses eauto|exact Fv|].
    rewrite succ_eq_pos by lra. rewrite Hulp.
    assert (mu - (prec + 1) <= fexpG mu - 1) by (unfold fexp_g, FLT_exp; lia).
    pose proof (Hhalf _ H). lra.
  - apply round_N_ge_midp; [typeclasses eauto|exact Fv|].
    rewrite pred_eq_pos by lra. unfold pred_pos. fold mu.
    destruct (Req_bool_spec v (bpow radix2 (mu - 1))) as [Hb|Hb].
    + assert (H55 : (v * bpow radix2 (- (prec + 1)) = bpow radix2 (mu - (prec + 2)))%R).
      { rewrite Hb, <- bpow_plus. f_equal. lia. }
      assert (mu - (prec + 2) <= fexpG (mu - 1) - 1) by (unfold fexp_g, FLT_exp; lia).
      assert ((bpow radix2 (mu - (prec + 2)) <= bpow radix2 (fexpG (mu - 1)) / 2)%R).
      { rewrite <- bpow2_half. now apply bpow_le. }
      lra.
    + rewrite Hulp.
      assert (mu - (prec + 1) <= fexpG mu - 1) by (unfold fexp_g, FLT_exp; lia).
      pose proof (Hhalf _ H). lra.
Qed.

Section Value.
Variable m : positive.
Variable e : Z.
Hypothesis Hvalid : valid_binary prec emax (S754_finite false m e) = true.
Let d : spec_float := S754_finite false m e.
Let v : R := dbl_R m e.
Let N : Z := dbl_decade m e.

Lemma val_format : generic_format radix2 fexpG v.
Proof.
  pose proof (generic_format_B2R prec emax (SF2B d Hvalid)) as H.
  rewrite B2R_SF2B in H. exact H.
Qed.

Lemma val_bounds : (bpow radix2 emin <= v < bpow radix2 emax)%R.
Proof.
  destruct (valid_bounds_g _ _ _ Hvalid) as [Hm He]. unfold v, dbl_R.
  unfold Prec_gt_0 in *. split.
  - apply Rle_trans with (1 * bpow radix2 e)%R.
    + rewrite Rmult_1_l. apply bpow_le. lia.
    + apply Rmult_le_compat_r; [apply bpow_ge_0|]. apply IZR_le. lia.
  - apply Rlt_le_trans with (bpow radix2 prec * bpow radix2 e)%R.
    + apply Rmult_lt_compat_r; [apply bpow_gt_0|].
      rewrite <- IZR_pow2 by lia. now apply IZR_lt.
    + rewrite <- bpow_plus. apply bpow_le. lia.
Qed.

Lemma val_pos : (0 < v)%R.
Proof. apply Rlt_le_trans with (2 := proj1 val_bounds). apply bpow_gt_0. Qed.

Lemma val_decade_spec : (bpow radix10 (N - 1) <= v < bpow radix10 N)%R.
Proof.
  pose proof val_pos as Hp.
  assert (Hnz : v <> 0%R) by lra.
  pose proof (bpow_mag_le radix10 v Hnz). pose proof (bpow_mag_gt radix10 v).
  rewrite Rabs_pos_eq in * by lra. split; assumption.
Qed.

Lemma val_decade_bounds : nlo < N <= ovf.
Proof.
  pose proof val_decade_spec as [H1 H2]. pose proof val_bounds as [H3 H4]. split.
  - apply (lt_bpow radix10). apply Rle_lt_trans with (1 := Hlo). lra.
  - assert (N - 1 < ovf); [|lia]. apply (lt_bpow radix10).
    apply Rle_lt_trans with (1 := H1). apply Rlt_le_trans with (1 := H4). exact Hovf.
Qed.

Lemma val_n0_estimate_bounds :
  -335 <= (Z.log2 (nks_num m e) - Z.log2 (nks_den e)) * 30103 / 100000 + 1 <= 335.
Proof.
  destruct (valid_bounds_g _ _ _ Hvalid) as [Hm He].
  unfold Prec_gt_0, Prec_lt_emax, emin_g in *.
  assert (HL : 3 - emax - prec <= Z.log2 (nks_num m e) - Z.log2 (nks_den e) <= emax).
  { unfold nks_num, nks_den, scale2. destruct (Z.leb_spec 0 e) as [H|H]; cbn [fst snd].
    - change (Z.log2 1) with 0.
      assert (Z.pos m * 2 ^ e < 2 ^ emax).
      { apply Z.lt_le_trans with (2 ^ prec * 2 ^ e).
        - apply Z.mul_lt_mono_pos_r; [apply Z.pow_pos_nonneg; lia|exact Hm].
        - rewrite <- Z.pow_add_r by lia. apply Z.pow_le_mono_r; lia. }
      assert (0 < Z.pos m * 2 ^ e) by (apply Z.mul_pos_pos; [lia|apply Z.pow_pos_nonneg; lia]).
      pose proof (Z.log2_nonneg (Z.pos m * 2 ^ e)).
      assert (Z.log2 (Z.pos m * 2 ^ e) < emax) by (apply Z.log2_lt_pow2; assumption).
      lia.
    - rewrite Z.mul_1_r, Z.log2_pow2 by lia.
      pose proof (Z.log2_nonneg (Z.pos m)).
      assert (Z.log2 (Z.pos m) < prec) by (apply Z.log2_lt_pow2; [lia|exact Hm]).
      lia. }
  set (L := Z.log2 (nks_num m e) - Z.log2 (nks_den e)) in *.
  pose proof (Z.div_mod (L * 30103) 100000 ltac:(lia)).
  pose proof (Z.mod_pos_bound (L * 30103) 100000 ltac:(lia)).
  lia.
Qed.

Lemma val_n0_correct : nks_n0 m e = N.
Proof.
  unfold nks_n0.
  apply (find_n_correct _ _ (nks_den_pos e)).
  - rewrite nks_ratio. exact val_decade_spec.
  - pose proof val_n0_estimate_bounds. pose proof val_decade_bounds. lia.
Qed.

Lemma rounds_to_val_iff : forall s x, 0 < s ->
  (nearestG (Z.to_pos s) x = d <-> roundG (IZR s * bpow radix10 x) = v).
Proof.
  intros s x Hs.
  assert (E : dec_R (Z.to_pos s) x = (IZR s * bpow radix10 x)%R).
  { unfold dec_R. rewrite Z2Pos.id by exact Hs. reflexivity. }
  pose proof (nearest_pos_g_correct prec emax _ _ ovf unf Hovf Hunf (Z.to_pos s) x) as H.
  rewrite E in H.
  split; intros H1.
  - rewrite H1 in H. unfold nd_spec_g in H.
    destruct (Rlt_bool _ _); [|discriminate H]. symmetry. apply H.
  - apply (nd_spec_g_unique prec emax) with (1 := H).
    apply nd_spec_g_of_round; [exact Hvalid|exact H1].
Qed.

Definition chk_g (x : spec_float) (s x10 : Z) : bool := sf_eqb (nearestG (Z.to_pos s) x10) x.

Lemma cand_ok_g_iff : forall k c, 0 < fst c ->
  (cand_ok_g (chk_g d) k c = true <->
   10 ^ (k - 1) <= fst c < 10 ^ k /\ roundG (cand_val k c) = v).
Proof.
  intros k [s n'] Hs. cbn [fst] in Hs. unfold cand_ok_g, cand_val, chk_g. cbn [fst snd].
  rewrite !andb_true_iff, Z.leb_le, Z.ltb_lt.
  rewrite <- (rounds_to_val_iff s (n' - k) Hs). split.
  - intros [[H1 H2] H3]. split; [lia|]. now apply sf_eqb_eq.
  - intros [[H1 H2] H3]. split; [split; assumption|].
    apply sf_eqb_true_iff. split; [exact H3|]. rewrite H3. discriminate.
Qed.

Lemma kd_digits : exists c, In c (cands (nks_num m e) (nks_den e) N kd) /\ cand_ok_g (chk_g d) kd c = true.
Proof.
  pose proof val_decade_spec as HN. pose proof val_pos as Hp.
  destruct (cands_spec (nks_num m e) (nks_den e) (nks_den_pos e) N kd ltac:(lia)) as
    [fl [c1 [c2 [Ec [Hfl [Hv [E1 [Hc2 [Hv2 _]]]]]]]]].
  { rewrite nks_ratio. exact HN. }
  rewrite nks_ratio in Hv. fold v in Hv. rewrite Ec.
  set (u := bpow radix10 (N - kd)) in *.
  assert (Hu : (u <= v * bpow radix10 (1 - kd))%R).
  { unfold u. replace (N - kd) with ((N - 1) + (1 - kd)) by lia. rewrite bpow_plus.
    apply Rmult_le_compat_r; [apply bpow_ge_0|apply HN]. }
  assert (Hb : (u / 2 < v * bpow radix2 (- (prec + 1)))%R).
  { apply Rle_lt_trans with (v * (bpow radix10 (1 - kd) / 2))%R; [lra|].
    apply Rmult_lt_compat_l; [exact Hp|exact Hkd2]. }
  assert (Hab : (IZR (fl + 1) * u - IZR fl * u = u)%R) by (rewrite plus_IZR; ring).
  assert (Hposk : 0 < 10 ^ (kd - 1)) by (apply Z.pow_pos_nonneg; lia).
  destruct (Rle_or_lt (v - IZR fl * u) (u / 2)) as [Hc|Hc].
  - exists c1. split; [left; reflexivity|]. subst c1.
    apply cand_ok_g_iff; cbn [fst]; [lia|]. split; [exact Hfl|].
    unfold cand_val; cbn [fst snd]. fold u.
    apply round_g_near; [exact val_format|exact Hp|].
    rewrite Rabs_left1 by lra. lra.
  - exists c2. split; [right; left; reflexivity|].
    apply cand_ok_g_iff; [lia|]. split; [exact Hc2|]. rewrite Hv2.
    apply round_g_near; [exact val_format|exact Hp|].
    rewrite Rabs_pos_eq by lra. lra.
Qed.

Theorem nks_g_total : nks_g (chk_g d) m e <> None.
Proof.
  intros H. rewrite nks_g_unfold in H.
  pose proof (search_g_none _ _ _ _ _ _ H kd ltac:(lia)) as B.
  rewrite val_n0_correct in B.
  destruct kd_digits as [c [Hin Hok]].
  rewrite (best_g_none _ _ _ _ _ B c Hin) in Hok. discriminate.
Qed.

End Value.
End GenTotal.

Print Assumptions round_g_near.
Print Assumptions val_n0_correct.
Print Assumptions nks_g_total.
