(* Proofs/SerdeShape.v -- C16: the value produced by to_value has the same JSON shape as
   the one serde_json::to_value produces (model ser_sj), for data without f32 leaves:
   structure, strings, booleans exact; object members up to order; numbers by value. *)
From JsonSyntax Require Import Base.Prelude Base.Value Spec.EcmaNumber Spec.Multimap
  Spec.SerdeTyped Model.Serde Proofs.SerdeBasics Proofs.SerdeProofs.
Local Open Scope Z_scope.

(* ---- BTreeMap insertion commutes with key-preserving maps ---- *)
Section InsertMap.
  Context {A B : Type} (G : str -> A -> B).
  Definition kmap (e : str * A) : str * B := (fst e, G (fst e) (snd e)).

  Lemma sj_insert_map k v : forall l, map kmap (sj_insert k v l) = sj_insert k (G k v) (map kmap l).
  Proof.
    induction l as [|e l IH]; [reflexivity|].
    cbn [sj_insert map]. change (fst (kmap e)) with (fst e).
    destruct (str_eqb (fst e) k); [reflexivity|].
    destruct (str_ltb k (fst e)); [reflexivity|].
    cbn [map]. rewrite IH. reflexivity.
  Qed.

  Lemma fold_insert_map : forall l acc,
    map kmap (fold_left (fun a e => sj_insert (fst e) (snd e) a) l acc)
    = fold_left (fun a e => sj_insert (fst e) (snd e) a) (map kmap l) (map kmap acc).
  Proof.
    induction l as [|e l IH]; intros acc; [reflexivity|].
    cbn [fold_left map]. rewrite IH. rewrite sj_insert_map. reflexivity.
  Qed.
End InsertMap.

Lemma isort_map {A B} (g : A -> B) (l : list (str * A)) :
  map (fun e => (fst e, g (snd e))) (isort l) = isort (map (fun e => (fst e, g (snd e))) l).
Proof. unfold isort. exact (fold_insert_map (fun _ => g) l []). Qed.

Lemma fields2b_names {A B} (f : A -> B -> bool) : forall l ts, fields2b f l ts = true -> map fst l = map fst ts.
Proof.
  induction l as [|fx l IH]; intros [|ft ts] H; cbn in H; try discriminate; auto.
  apply andb_true_iff in H. destruct H as [H H2]. apply andb_true_iff in H. destruct H as [H _].
  apply str_eqb_spec in H. cbn. f_equal; auto.
Qed.

Section SjLists.
  Context {E A B : Type} (fk : A -> outcome E str) (fv : A -> outcome E B).

  Lemma sj_fields_ok : forall (l : list (str * A)) o js,
    omap (fun fx => fv (snd fx)) l = Ok js ->
    sj_fields_g fv l o = Ok (fold_left (fun a e => sj_insert (fst e) (snd e) a) (combine (map fst l) js) o).
  Proof.
    induction l as [|[f x] l IH]; intros o js Hm.
    - cbn in Hm. inversion Hm; subst. reflexivity.
    - cbn [omap snd] in Hm. cbn [sj_fields_g snd fst map].
      destruct (fv x) as [v| | |]; cbn [obind] in *; try discriminate.
      destruct (omap (fun fx => fv (snd fx)) l) as [js'| | |] eqn:El; cbn [obind] in Hm; try discriminate.
      inversion Hm; subst. cbn [combine fold_left fst snd]. apply IH. reflexivity.
  Qed.

  Lemma sj_entries_ok : forall (l : list (A * A)) o ks js,
    omap (fun kx => fk (fst kx)) l = Ok ks ->
    omap (fun kx => fv (snd kx)) l = Ok js ->
    sj_entries_g fk fv l o = Ok (fold_left (fun a e => sj_insert (fst e) (snd e) a) (combine ks js) o).
  Proof.
    induction l as [|[k x] l IH]; intros o ks js Hk Hm.
    - cbn in Hk, Hm. inversion Hk; inversion Hm; subst. reflexivity.
    - cbn [omap snd fst] in Hk, Hm. cbn [sj_entries_g snd fst].
      destruct (fk k) as [k0| | |]; cbn [obind] in *; try discriminate.
      destruct (fv x) as [v| | |]; cbn [obind] in *; try discriminate.
      destruct (omap (fun kx => fk (fst kx)) l) as [ks'| | |] eqn:Ek; cbn [obind] in Hk; try discriminate.
      destruct (omap (fun kx => fv (snd kx)) l) as [js'| | |] eqn:El; cbn [obind] in Hm; try discriminate.
      inversion Hk; inversion Hm; subst. cbn [combine fold_left fst snd]. apply IH; reflexivity.
  Qed.
End SjLists.

Lemma map_combine {A B C} (g : B -> C) (ks : list A) (vs : list B) :
  map (fun e => (fst e, g (snd e))) (combine ks vs) = combine ks (map g vs).
Proof.
  revert vs. induction ks as [|k ks IH]; intros [|v vs]; cbn; auto. f_equal. apply IH.
Qed.

(* ---- typed lists: every element has some type ---- *)
Definition typed (E : env) (d : tsd) : Prop := exists t, has_type E d t = true.

Lemma all2b_typed E : forall l ts, all2b (fun x t => has_type E x t) l ts = true -> Forall (typed E) l.
Proof.
  induction l as [|x l IH]; intros [|t ts] H; cbn in H; try discriminate; constructor.
  - apply andb_true_iff in H. destruct H as [H _]. exists t. exact H.
  - apply andb_true_iff in H. destruct H as [_ H]. eapply IH; eauto.
Qed.

Lemma forallb_typed E t : forall l, forallb (fun x => has_type E x t) l = true -> Forall (typed E) l.
Proof.
  induction l as [|x l IH]; intros H; cbn in H; constructor.
  - apply andb_true_iff in H. destruct H as [H _]. exists t. exact H.
  - apply andb_true_iff in H. destruct H as [_ H]. auto.
Qed.

Lemma fields2b_typed E : forall l ts, fields2b (fun x t => has_type E x t) l ts = true ->
  Forall (fun fx : str * tsd => typed E (snd fx)) l.
Proof.
  induction l as [|x l IH]; intros [|t ts] H; cbn in H; try discriminate; constructor.
  - apply andb_true_iff in H. destruct H as [H _]. apply andb_true_iff in H. destruct H as [_ H].
    exists (snd t). exact H.
  - apply andb_true_iff in H. destruct H as [_ H]. eapply IH; eauto.
Qed.

Section Shape.
  Variable E : env.
  Variable fmt_f64 fmt_f32 : Z -> list N.

  (* the spelling of a finite double denotes its value: the exact integer when it is
     integer-spelled, otherwise it reads (correctly rounded) as that double *)
  Hypothesis Hk64 : forall b, f64_wf b = true -> f64_finite b = true ->
    num_key false (fmt_f64 b) = key_of_f64 b.

  Notation tser := (Serde.tser fmt_f64 fmt_f32).
  Notation shape := (shape_of false).
  Notation shape_sj := (shape_of_sj false).

  Definition SH (d : tsd) : Prop :=
    typed E d -> finite_floats d = true -> known_class d = false -> no_f32 d = true ->
    exists v j, tser d = Ok v /\ ser_sj d = Ok j /\ shape v = shape_sj j.

  Lemma list_sh : forall l, Forall SH l -> Forall (typed E) l ->
    forallb finite_floats l = true -> existsb known_class l = false -> forallb no_f32 l = true ->
    exists vs js, omap (fun x => tser x) l = Ok vs /\ omap (fun x => ser_sj x) l = Ok js /\
                  map shape vs = map shape_sj js.
  Proof.
    induction 1 as [|x l Hx _ IH]; intros Ht Hf Hk Hn.
    - exists [], []. repeat split; reflexivity.
    - inversion Ht as [|? ? Tx Tl]; subst. cbn [forallb existsb] in *.
      split_and Hf. split_and Hn. apply orb_false_iff in Hk. destruct Hk as [Hk Hk0].
      destruct (Hx Tx Hf Hk Hn) as (v & j & Hv & Hj & Hs).
      destruct (IH Tl Hf0 Hk0 Hn0) as (vs & js & Hvs & Hjs & Hss).
      exists (v :: vs), (j :: js). cbn [omap map]. rewrite Hv, Hj. cbn [obind]. rewrite Hvs, Hjs.
      repeat split; try reflexivity. cbn [obind]. f_equal; auto.
  Qed.

  Lemma fields_sh : forall l : list (str * tsd), Forall (fun fx => SH (snd fx)) l ->
    Forall (fun fx => typed E (snd fx)) l ->
    forallb (fun fx => finite_floats (snd fx)) l = true ->
    existsb (fun fx => known_class (snd fx)) l = false ->
    forallb (fun fx => no_f32 (snd fx)) l = true ->
    exists vs js, omap (fun fx : str * tsd => tser (snd fx)) l = Ok vs /\
                  omap (fun fx : str * tsd => ser_sj (snd fx)) l = Ok js /\
                  map shape vs = map shape_sj js.
  Proof.
    induction 1 as [|x l Hx _ IH]; intros Ht Hf Hk Hn.
    - exists [], []. repeat split; reflexivity.
    - inversion Ht as [|? ? Tx Tl]; subst. cbn [forallb existsb] in *.
      split_and Hf. split_and Hn. apply orb_false_iff in Hk. destruct Hk as [Hk Hk0].
      destruct (Hx Tx Hf Hk Hn) as (v & j & Hv & Hj & Hs).
      destruct (IH Tl Hf0 Hk0 Hn0) as (vs & js & Hvs & Hjs & Hss).
      exists (v :: vs), (j :: js). cbn [omap map]. rewrite Hv, Hj. cbn [obind]. rewrite Hvs, Hjs.
      repeat split; try reflexivity. cbn [obind]. f_equal; auto.
  Qed.

  Lemma key_sj k kt : key_has_type E k kt = true ->
    exists s, key_str k = Some s /\ ser_key k = Ok s /\ ser_sj_key k = Ok s.
  Proof.
    destruct k, kt; cbn [key_has_type]; intros H; try discriminate; cbn; eauto.
  Qed.

  Lemma entries_sh : forall (l : list (tsd * tsd)) kt t',
    Forall (fun kv => SH (fst kv) /\ SH (snd kv)) l ->
    forallb (fun kv => key_has_type E (fst kv) kt && has_type E (snd kv) t') l = true ->
    forallb (fun kv => finite_floats (fst kv) && finite_floats (snd kv)) l = true ->
    existsb (fun kv => known_class (snd kv)) l = false ->
    forallb (fun kv => no_f32 (fst kv) && no_f32 (snd kv)) l = true ->
    exists vs js, omap (fun kx : tsd * tsd => ser_key (fst kx)) l = Ok (keys_of l) /\
                  omap (fun kx : tsd * tsd => ser_sj_key (fst kx)) l = Ok (keys_of l) /\
                  omap (fun kx : tsd * tsd => tser (snd kx)) l = Ok vs /\
                  omap (fun kx : tsd * tsd => ser_sj (snd kx)) l = Ok js /\
                  map shape vs = map shape_sj js.
  Proof.
    intros l kt t' H. induction H as [|[k x] l [_ Hx] _ IH]; intros Ht Hf Hk Hn.
    - exists [], []. repeat split; reflexivity.
    - cbn [forallb existsb fst snd] in *. split_and Ht. split_and Hf. split_and Hn.
      apply orb_false_iff in Hk. destruct Hk as [Hk Hk0].
      destruct (key_sj k kt Ht) as (s & Ks & K1 & K2).
      destruct (Hx (ex_intro _ t' Ht1) Hf1 Hk Hn1) as (v & j & Hv & Hj & Hs).
      destruct (IH Ht0 Hf0 Hk0 Hn0) as (vs & js & A1 & A2 & A3 & A4 & A5).
      exists (v :: vs), (j :: js). cbn [keys_of omap map fst snd]. rewrite Ks, K1, K2, Hv, Hj. cbn [obind].
      rewrite A1, A2, A3, A4. cbn [obind]. repeat split; try reflexivity. f_equal; auto.
  Qed.

  Lemma shape_obj (ks : list str) (vs : list value) (js : list tsj) :
    map shape vs = map shape_sj js ->
    shape (VObj (combine ks vs)) = shape_sj (TjObj (isort (combine ks js))).
  Proof.
    intros H. cbn [shape_of shape_of_sj]. f_equal. unfold sort_shape_entries.
    rewrite (isort_map (shape_of_sj false)). rewrite !map_combine. rewrite H. reflexivity.
  Qed.

  Theorem shape_SH : forall d, SH d.
  Proof.
    induction d using tsd_ind'; intros [t Ht] Hf Hk Hn; destruct t; cbn [has_type] in Ht; try discriminate;
      cbn [finite_floats known_class no_f32] in Hf, Hk, Hn; try discriminate.
    - (* bool *) exists (VBool b), (TjBool b). repeat split; reflexivity.
    - (* int *) split_and Ht. exists (VNum (z_dec z)), (TjNum (sj_int z)). repeat split; try reflexivity.
      cbn [shape_of shape_of_sj]. f_equal. unfold num_key. rewrite (num_event_int k z Ht0).
      unfold sj_int. destruct (Z.leb_spec 0 z), (Z.ltb_spec z 0); try lia; reflexivity.
    - (* f64 *) exists (VNum (fmt_f64 b)), (TjNum (SJFloat b)). cbn [Serde.tser ser_sj]. rewrite Hf.
      repeat split; try reflexivity. cbn [shape_of shape_of_sj]. rewrite (Hk64 b Ht Hf). reflexivity.
    - (* char *) exists (VStr [c]), (TjStr [c]). repeat split; reflexivity.
    - (* str *) exists (VStr s), (TjStr s). repeat split; reflexivity.
    - (* unit *) exists VNull, TjNull. repeat split; reflexivity.
    - (* unit struct *) exists VNull, TjNull. repeat split; reflexivity.
    - (* none *) exists VNull, TjNull. repeat split; reflexivity.
    - (* some *) split_and Ht. exact (IHd (ex_intro _ t Ht) Hf Hk Hn).
    - (* newtype struct *) split_and Ht. destruct (assoc n E) as [[]|]; try discriminate.
      exact (IHd (ex_intro _ t Ht0) Hf Hk Hn).
    - (* seq *) destruct (list_sh l H (forallb_typed E t l Ht) Hf Hk Hn) as (vs & js & Hvs & Hjs & Hs).
      exists (VArr vs), (TjArr js). cbn [Serde.tser ser_sj]. rewrite Hvs, Hjs. repeat split; try reflexivity.
      cbn [shape_of shape_of_sj]. f_equal. exact Hs.
    - (* tuple *) destruct (list_sh l H (all2b_typed E l l0 Ht) Hf Hk Hn) as (vs & js & Hvs & Hjs & Hs).
      exists (VArr vs), (TjArr js). cbn [Serde.tser ser_sj]. rewrite Hvs, Hjs. repeat split; try reflexivity.
      cbn [shape_of shape_of_sj]. f_equal. exact Hs.
    - (* tuple struct *) split_and Ht. destruct (assoc n E) as [[]|]; try discriminate.
      destruct (list_sh l H (all2b_typed E l l0 Ht0) Hf Hk Hn) as (vs & js & Hvs & Hjs & Hs).
      exists (VArr vs), (TjArr js). cbn [Serde.tser ser_sj]. rewrite Hvs, Hjs. repeat split; try reflexivity.
      cbn [shape_of shape_of_sj]. f_equal. exact Hs.
    - (* map *) split_and Ht. apply orb_false_iff in Hk. destruct Hk as [Hk1 Hk2].
      destruct (entries_sh l k t H Ht Hf Hk2 Hn) as (vs & js & A1 & A2 & A3 & A4 & A5).
      exists (VObj (combine (keys_of l) vs)), (TjObj (isort (combine (keys_of l) js))). split; [|split].
      + rewrite ser_map_eq.
        * assert (X : ser_entries_g ser_key tser l [] = Ok (combine (keys_of l) vs))
            by exact (ser_entries_ok _ _ l [] (keys_of l) vs A1 A3 Ht0).
          rewrite X. reflexivity.
        * destruct l as [|[k0 x0] l]; [reflexivity|].
          cbn [forallb fst] in Ht. split_and Ht.
          destruct (key_sj k0 k Ht) as (s & Ks & Kser & _).
          cbn [fst]. rewrite Kser. rewrite Ks in Hk1. exact Hk1.
      + cbn [ser_sj].
        assert (X : sj_entries_g ser_sj_key ser_sj l [] = Ok (isort (combine (keys_of l) js)))
          by exact (sj_entries_ok _ _ l [] (keys_of l) js A2 A4).
        change (obind (sj_entries_g ser_sj_key ser_sj l []) (fun o => Ok (TjObj o)) = Ok (TjObj (isort (combine (keys_of l) js)))).
        rewrite X. reflexivity.
      + apply shape_obj. exact A5.
    - (* struct *) split_and Ht. apply str_eqb_spec in Ht. subst name.
      destruct (assoc n E) as [[]|] eqn:Ea; try discriminate. split_and Ht0.
      apply orb_false_iff in Hk. destruct Hk as [Hk1 Hk2].
      destruct (fields_sh l H (fields2b_typed E l l0 Ht0) Hf Hk2 Hn) as (vs & js & Hvs & Hjs & Hs).
      exists (VObj (combine (map fst l) vs)), (TjObj (isort (combine (map fst l) js))). split; [|split].
      + rewrite ser_struct_eq by exact Hk1.
        assert (X : ser_fields_g tser l [] = Ok (combine (map fst l) vs)).
        { apply (ser_fields_ok _ l [] vs Hvs). cbn [map app]. rewrite (fields2b_names _ _ _ Ht0). exact Ht1. }
        rewrite X. reflexivity.
      + cbn [ser_sj].
        assert (X : sj_fields_g ser_sj l [] = Ok (isort (combine (map fst l) js)))
          by exact (sj_fields_ok _ l [] js Hjs).
        change (obind (sj_fields_g ser_sj l []) (fun o => Ok (TjObj o)) = Ok (TjObj (isort (combine (map fst l) js)))).
        rewrite X. reflexivity.
      + apply shape_obj. exact Hs.
    - (* unit variant *) exists (VStr v), (TjStr v). repeat split; reflexivity.
    - (* newtype variant *) split_and Ht. destruct (assoc n E) as [[]|]; try discriminate.
      destruct (assoc v vs) as [[]|]; try discriminate.
      destruct (IHd (ex_intro _ t Ht0) Hf Hk Hn) as (w & j & Hw & Hj & Hs).
      exists (VObj [(v, w)]), (TjObj [(v, j)]). cbn [Serde.tser ser_sj]. rewrite Hw, Hj.
      repeat split; try reflexivity. cbn. rewrite Hs. reflexivity.
    - (* tuple variant *) split_and Ht. destruct (assoc n E) as [[]|]; try discriminate.
      destruct (assoc v vs) as [[]|]; try discriminate.
      destruct (list_sh l H (all2b_typed E _ l0 Ht0) Hf Hk Hn) as (ws & js & Hws & Hjs & Hs).
      exists (VObj [(v, VArr ws)]), (TjObj [(v, TjArr js)]). cbn [Serde.tser ser_sj]. rewrite Hws, Hjs.
      repeat split; try reflexivity. cbn. f_equal. f_equal. f_equal. f_equal. exact Hs.
    - (* struct variant *) split_and Ht. destruct (assoc n E) as [[]|]; try discriminate.
      destruct (assoc v vs) as [[]|]; try discriminate. split_and Ht0.
      destruct (fields_sh l H (fields2b_typed E l l0 Ht0) Hf Hk Hn) as (ws & js & Hws & Hjs & Hs).
      exists (VObj [(v, VObj (combine (map fst l) ws))]), (TjObj [(v, TjObj (isort (combine (map fst l) js)))]).
      split; [|split].
      + cbn [Serde.tser].
        assert (X : ser_fields_g tser l [] = Ok (combine (map fst l) ws)).
        { apply (ser_fields_ok _ l [] ws Hws). cbn [map app]. rewrite (fields2b_names _ _ _ Ht0). exact Ht1. }
        change (obind (ser_fields_g tser l []) (fun o => Ok (VObj [(v, VObj o)])) = Ok (VObj [(v, VObj (combine (map fst l) ws))])).
        rewrite X. reflexivity.
      + cbn [ser_sj].
        assert (X : sj_fields_g ser_sj l [] = Ok (isort (combine (map fst l) js)))
          by exact (sj_fields_ok _ l [] js Hjs).
        change (obind (sj_fields_g ser_sj l []) (fun o => Ok (TjObj [(v, TjObj o)])) = Ok (TjObj [(v, TjObj (isort (combine (map fst l) js)))])).
        rewrite X. reflexivity.
      + pose proof (shape_obj (map fst l) ws js Hs) as Q. cbn [shape_of shape_of_sj] in Q |- *.
        injection Q as Q. cbn. rewrite Q. reflexivity.
  Qed.
End Shape.
