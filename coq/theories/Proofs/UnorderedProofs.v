(* Proofs/UnorderedProofs.v -- C15: the greedy one-to-one matching of
   Model/Unordered.v decides Spec/PermEq.v (equality up to a permutation of object
   entries at any depth).

   Plan.
   1. List lemmas: Forall2 transported along a Permutation; Forall2 combined with a
      Forall of "induction hypotheses" (the nested induction principle [value_ind'] gives
      the hypotheses as a [Forall] over the left list).
   2. PermEq is an equivalence (nested induction on the left value).
   3. The inner loops of the object case, abstractly: [gany]/[gall] are the flagged loops
      of the model; [rm1]/[rall] REMOVE the matched entry instead of flagging it;
      [gall x y m = rall x (unfl y m)] where [unfl y m] keeps the unflagged entries.
      Soundness and completeness of [rall] w.r.t. "Permutation + Forall2".
   4. Unfolding lemmas for [unordered_eq] on arrays and objects, then the two directions
      and the final iff; corollaries. *)
From JsonSyntax Require Import Base.Prelude Base.Value Model.Unordered Spec.PermEq.
From Coq Require Import Sorting.Permutation.

(* ------------------------------------------------------------------------- *)
(* 1. List lemmas                                                             *)
(* ------------------------------------------------------------------------- *)

Section ListLemmas.
  Context {A B C : Type}.

  (* Forall2 transported along a permutation of its left list. *)
  Lemma Forall2_perm_l (S : A -> B -> Prop) : forall u u',
    Permutation u u' -> forall v, Forall2 S u v ->
    exists v', Permutation v v' /\ Forall2 S u' v'.
  Proof.
    induction 1 as [| a l l' Hp IH | a b l | l l' l'' H1 IH1 H2 IH2]; intros v Hv.
    - inversion Hv; subst. exists []. split; constructor.
    - inversion Hv as [|a0 b0 l0 v0 Hab H0]; subst.
      destruct (IH _ H0) as [v' [Hpv Hf]].
      exists (b0 :: v'). split; constructor; assumption.
    - inversion Hv as [|? b1 ? v1 Hab1 Hv1]; subst.
      inversion Hv1 as [|? b2 ? v2 Hab2 Hv2]; subst.
      exists (b2 :: b1 :: v2). split; [apply perm_swap | repeat constructor; assumption].
    - destruct (IH1 _ Hv) as [v1 [Hp1 Hf1]]. destruct (IH2 _ Hf1) as [v2 [Hp2 Hf2]].
      exists v2. split; [eapply Permutation_trans; eassumption | assumption].
  Qed.

  Lemma Forall2_impl_Forall (S T : A -> B -> Prop) : forall u v,
    Forall (fun a => forall b, S a b -> T a b) u -> Forall2 S u v -> Forall2 T u v.
  Proof.
    intros u v HF H2. induction H2 as [|a b u v Hab _ IH]; [constructor|].
    inversion HF as [|? ? Ha HF']; subst. constructor; auto.
  Qed.

  Lemma Forall2_flip_Forall (S : A -> B -> Prop) (T : B -> A -> Prop) : forall u v,
    Forall (fun a => forall b, S a b -> T b a) u -> Forall2 S u v -> Forall2 T v u.
  Proof.
    intros u v HF H2. induction H2 as [|a b u v Hab _ IH]; [constructor|].
    inversion HF as [|? ? Ha HF']; subst. constructor; auto.
  Qed.

  Lemma Forall2_trans_Forall (S : A -> B -> Prop) (T : B -> C -> Prop) (U : A -> C -> Prop) :
    forall u v w,
    Forall (fun a => forall b c, S a b -> T b c -> U a c) u ->
    Forall2 S u v -> Forall2 T v w -> Forall2 U u w.
  Proof.
    intros u v w HF H2. revert w. induction H2 as [|a b u v Hab _ IH]; intros w Hw.
    - inversion Hw; subst. constructor.
    - inversion Hw as [|? c ? w' Hbc Hw']; subst.
      inversion HF as [|? ? Ha HF']; subst. constructor; eauto.
  Qed.

  Lemma Forall2_same_length (S : A -> B -> Prop) : forall u v,
    Forall2 S u v -> length u = length v.
  Proof. induction 1; cbn; congruence. Qed.

  Lemma Forall2_refl_Forall (S : A -> A -> Prop) : forall u,
    Forall (fun a => S a a) u -> Forall2 S u u.
  Proof. induction 1; constructor; assumption. Qed.
End ListLemmas.

(* ------------------------------------------------------------------------- *)
(* 2. PermEq is an equivalence                                                *)
(* ------------------------------------------------------------------------- *)

(* The entry relation of [pe_obj]. *)
Definition entry_permeq (e e' : list N * value) : Prop :=
  fst e = fst e' /\ PermEq (snd e) (snd e').

Lemma permeq_arr_inv x b :
  PermEq (VArr x) b -> exists y, b = VArr y /\ Forall2 PermEq x y.
Proof. intros H. inversion H; subst. eexists; split; [reflexivity | assumption]. Qed.

Lemma permeq_obj_inv x b :
  PermEq (VObj x) b ->
  exists y y', b = VObj y /\ Permutation y y' /\ Forall2 entry_permeq x y'.
Proof.
  intros H. inversion H as [| | | | | x0 y y' Hp Hf]; subst.
  exists y, y'. split; [reflexivity|]. split; assumption.
Qed.

Lemma permeq_obj_intro x y y' :
  Permutation y y' -> Forall2 entry_permeq x y' -> PermEq (VObj x) (VObj y).
Proof. intros Hp Hf. eapply pe_obj; eassumption. Qed.

Theorem permeq_refl : forall a, PermEq a a.
Proof.
  induction a as [| b | s | s | l IH | l IH] using value_ind'; try constructor.
  - apply Forall2_refl_Forall. exact IH.
  - apply permeq_obj_intro with (y' := l); [apply Permutation_refl|].
    apply Forall2_refl_Forall.
    eapply Forall_impl; [|exact IH]. intros e He. split; [reflexivity | exact He].
Qed.

Theorem permeq_sym : forall a b, PermEq a b -> PermEq b a.
Proof.
  induction a as [| b0 | s | s | l IH | l IH] using value_ind'; intros b H;
    try solve [inversion H; subst; constructor].
  - apply permeq_arr_inv in H. destruct H as [y [-> Hf]].
    constructor. eapply Forall2_flip_Forall; [|exact Hf]. exact IH.
  - apply permeq_obj_inv in H. destruct H as [y [y' [-> [Hp Hf]]]].
    assert (Hf' : Forall2 entry_permeq y' l).
    { eapply Forall2_flip_Forall; [|exact Hf].
      eapply Forall_impl; [|exact IH]. intros e He e' [Hk Hv].
      split; [symmetry; exact Hk | apply He; exact Hv]. }
    destruct (Forall2_perm_l entry_permeq y' y (Permutation_sym Hp) l Hf')
      as [l' [Hpl Hfl]].
    apply permeq_obj_intro with (y' := l'); assumption.
Qed.

Theorem permeq_trans : forall a b c, PermEq a b -> PermEq b c -> PermEq a c.
Proof.
  induction a as [| b0 | s | s | l IH | l IH] using value_ind'; intros b c Hab Hbc;
    try solve [inversion Hab; subst; exact Hbc].
  - apply permeq_arr_inv in Hab. destruct Hab as [y [-> Hxy]].
    apply permeq_arr_inv in Hbc. destruct Hbc as [z [-> Hyz]].
    constructor. eapply Forall2_trans_Forall; [|exact Hxy|exact Hyz]. exact IH.
  - apply permeq_obj_inv in Hab. destruct Hab as [y [y' [-> [Hpy Hxy]]]].
    apply permeq_obj_inv in Hbc. destruct Hbc as [z [z' [-> [Hpz Hyz]]]].
    destruct (Forall2_perm_l entry_permeq y y' Hpy z' Hyz) as [z'' [Hpz' Hyz']].
    apply permeq_obj_intro with (y' := z'');
      [eapply Permutation_trans; eassumption|].
    eapply Forall2_trans_Forall; [|exact Hxy|exact Hyz'].
    eapply Forall_impl; [|exact IH]. intros e He e1 e2 [Hk1 Hv1] [Hk2 Hv2].
    split; [congruence | eapply He; eassumption].
Qed.

Theorem eq_implies_permeq : forall a b, a = b -> PermEq a b.
Proof. intros a b ->. apply permeq_refl. Qed.

(* ------------------------------------------------------------------------- *)
(* 3. The greedy one-to-one matching, abstractly                              *)
(* ------------------------------------------------------------------------- *)

Section Greedy.
  Context {A B : Type} (r : A -> B -> bool).

  (* the flagged loops, as in the model (and in the Rust code) *)
  Fixpoint gany (a : A) (y : list B) (m : list bool) : option (list bool) :=
    match y, m with
    | q :: y', used :: m' =>
        if r a q && negb used then Some (true :: m')
        else option_map (cons used) (gany a y' m')
    | _, _ => None
    end.

  Fixpoint gall (x : list A) (y : list B) (m : list bool) : bool :=
    match x with
    | [] => true
    | a :: x' => match gany a y m with Some m' => gall x' y m' | None => false end
    end.

  (* the entries of y that are not flagged *)
  Fixpoint unfl (y : list B) (m : list bool) : list B :=
    match y, m with
    | q :: y', used :: m' => if used then unfl y' m' else q :: unfl y' m'
    | _, _ => []
    end.

  (* the removing loops *)
  Fixpoint rm1 (a : A) (y : list B) : option (list B) :=
    match y with
    | [] => None
    | q :: y' => if r a q then Some y' else option_map (cons q) (rm1 a y')
    end.

  Fixpoint rall (x : list A) (y : list B) : bool :=
    match x with
    | [] => true
    | a :: x' => match rm1 a y with Some y' => rall x' y' | None => false end
    end.

  Lemma gany_rm1 a : forall y m,
    rm1 a (unfl y m) = option_map (unfl y) (gany a y m).
  Proof.
    induction y as [|q y IH]; intros [|u m]; try reflexivity.
    cbn [unfl gany]. destruct u.
    - rewrite andb_false_r. rewrite IH. destruct (gany a y m); reflexivity.
    - rewrite andb_true_r. cbn [rm1]. destruct (r a q); [reflexivity|].
      rewrite IH. destruct (gany a y m); reflexivity.
  Qed.

  Lemma gall_rall : forall x y m, gall x y m = rall x (unfl y m).
  Proof.
    induction x as [|a x IH]; intros y m; [reflexivity|].
    cbn [gall rall]. rewrite gany_rm1. destruct (gany a y m) as [m'|]; cbn [option_map];
      [apply IH | reflexivity].
  Qed.

  Lemma unfl_repeat_false : forall y, unfl y (repeat false (length y)) = y.
  Proof. induction y as [|q y IH]; [reflexivity|]. cbn. rewrite IH. reflexivity. Qed.

  Lemma rm1_Some a : forall y y',
    rm1 a y = Some y' -> exists q, r a q = true /\ Permutation y (q :: y').
  Proof.
    induction y as [|q y IH]; intros y' H; [discriminate|].
    cbn [rm1] in H. destruct (r a q) eqn:Er.
    - injection H as <-. exists q. split; [exact Er | apply Permutation_refl].
    - destruct (rm1 a y) as [y1|] eqn:E1; [|discriminate]. cbn in H. injection H as <-.
      destruct (IH _ eq_refl) as [q1 [Hq1 Hp]]. exists q1. split; [exact Hq1|].
      eapply Permutation_trans; [apply perm_skip; exact Hp | apply perm_swap].
  Qed.

  Lemma rm1_None a : forall y, rm1 a y = None -> forall q, In q y -> r a q = false.
  Proof.
    induction y as [|q0 y IH]; intros H q Hin; [destruct Hin|].
    cbn [rm1] in H. destruct (r a q0) eqn:Er; [discriminate|].
    destruct (rm1 a y) as [y1|] eqn:E1; [discriminate|].
    destruct Hin as [<- | Hin]; [exact Er | apply IH; [reflexivity | exact Hin]].
  Qed.

  Definition R (a : A) (q : B) : Prop := r a q = true.

  Lemma rall_sound : forall x y,
    rall x y = true ->
    exists y1 y2, Permutation y (y1 ++ y2) /\ Forall2 R x y1.
  Proof.
    induction x as [|a x IH]; intros y H.
    - exists [], y. split; [apply Permutation_refl | constructor].
    - cbn [rall] in H. destruct (rm1 a y) as [y'|] eqn:E; [|discriminate].
      destruct (rm1_Some _ _ _ E) as [q [Hq Hp]].
      destruct (IH _ H) as [y1 [y2 [Hp1 Hf]]].
      exists (q :: y1), y2. split.
      + eapply Permutation_trans; [exact Hp|]. cbn. apply perm_skip. exact Hp1.
      + constructor; assumption.
  Qed.

  Lemma rall_sound_len x y :
    length x = length y -> rall x y = true ->
    exists y', Permutation y y' /\ Forall2 R x y'.
  Proof.
    intros Hlen H. destruct (rall_sound _ _ H) as [y1 [y2 [Hp Hf]]].
    assert (Hl : length y2 = O).
    { apply Permutation_length in Hp. apply Forall2_same_length in Hf.
      rewrite app_length in Hp. lia. }
    destruct y2; [|discriminate]. rewrite app_nil_r in Hp.
    exists y1. split; assumption.
  Qed.

  (* Completeness of the greedy loop: the greedy choice may differ from the given
     matching, but it can be exchanged when [R] is "equivalence-like". *)
  Lemma rall_complete : forall x,
    (forall a a' q1 q2, In a x -> In a' x -> R a q1 -> R a q2 -> R a' q1 -> R a' q2) ->
    forall y y', Permutation y y' -> Forall2 R x y' -> rall x y = true.
  Proof.
    induction x as [|a x IH]; intros Hex y y' Hp Hf; [reflexivity|].
    inversion Hf as [|? q2 ? y2 Haq2 Hf2]; subst. cbn [rall].
    destruct (rm1 a y) as [y1|] eqn:E.
    - destruct (rm1_Some _ _ _ E) as [q1 [Haq1 Hp1]].
      assert (Hpp : Permutation (q1 :: y1) (q2 :: y2)).
      { eapply Permutation_trans; [apply Permutation_sym; exact Hp1 | exact Hp]. }
      assert (Hz : exists z, Permutation y1 z /\ Forall2 R x z).
      { assert (Hin : In q1 (q2 :: y2)).
        { eapply Permutation_in; [exact Hpp | left; reflexivity]. }
        destruct Hin as [Heq | Hin].
        - subst q2. exists y2. split; [eapply Permutation_cons_inv; exact Hpp | exact Hf2].
        - apply in_split in Hin. destruct Hin as [s1 [s2 ->]].
          apply Forall2_app_inv_r in Hf2. destruct Hf2 as [t1 [t2' [Ht1 [Ht2 ->]]]].
          inversion Ht2 as [|a' ? t2 ? Ha'q1 Ht2']; subst.
          exists (s1 ++ q2 :: s2). split.
          + apply Permutation_cons_inv with (a := q1).
            eapply Permutation_trans; [exact Hpp|].
            eapply Permutation_trans;
              [apply perm_skip; apply Permutation_sym; apply Permutation_middle|].
            eapply Permutation_trans; [apply perm_swap|].
            apply perm_skip. apply Permutation_middle.
          + apply Forall2_app; [exact Ht1|]. constructor; [|exact Ht2'].
            apply (Hex a a' q1 q2); try assumption.
            * left; reflexivity.
            * right. apply in_or_app. right. left. reflexivity. }
      destruct Hz as [z [Hz1 Hz2]].
      apply (IH (fun a0 a' q1' q2' H0 H' => Hex a0 a' q1' q2' (or_intror H0) (or_intror H'))
                y1 z Hz1 Hz2).
    - exfalso. assert (Hq : r a q2 = false).
      { apply (rm1_None _ _ E). eapply Permutation_in; [apply Permutation_sym; exact Hp|].
        left; reflexivity. }
      unfold R in Haq2. congruence.
  Qed.
End Greedy.

(* ------------------------------------------------------------------------- *)
(* 4. unordered_eq                                                            *)
(* ------------------------------------------------------------------------- *)

Fixpoint arr_all (x y : list value) : bool :=
  match x, y with
  | p :: x', q :: y' => unordered_eq p q && arr_all x' y'
  | _, _ => true
  end.

Lemma unordered_eq_arr x y :
  unordered_eq (VArr x) (VArr y) = Nat.eqb (length x) (length y) && arr_all x y.
Proof. reflexivity. Qed.

(* the boolean entry relation tested by the object loop *)
Definition entry_ueq (e e' : list N * value) : bool :=
  str_eqb (fst e') (fst e) && unordered_eq (snd e) (snd e').

Lemma unordered_eq_obj_flags x y :
  unordered_eq (VObj x) (VObj y) =
  Nat.eqb (length x) (length y) && gall entry_ueq x y (repeat false (length y)).
Proof.
  cbn [unordered_eq]. f_equal. generalize (repeat false (length y)).
  induction x as [|[k p] x IH]; intros m; [reflexivity|].
  cbn [gall].
  assert (Hany : forall y m,
    (fix any (y : list (list N * value)) (m : list bool) : option (list bool) :=
       match y, m with
       | (k', q) :: y', used :: m' =>
           if str_eqb k' k && negb used && unordered_eq p q then Some (true :: m')
           else option_map (cons used) (any y' m')
       | _, _ => None
       end) y m = gany entry_ueq (k, p) y m).
  { clear. induction y as [|[k' q] y IHy]; intros [|u m]; try reflexivity.
    cbn [gany]. rewrite IHy. unfold entry_ueq at 1. cbn [fst snd].
    replace (str_eqb k' k && negb u && unordered_eq p q)
      with (str_eqb k' k && unordered_eq p q && negb u)
      by (destruct (str_eqb k' k), u, (unordered_eq p q); reflexivity).
    reflexivity. }
  rewrite Hany. destruct (gany entry_ueq (k, p) y m) as [m'|]; [apply IH | reflexivity].
Qed.

Lemma unordered_eq_obj x y :
  unordered_eq (VObj x) (VObj y) =
  Nat.eqb (length x) (length y) && rall entry_ueq x y.
Proof. rewrite unordered_eq_obj_flags, gall_rall, unfl_repeat_false. reflexivity. Qed.

Lemma arr_all_Forall2 : forall x y,
  length x = length y ->
  (arr_all x y = true <-> Forall2 (fun p q => unordered_eq p q = true) x y).
Proof.
  induction x as [|p x IH]; intros [|q y] Hlen; try discriminate.
  - split; [constructor | reflexivity].
  - cbn [arr_all]. rewrite andb_true_iff. cbn in Hlen. injection Hlen as Hlen.
    rewrite (IH y Hlen). split.
    + intros [H1 H2]. constructor; assumption.
    + intros H. inversion H; subst. split; assumption.
Qed.

Theorem unordered_eq_sound : forall a b, unordered_eq a b = true -> PermEq a b.
Proof.
  induction a as [| b0 | s | s | l IH | l IH] using value_ind'; intros b H;
    destruct b as [| b1 | s1 | s1 | l1 | l1]; try discriminate H.
  - constructor.
  - cbn in H. apply Bool.eqb_prop in H. subst. constructor.
  - cbn in H. apply str_eqb_spec in H. subst. constructor.
  - cbn in H. apply str_eqb_spec in H. subst. constructor.
  - rewrite unordered_eq_arr in H. apply andb_true_iff in H. destruct H as [Hlen H].
    apply Nat.eqb_eq in Hlen. apply (arr_all_Forall2 _ _ Hlen) in H.
    constructor. eapply Forall2_impl_Forall; [|exact H]. exact IH.
  - rewrite unordered_eq_obj in H. apply andb_true_iff in H. destruct H as [Hlen H].
    apply Nat.eqb_eq in Hlen.
    destruct (rall_sound_len entry_ueq _ _ Hlen H) as [y' [Hp Hf]].
    apply permeq_obj_intro with (y' := y'); [exact Hp|].
    eapply Forall2_impl_Forall; [|exact Hf].
    eapply Forall_impl; [|exact IH]. intros e He e' Hr.
    unfold R, entry_ueq in Hr. apply andb_true_iff in Hr. destruct Hr as [Hk Hv].
    apply str_eqb_spec in Hk. split; [symmetry; exact Hk | apply He; exact Hv].
Qed.

Theorem unordered_eq_complete : forall a b, PermEq a b -> unordered_eq a b = true.
Proof.
  induction a as [| b0 | s | s | l IH | l IH] using value_ind'; intros b H.
  - inversion H; subst. reflexivity.
  - inversion H; subst. cbn. apply Bool.eqb_reflx.
  - inversion H; subst. cbn. apply str_eqb_refl.
  - inversion H; subst. cbn. apply str_eqb_refl.
  - apply permeq_arr_inv in H. destruct H as [y [-> Hf]].
    rewrite unordered_eq_arr. apply andb_true_iff.
    assert (Hlen : length l = length y) by (eapply Forall2_same_length; exact Hf).
    split; [apply Nat.eqb_eq; exact Hlen|].
    apply (arr_all_Forall2 _ _ Hlen).
    eapply Forall2_impl_Forall; [|exact Hf]. exact IH.
  - apply permeq_obj_inv in H. destruct H as [y [y' [-> [Hp Hf]]]].
    rewrite unordered_eq_obj. apply andb_true_iff.
    assert (Hlen : length l = length y).
    { apply Forall2_same_length in Hf. apply Permutation_length in Hp. congruence. }
    split; [apply Nat.eqb_eq; exact Hlen|].
    rewrite Forall_forall in IH.
    apply rall_complete with (y' := y'); [|exact Hp|].
    + intros a a' q1 q2 Ha Ha' H1 H2 H3. unfold R, entry_ueq in *.
      apply andb_true_iff in H1, H2, H3. destruct H1 as [K1 V1], H2 as [K2 V2], H3 as [K3 V3].
      apply str_eqb_spec in K1, K2, K3.
      apply andb_true_iff. split; [apply str_eqb_spec; congruence|].
      apply (IH a' Ha').
      apply permeq_trans with (b := snd q1); [apply unordered_eq_sound; exact V3|].
      apply permeq_trans with (b := snd a);
        [apply permeq_sym; apply unordered_eq_sound; exact V1|].
      apply unordered_eq_sound; exact V2.
    + eapply Forall2_impl_Forall; [|exact Hf].
      apply Forall_forall. intros e He e' [Hk Hv]. unfold R, entry_ueq.
      apply andb_true_iff. split; [apply str_eqb_spec; symmetry; exact Hk|].
      apply (IH e He). exact Hv.
Qed.

Theorem C15_unordered_eq_iff : forall a b, unordered_eq a b = true <-> PermEq a b.
Proof. intros a b. split; [apply unordered_eq_sound | apply unordered_eq_complete]. Qed.

Corollary unordered_eq_refl : forall a, unordered_eq a a = true.
Proof. intros a. apply C15_unordered_eq_iff. apply permeq_refl. Qed.

Corollary unordered_eq_sym : forall a b, unordered_eq a b = unordered_eq b a.
Proof.
  intros a b. destruct (unordered_eq a b) eqn:E1, (unordered_eq b a) eqn:E2; try reflexivity.
  - apply C15_unordered_eq_iff, permeq_sym, C15_unordered_eq_iff in E1. congruence.
  - apply C15_unordered_eq_iff, permeq_sym, C15_unordered_eq_iff in E2. congruence.
Qed.

Corollary unordered_eq_trans : forall a b c,
  unordered_eq a b = true -> unordered_eq b c = true -> unordered_eq a c = true.
Proof.
  intros a b c H1 H2. apply C15_unordered_eq_iff.
  apply permeq_trans with (b := b); apply C15_unordered_eq_iff; assumption.
Qed.

(* The Unordered<T> wrapper's PartialEq is the same function. *)
Corollary unordered_wrapper_eq_iff : forall a b, unordered_wrapper_eq a b = true <-> PermEq a b.
Proof. exact C15_unordered_eq_iff. Qed.

(* Multiplicities of duplicate keys count. *)
Example multiplicities_count :
  let k := [0x6B] in let one := VNum [0x31] in let two := VNum [0x32] in
  unordered_eq (VObj [(k,one);(k,one);(k,two)]) (VObj [(k,one);(k,two);(k,two)]) = false.
Proof. vm_compute. reflexivity. Qed.

(* Nested objects in different orders, duplicate keys, arrays stay ordered. *)
Example nested_reorder :
  let k := [0x6B] in let j := [0x6A] in let one := VNum [0x31] in let two := VNum [0x32] in
  let o1 := VObj [(k,one);(j,two)] in let o2 := VObj [(j,two);(k,one)] in
  unordered_eq (VObj [(k,o1);(k,o2);(j,VArr [o1;o2])]) (VObj [(j,VArr [o2;o1]);(k,o2);(k,o2)]) = true /\
  unordered_eq (VArr [one;two]) (VArr [two;one]) = false /\
  unordered_eq (VObj [(k,one)]) (VObj [(k,one);(k,one)]) = false.
Proof. vm_compute. repeat split. Qed.

Print Assumptions permeq_refl.
Print Assumptions permeq_sym.
Print Assumptions permeq_trans.
Print Assumptions eq_implies_permeq.
Print Assumptions C15_unordered_eq_iff.
Print Assumptions unordered_eq_refl.
Print Assumptions unordered_eq_sym.
Print Assumptions unordered_eq_trans.
Print Assumptions multiplicities_count.
