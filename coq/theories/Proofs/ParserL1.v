(* Proofs/ParserL1.v -- layer L1: the explicit-stack machine of Model/Parser.v computes the
   same outcome as the recursive-descent reference of Proofs/ParserRecDef.v, and neither
   runs out of fuel.  Part 1: the leaf functions never lengthen the remaining input and
   never return OutOfFuel.  Part 2: fuel of the reference.  Part 3: simulation with a step
   count.  Part 4: the three theorems. *)
From Coq Require Import Arith.
From JsonSyntax Require Import Base.Prelude Base.Value Base.Unicode Model.Parser Proofs.ParserRecDef.

Local Open Scope nat_scope.

(* ------------------------------------------------------------------------- *)
(* Part 1: leaf functions                                                    *)
(* ------------------------------------------------------------------------- *)

Definition len (st : pstate) : nat := length (rest st).

(* [shr L r]: r is not OutOfFuel and, when Ok, leaves strictly fewer than L items *)
Definition shr {A} (L : nat) (r : res A) : Prop :=
  match r with
  | Ok (_, st') => len st' < L
  | OutOfFuel => False
  | _ => True
  end.

Lemma shr_bind {A B} L1 L2 (r : res A) (f : A * pstate -> res B) :
  shr L1 r ->
  (forall a st', r = Ok (a, st') -> len st' < L1 -> shr L2 (f (a, st'))) ->
  shr L2 (obind r f).
Proof.
  intros H1 H2. destruct r as [[a st']| | |]; cbn [obind shr] in *; auto.
Qed.

Lemma shr_mono {A} L L' (r : res A) : L <= L' -> shr L r -> shr L' r.
Proof. intros HL H. destruct r as [[a st']| | |]; cbn [shr] in *; auto. lia. Qed.

Lemma next_char_shr st : shr (S (len st)) (next_char st).
Proof.
  unfold next_char, len. destruct (rest st) as [|[c l|] r] eqn:E; cbn [shr rest len length]; try exact I.
  - unfold len. rewrite E. cbn [length]. lia.
  - unfold len. cbn [rest]. lia.
Qed.

Lemma next_char_some st p c st1 : next_char st = Ok ((p, Some c), st1) -> S (len st1) = len st.
Proof.
  unfold next_char, len. destruct (rest st) as [|[c' l|] r] eqn:E; intros H; inversion H; subst.
  cbn [rest length]. reflexivity.
Qed.

Lemma skip_ws_list_len l : forall p,
  match skip_ws_list l p with
  | Ok (l', _) => length l' <= length l
  | OutOfFuel => False
  | _ => True
  end.
Proof.
  induction l as [|[c n|] r IH]; intros p; cbn [skip_ws_list length]; auto.
  destruct (is_ws c).
  - specialize (IH (p + n)%N). destruct (skip_ws_list r (p + n)%N) as [[l' p']| | |]; auto.
  - cbn [length]. lia.
Qed.

Lemma skip_whitespaces_shr st : shr (S (len st)) (skip_whitespaces st).
Proof.
  unfold skip_whitespaces. pose proof (skip_ws_list_len (rest st) (pos st)) as H.
  destruct (skip_ws_list (rest st) (pos st)) as [[l' p']| | |]; cbn [shr]; try exact I; try contradiction.
  unfold len. cbn [rest]. lia.
Qed.

Lemma end_fragment_shr i st : shr (S (len st)) (end_fragment i st).
Proof.
  unfold end_fragment. destruct (nth_error (cm st) (N.to_nat i)) as [[[s e] v]|]; [|exact I].
  destruct (N.of_nat (length (cm st)) <? i)%N; cbn [shr]; [exact I|]. unfold len; cbn [rest]. lia.
Qed.

Lemma end_fragment_rest i st u st' : end_fragment i st = Ok (u, st') -> rest st' = rest st.
Proof.
  unfold end_fragment. destruct (nth_error (cm st) (N.to_nat i)) as [[[s e] v]|]; [|discriminate].
  destruct (N.of_nat (length (cm st)) <? i)%N; [discriminate|]. intros H; inversion H; reflexivity.
Qed.

Lemma len_begin_fragment st : len (snd (begin_fragment st)) = len st.
Proof. reflexivity. Qed.

(* split on every character literal that the goal matches on *)
Ltac lit_split :=
  repeat match goal with
  | |- context [match ?x with _ => _ end] =>
      is_var x;
      match type of x with
      | option N => destruct x
      | N => destruct x
      | positive => destruct x
      end
  end.

(* "do x <- e; k" where e has a known bound *)
Ltac shr_step lem :=
  eapply shr_bind; [apply lem|]; cbv beta.

Lemma expect_chars_shr cs : forall st, shr (S (len st)) (expect_chars cs st).
Proof.
  induction cs as [|c r IH]; intros st; cbn [expect_chars].
  - cbn [shr]. lia.
  - shr_step next_char_shr. intros [p oc] st1 _ Hlt. cbv beta iota.
    destruct oc as [x|]; [|exact I]. destruct (x =? c)%N; [|exact I].
    eapply shr_mono; [|apply IH]. lia.
Qed.

Lemma expect_chars_shr1 c cs st : shr (len st) (expect_chars (c :: cs) st).
Proof.
  cbn [expect_chars].
  eapply shr_bind; [apply next_char_shr|]. intros [p oc] st1 Hnc Hlt. cbv beta iota.
  destruct oc as [x|]; [|exact I]. destruct (x =? c)%N; [|exact I].
  apply next_char_some in Hnc.
  eapply shr_mono; [|apply expect_chars_shr]. lia.
Qed.

Ltac ret_tac := cbn [shr] in *; unfold len in *; cbn [rest length] in *; lia.

Lemma parse_null_shr st : shr (len st) (parse_null st).
Proof.
  unfold parse_null, begin_fragment. cbv beta iota zeta.
  eapply shr_bind; [apply expect_chars_shr1|]. intros [] st1 _ Hlt. cbv beta iota.
  eapply shr_bind; [apply end_fragment_shr|]. intros [] st2 _ Hlt2. cbv beta iota.
  ret_tac.
Qed.

Lemma parse_bool_shr st : shr (len st) (parse_bool st).
Proof.
  unfold parse_bool, begin_fragment. cbv beta iota zeta.
  eapply shr_bind; [apply next_char_shr|]. intros [p oc] st1 Hnc Hlt. cbv beta iota.
  destruct oc as [c|]; [|exact I]. apply next_char_some in Hnc.
  lit_split; try exact I.
  - eapply shr_bind; [apply expect_chars_shr|]. intros [] st2 _ Hlt2. cbv beta iota.
    eapply shr_bind; [apply end_fragment_shr|]. intros [] st3 _ Hlt3. cbv beta iota. ret_tac.
  - eapply shr_bind; [apply expect_chars_shr|]. intros [] st2 _ Hlt2. cbv beta iota.
    eapply shr_bind; [apply end_fragment_shr|]. intros [] st3 _ Hlt3. cbv beta iota. ret_tac.
Qed.

Lemma num_loop_len ctx : forall l s buf p,
  match num_loop ctx s buf l p with
  | Ok (_, s', l', _) => length l' <= length l /\ (s' <> s -> length l' < length l)
  | OutOfFuel => False
  | _ => True
  end.
Proof.
  induction l as [|[c n|] r IH]; intros s buf p; cbn [num_loop length].
  - split; [lia|congruence].
  - destruct (num_trans ctx s c) as [s1| |].
    + specialize (IH s1 (buf ++ [c]) (p + n)%N).
      destruct (num_loop ctx s1 (buf ++ [c]) r (p + n)%N) as [[[[b s'] l'] p']| | |]; auto.
      destruct IH as [IH _]. split; [lia|intros _; lia].
    + cbn [length]. split; [lia|congruence].
    + exact I.
  - exact I.
Qed.

Lemma parse_number_shr ctx st : shr (len st) (parse_number ctx st).
Proof.
  unfold parse_number, begin_fragment. cbv beta iota zeta. cbn [rest pos cm].
  pose proof (num_loop_len ctx (rest st) NInit [] (pos st)) as H.
  destruct (num_loop ctx NInit [] (rest st) (pos st)) as [[[[b s'] l'] p']| | |]; try exact I; try contradiction.
  destruct H as [_ H].
  destruct (num_final s') eqn:Ef; [|exact I].
  assert (Hs : s' <> NInit) by (intros ->; discriminate). specialize (H Hs).
  eapply shr_bind; [apply end_fragment_shr|]. intros [] st2 _ Hlt2. cbv beta iota. ret_tac.
Qed.

Lemma hex_digit_shr st : shr (S (len st)) (hex_digit st).
Proof.
  unfold hex_digit.
  eapply shr_bind; [apply next_char_shr|]. intros [p oc] st1 _ Hlt. cbv beta iota.
  destruct oc as [c|]; [|exact I]. destruct (hexval c); [|exact I]. ret_tac.
Qed.

Lemma parse_hex4_shr st : shr (S (len st)) (parse_hex4 st).
Proof.
  unfold parse_hex4.
  eapply shr_bind; [apply hex_digit_shr|]. intros h3 st1 _ Hlt1. cbv beta iota.
  eapply shr_bind; [apply hex_digit_shr|]. intros h2 st2 _ Hlt2. cbv beta iota.
  eapply shr_bind; [apply hex_digit_shr|]. intros h1 st3 _ Hlt3. cbv beta iota.
  eapply shr_bind; [apply hex_digit_shr|]. intros h0 st4 _ Hlt4. cbv beta iota.
  ret_tac.
Qed.

Lemma char_or_replace_cases o cp s e :
  (exists c, char_or_replace o cp s e = Ok c) \/ (exists x, char_or_replace o cp s e = Err x).
Proof.
  unfold char_or_replace. destruct (from_u32 cp); [left; eauto|]. destruct (inval o); [left|right]; eauto.
Qed.

Ltac sl_leaf IH' :=
  repeat first
    [ exact I
    | apply IH'; lia
    | match goal with
      | |- shr _ (if ?b then _ else _) => destruct b
      | |- shr _ (match ?h with Some _ => _ | None => _ end) => destruct h as [[? ?]|]
      | |- shr _ (obind (end_fragment _ _) _) =>
          eapply shr_bind; [apply end_fragment_shr|]; intros [] ? _ ?; cbv beta iota
      | |- shr _ (Ok _) => ret_tac
      | |- shr _ (match (let '(_, _) := span_new _ _ in _) with _ => _ end) =>
          unfold span_new; cbv beta iota zeta
      | |- shr _ (match char_or_replace ?o ?cp ?s ?e with _ => _ end) =>
          let E := fresh "E" in
          destruct (char_or_replace_cases o cp s e) as [[? E]|[? E]]; rewrite E; clear E
      end ].

Lemma string_loop_shr : forall fuel o i acc high st,
  len st < fuel -> shr (S (len st)) (string_loop fuel o i acc high st).
Proof.
  induction fuel as [|f IH]; intros o i acc high st Hf; [lia|].
  cbn [string_loop].
  eapply shr_bind; [apply next_char_shr|]. intros [p oc] st1 Hnc Hlt. cbv beta iota.
  destruct oc as [c|]; [|exact I]. apply next_char_some in Hnc.
  assert (IH' : forall acc high st', len st' < len st -> shr (S (len st)) (string_loop f o i acc high st')).
  { intros acc' high' st' Hst'. eapply shr_mono; [|apply IH]; lia. }
  clear IH.
  lit_split.
  all: try solve [sl_leaf IH'].
  eapply shr_bind; [apply next_char_shr|]. intros [p2 oc2] st2 _ Hlt2. cbv beta iota.
  lit_split.
  all: try solve [sl_leaf IH'].
  eapply shr_bind; [apply parse_hex4_shr|]. intros cp st3 _ Hlt3. cbv beta iota.
  sl_leaf IH'.
Qed.

Lemma parse_string_shr o st : shr (len st) (parse_string o st).
Proof.
  unfold parse_string, begin_fragment. cbv beta iota zeta.
  eapply shr_bind; [apply next_char_shr|]. intros [p oc] st1 Hnc Hlt. cbv beta iota.
  destruct oc as [c|]; [|exact I]. apply next_char_some in Hnc.
  lit_split; try exact I.
  eapply shr_mono; [|apply string_loop_shr]; [|unfold len; lia].
  unfold len in *; cbn [rest] in *; lia.
Qed.

Lemma peek_char_cases st :
  peek_char st = Ok None \/ (exists c, peek_char st = Ok (Some c) /\ 1 <= len st) \/
  (exists e, peek_char st = Err e).
Proof.
  unfold peek_char, len. destruct (rest st) as [|[c l|] r]; cbn [length]; eauto.
  right; left. exists c. split; [reflexivity|lia].
Qed.

Ltac peek_split st :=
  let E := fresh "Epk" in
  destruct (peek_char_cases st) as [E|[[? [E ?]]|[? E]]]; rewrite E; clear E; cbn [obind].

Lemma array_start_shr st : shr (len st) (array_start st).
Proof.
  unfold array_start, begin_fragment. cbv beta iota zeta.
  eapply shr_bind; [apply next_char_shr|]. intros [p oc] st1 Hnc Hlt. cbv beta iota.
  destruct oc as [c|]; [|exact I]. apply next_char_some in Hnc.
  lit_split; try exact I.
  eapply shr_bind; [apply skip_whitespaces_shr|]. intros [] st2 _ Hlt2. cbv beta iota.
  peek_split st2; try exact I; [ret_tac| ].
  lit_split; try ret_tac.
  eapply shr_bind; [apply next_char_shr|]. intros [p3 oc3] st3 _ Hlt3. cbv beta iota.
  eapply shr_bind; [apply end_fragment_shr|]. intros [] st4 _ Hlt4. cbv beta iota.
  ret_tac.
Qed.

Lemma array_continue_shr i st : shr (len st) (array_continue i st).
Proof.
  unfold array_continue.
  eapply shr_bind; [apply skip_whitespaces_shr|]. intros [] st1 _ Hlt1. cbv beta iota.
  eapply shr_bind; [apply next_char_shr|]. intros [p oc] st2 Hnc Hlt2. cbv beta iota.
  destruct oc as [c|]; [|exact I]. apply next_char_some in Hnc.
  lit_split; try exact I; try ret_tac.
  eapply shr_bind; [apply end_fragment_shr|]. intros [] st3 _ Hlt3. cbv beta iota.
  ret_tac.
Qed.

Lemma object_key_shr o st : shr (len st) (object_key o st).
Proof.
  unfold object_key, begin_fragment. cbv beta iota zeta.
  eapply shr_bind; [apply parse_string_shr|]. intros [k j] st1 _ Hlt1. cbv beta iota.
  eapply shr_bind; [apply skip_whitespaces_shr|]. intros [] st2 _ Hlt2. cbv beta iota.
  eapply shr_bind; [apply next_char_shr|]. intros [p oc] st3 _ Hlt3. cbv beta iota.
  lit_split; try exact I. ret_tac.
Qed.

Lemma object_start_shr o st : shr (len st) (object_start o st).
Proof.
  unfold object_start, begin_fragment. cbv beta iota zeta.
  eapply shr_bind; [apply next_char_shr|]. intros [p oc] st1 Hnc Hlt. cbv beta iota.
  destruct oc as [c|]; [|exact I]. apply next_char_some in Hnc.
  lit_split; try exact I.
  eapply shr_bind; [apply skip_whitespaces_shr|]. intros [] st2 _ Hlt2. cbv beta iota.
  assert (Hk : forall j : N, shr (len st) (do ((k, e), st3) <- object_key o st2; Ok ((ONonEmpty k e, j), st3))).
  { intros j. eapply shr_bind; [apply object_key_shr|]. intros [k e] st3 _ Hlt3. cbv beta iota. ret_tac. }
  peek_split st2; try exact I; [apply Hk|].
  lit_split; try apply Hk.
  eapply shr_bind; [apply next_char_shr|]. intros [p3 oc3] st3 _ Hlt3. cbv beta iota.
  eapply shr_bind; [apply end_fragment_shr|]. intros [] st4 _ Hlt4. cbv beta iota.
  ret_tac.
Qed.

Lemma object_continue_shr o i st : shr (len st) (object_continue o i st).
Proof.
  unfold object_continue.
  eapply shr_bind; [apply skip_whitespaces_shr|]. intros [] st1 _ Hlt1. cbv beta iota.
  eapply shr_bind; [apply next_char_shr|]. intros [p oc] st2 Hnc Hlt2. cbv beta iota.
  destruct oc as [c|]; [|exact I]. apply next_char_some in Hnc.
  lit_split; try exact I.
  - eapply shr_bind; [apply end_fragment_shr|]. intros [] st3 _ Hlt3. cbv beta iota. ret_tac.
  - eapply shr_bind; [apply skip_whitespaces_shr|]. intros [] st3 _ Hlt3. cbv beta iota.
    eapply shr_bind; [apply object_key_shr|]. intros [k e] st4 _ Hlt4. cbv beta iota. ret_tac.
Qed.

Lemma parse_fragment_shr o ctx st : shr (len st) (parse_fragment o ctx st).
Proof.
  unfold parse_fragment.
  eapply shr_bind; [apply skip_whitespaces_shr|]. intros [] st1 _ Hlt1. cbv beta iota.
  peek_split st1; try exact I.
  lit_split.
  all: try exact I.
  all: try (destruct (_ || _); [|exact I]).
  all: try (eapply shr_bind; [apply parse_number_shr|]; intros [n j] st2 _ Hlt2; cbv beta iota; ret_tac).
  all: try (eapply shr_bind; [apply parse_null_shr|]; intros j st2 _ Hlt2; cbv beta iota; ret_tac).
  all: try (eapply shr_bind; [apply parse_bool_shr|]; intros [b j] st2 _ Hlt2; cbv beta iota; ret_tac).
  all: try (eapply shr_bind; [apply parse_string_shr|]; intros [s j] st2 _ Hlt2; cbv beta iota; ret_tac).
  - eapply shr_bind; [apply object_start_shr|]. intros [[|k e] j] st2 _ Hlt2; cbv beta iota; ret_tac.
  - eapply shr_bind; [apply array_start_shr|]. intros [[|] j] st2 _ Hlt2; cbv beta iota; ret_tac.
Qed.

(* the facts used below *)
Lemma shr_ok {A} L (r : res A) a st' : shr L r -> r = Ok (a, st') -> len st' < L.
Proof. intros H ->. exact H. Qed.

Lemma shr_fuel {A} L (r : res A) : shr L r -> r <> OutOfFuel.
Proof. intros H ->. exact H. Qed.

(* ------------------------------------------------------------------------- *)
(* Part 2: the reference never runs out of fuel                              *)
(* ------------------------------------------------------------------------- *)

Lemma rec_fuel_gen : forall f,
  (forall o ctx st, 2 * len st + 1 <= f -> shr (len st) (pvalue f o ctx st)) /\
  (forall o a i st, 2 * len st + 2 <= f -> shr (len st) (parr_items f o a i st)) /\
  (forall o a i st, 2 * len st + 1 <= f -> shr (len st) (parr_cont f o a i st)) /\
  (forall o es i k e st, 2 * len st + 2 <= f -> shr (len st) (pobj_entry f o es i k e st)) /\
  (forall o es i st, 2 * len st + 1 <= f -> shr (len st) (pobj_cont f o es i st)).
Proof.
  induction f as [|f (IHV & IHA & IHAC & IHO & IHOC)].
  { repeat split; intros; lia. }
  repeat split.
  - intros o ctx st Hf. cbn [pvalue].
    eapply shr_bind; [apply parse_fragment_shr|]. intros [fr j] st1 _ Hlt. cbv beta iota.
    destruct fr as [v| |k e].
    + ret_tac.
    + eapply shr_mono; [|apply IHA]; lia.
    + eapply shr_mono; [|apply IHO]; lia.
  - intros o a i st Hf. cbn [parr_items].
    eapply shr_bind; [apply IHV; lia|]. intros [v j] st1 _ Hlt. cbv beta iota.
    eapply shr_mono; [|apply IHAC]; lia.
  - intros o a i st Hf. cbn [parr_cont].
    eapply shr_bind; [apply array_continue_shr|]. intros item st1 _ Hlt. cbv beta iota.
    destruct item.
    + eapply shr_mono; [|apply IHA]; lia.
    + ret_tac.
  - intros o es i k e st Hf. cbn [pobj_entry].
    eapply shr_bind; [apply IHV; lia|]. intros [v j] st1 _ Hlt. cbv beta iota.
    eapply shr_bind; [apply end_fragment_shr|]. intros [] st2 _ Hlt2. cbv beta iota.
    eapply shr_mono; [|apply IHOC]; lia.
  - intros o es i st Hf. cbn [pobj_cont].
    eapply shr_bind; [apply object_continue_shr|]. intros next st1 _ Hlt. cbv beta iota.
    destruct next as [[k e]|].
    + eapply shr_mono; [|apply IHO]; lia.
    + ret_tac.
Qed.

Lemma pvalue_rec_fuel o ctx s p c :
  pvalue (rec_fuel s) o ctx {| rest := s; pos := p; cm := c |} <> OutOfFuel.
Proof.
  eapply shr_fuel. apply (proj1 (rec_fuel_gen _)). unfold rec_fuel, len. cbn [rest]. lia.
Qed.

Lemma ptop_fuel f o st : pvalue f o CNone st <> OutOfFuel -> ptop f o st <> OutOfFuel.
Proof.
  intros Hv. unfold ptop. destruct (pvalue f o CNone st) as [[[v i] st1]|e|x|]; cbn [obind]; try congruence.
  pose proof (skip_whitespaces_shr st1) as Hs.
  destruct (skip_whitespaces st1) as [[[] st2]|e|x|]; cbn [obind shr] in *; try congruence; try contradiction.
  pose proof (next_char_shr st2) as Hn.
  destruct (next_char st2) as [[[p oc] st3]|e|x|]; cbn [obind shr] in *; try congruence; try contradiction.
  destruct oc; congruence.
Qed.

Theorem rec_fuel_suffices : forall o s, parse_items_rec o s <> OutOfFuel.
Proof.
  intros o s. unfold parse_items_rec.
  pose proof (ptop_fuel (rec_fuel s) o {| rest := s; pos := 0%N; cm := [] |} (pvalue_rec_fuel _ _ _ _ _)) as H.
  destruct (ptop (rec_fuel s) o {| rest := s; pos := 0%N; cm := [] |}) as [[[v i] st]|e|x|]; congruence.
Qed.

(* ------------------------------------------------------------------------- *)
(* Part 3: the machine simulates the reference, with a step count            *)
(* ------------------------------------------------------------------------- *)

Definition mk (K : list frame) (pv : option (value * N)) (st : pstate) : config :=
  {| stack := K; pending_value := pv; pst := st |}.

Definition run_after (m : nat) (o : opts) (root : context) (r : outcome perr step_result)
  : outcome perr (value * N * pstate) :=
  match r with
  | Ok (Continue c') => run m o root c'
  | Ok (Finished v i st) => Ok (v, i, st)
  | Err e => Err e
  | Panic s => Panic s
  | OutOfFuel => OutOfFuel
  end.

Lemma run_S m o root c : run (S m) o root c = run_after m o root (step o root c).
Proof. reflexivity. Qed.

(* the stacks on which the next iteration expects a value *)
Definition val_stack (K : list frame) : Prop :=
  match K with
  | [] | FArrItem _ _ :: _ | FObjEntry _ _ _ _ :: _ => True
  | _ => False
  end.

(* what such an iteration does with a complete value v *)
Definition absorb (K0 : list frame) (v : value) (j : N) (st1 : pstate) : outcome perr step_result :=
  match K0 with
  | [] =>
      do (_, st2) <- skip_whitespaces st1;
      do ((p, oc), st3) <- next_char st2;
      match oc with
      | Some ch => Err (EUnexpected p (Some ch))
      | None => Ok (Finished v j st3)
      end
  | FArrItem a i :: K => Ok (Continue (mk (FArr (a ++ [v]) i :: K) None st1))
  | FObjEntry es i k e :: K =>
      do (_, st2) <- end_fragment e st1;
      Ok (Continue (mk (FObj (es ++ [(k, v)]) i :: K) None st2))
  | _ => Panic 0
  end.

Lemma step_val o root K0 pv st : val_stack K0 ->
  step o root (mk K0 pv st) =
  do ((f, j), st1) <- value_or_parse o pv (stack_context K0 root) st;
  match f with
  | FrValue v => absorb K0 v j st1
  | FrBeginArray => Ok (Continue (mk (FArrItem [] j :: K0) None st1))
  | FrBeginObject k e => Ok (Continue (mk (FObjEntry [] j k e :: K0) None st1))
  end.
Proof. destruct K0 as [|[] K]; intros H; try contradiction; reflexivity. Qed.

Lemma step_deliver o root K0 v j st : val_stack K0 ->
  step o root (mk K0 (Some (v, j)) st) = absorb K0 v j st.
Proof. intros H. rewrite step_val by exact H. reflexivity. Qed.

(* step bound: N iterations, d spare *)
Definition bnd {A} (d N : nat) (st : pstate) (r : res A) : Prop :=
  match r with
  | Ok (_, st') => N + d + 2 * len st' <= 2 * len st
  | _ => N <= 2 * len st + 1
  end.

Definition SimV o root (K0 : list frame) (st : pstate) (r : res (value * N)) : Prop :=
  r <> OutOfFuel ->
  exists n, bnd 0 (S n) st r /\
    forall m, run (S n + m) o root (mk K0 None st) =
              obind r (fun '((v, j), st') => run_after m o root (absorb K0 v j st')).

Definition SimK o root (c0 : config) (K : list frame) (st : pstate) (r : res (value * N)) : Prop :=
  r <> OutOfFuel ->
  exists n, bnd 1 (S n) st r /\
    forall m, run (S n + m) o root c0 =
              obind r (fun '(vj, st') => run m o root (mk K (Some vj) st')).

Ltac bnd_tac r := destruct r as [[? ?]| | |]; cbn [bnd] in *; lia.

(* a value that opens a container: push, run the frame, deliver *)
Lemma sim_open o root K0 st c1 st1 r :
  val_stack K0 ->
  step o root (mk K0 None st) = Ok (Continue c1) ->
  len st1 < len st ->
  SimK o root c1 K0 st1 r -> SimV o root K0 st r.
Proof.
  intros HK0 Hstep Hlt HK Hne. destruct (HK Hne) as [n1 [Hb Hrun]].
  exists (S (S n1)). split; [bnd_tac r|]. intros m.
  replace (S (S (S n1)) + m) with (S (S n1 + S m)) by lia.
  rewrite run_S, Hstep. cbn [run_after]. rewrite Hrun.
  destruct r as [[[v j] st']| | |]; cbn [obind]; try reflexivity.
  rewrite run_S, step_deliver by exact HK0. reflexivity.
Qed.

Lemma sim_pvalue f o root K0 st :
  val_stack K0 ->
  (forall j st1, SimK o root (mk (FArrItem [] j :: K0) None st1) K0 st1 (parr_items f o [] j st1)) ->
  (forall j k e st1, SimK o root (mk (FObjEntry [] j k e :: K0) None st1) K0 st1
                          (pobj_entry f o [] j k e st1)) ->
  SimV o root K0 st (pvalue (S f) o (stack_context K0 root) st).
Proof.
  intros HK0 HA HO. cbn [pvalue].
  pose proof (parse_fragment_shr o (stack_context K0 root) st) as Hsh.
  assert (Hstep : step o root (mk K0 None st) =
    do ((f, j), st1) <- parse_fragment o (stack_context K0 root) st;
    match f with
    | FrValue v => absorb K0 v j st1
    | FrBeginArray => Ok (Continue (mk (FArrItem [] j :: K0) None st1))
    | FrBeginObject k e => Ok (Continue (mk (FObjEntry [] j k e :: K0) None st1))
    end) by (apply step_val; exact HK0).
  destruct (parse_fragment o (stack_context K0 root) st) as [[[fr j] st1]|e|x|]; cbn [obind shr] in *.
  - destruct fr as [v| |k e].
    + intros _. exists 0. split; [cbn [bnd]; lia|]. intros m.
      cbn [Nat.add]. rewrite run_S, Hstep. reflexivity.
    + eapply sim_open; eauto.
    + eapply sim_open; eauto.
  - intros _. exists 0. split; [cbn [bnd]; lia|]. intros m.
    cbn [Nat.add]. rewrite run_S, Hstep. reflexivity.
  - intros _. exists 0. split; [cbn [bnd]; lia|]. intros m.
    cbn [Nat.add]. rewrite run_S, Hstep. reflexivity.
  - intros Hne. exfalso. apply Hne. reflexivity.
Qed.

Lemma sim_parr_items f o root a i K st :
  SimV o root (FArrItem a i :: K) st (pvalue f o CArray st) ->
  (forall a' st1, SimK o root (mk (FArr a' i :: K) None st1) K st1 (parr_cont f o a' i st1)) ->
  SimK o root (mk (FArrItem a i :: K) None st) K st (parr_items (S f) o a i st).
Proof.
  intros HV HC. unfold SimK. cbn [parr_items]. intros Hne.
  assert (Hv : pvalue f o CArray st <> OutOfFuel).
  { intros E. rewrite E in Hne. apply Hne. reflexivity. }
  destruct (HV Hv) as [n1 [Hb1 Hr1]]. clear HV Hv.
  destruct (pvalue f o CArray st) as [[[v j] st1]|e|x|]; cbn [obind] in *.
  - destruct (HC (a ++ [v]) st1 Hne) as [n2 [Hb2 Hr2]]. exists (n1 + S n2).
    split; [bnd_tac (parr_cont f o (a ++ [v]) i st1)|]. intros m.
    replace (S (n1 + S n2) + m) with (S n1 + (S n2 + m)) by lia.
    rewrite Hr1. cbn [absorb run_after]. apply Hr2.
  - exists n1. split; [cbn [bnd] in *; lia|]. exact Hr1.
  - exists n1. split; [cbn [bnd] in *; lia|]. exact Hr1.
  - exfalso. apply Hne. reflexivity.
Qed.

Lemma sim_parr_cont f o root a i K st :
  (forall st1, SimK o root (mk (FArrItem a i :: K) None st1) K st1 (parr_items f o a i st1)) ->
  SimK o root (mk (FArr a i :: K) None st) K st (parr_cont (S f) o a i st).
Proof.
  intros HA. unfold SimK. cbn [parr_cont].
  pose proof (array_continue_shr i st) as Hsh.
  assert (Hstep : step o root (mk (FArr a i :: K) None st) =
    do (item, st1) <- array_continue i st;
    if item then Ok (Continue (mk (FArrItem a i :: K) None st1))
    else Ok (Continue (mk K (Some (VArr a, i)) st1))) by reflexivity.
  destruct (array_continue i st) as [[item st1]|e|x|]; cbn [obind shr] in *.
  - destruct item.
    + intros Hne. destruct (HA st1 Hne) as [n1 [Hb Hr]]. exists (S n1).
      split; [bnd_tac (parr_items f o a i st1)|]. intros m.
      cbn [Nat.add]. rewrite run_S, Hstep. cbn [run_after]. apply Hr.
    + intros _. exists 0. split; [cbn [bnd]; lia|]. intros m.
      cbn [Nat.add]. rewrite run_S, Hstep. reflexivity.
  - intros _. exists 0. split; [cbn [bnd]; lia|]. intros m.
    cbn [Nat.add]. rewrite run_S, Hstep. reflexivity.
  - intros _. exists 0. split; [cbn [bnd]; lia|]. intros m.
    cbn [Nat.add]. rewrite run_S, Hstep. reflexivity.
  - intros Hne. exfalso. apply Hne. reflexivity.
Qed.

Lemma sim_pobj_entry f o root es i k e K st :
  SimV o root (FObjEntry es i k e :: K) st (pvalue f o CObjectValue st) ->
  (forall es' st1, SimK o root (mk (FObj es' i :: K) None st1) K st1 (pobj_cont f o es' i st1)) ->
  SimK o root (mk (FObjEntry es i k e :: K) None st) K st (pobj_entry (S f) o es i k e st).
Proof.
  intros HV HC. unfold SimK. cbn [pobj_entry]. intros Hne.
  assert (Hv : pvalue f o CObjectValue st <> OutOfFuel).
  { intros E. rewrite E in Hne. apply Hne. reflexivity. }
  destruct (HV Hv) as [n1 [Hb1 Hr1]]. clear HV Hv.
  destruct (pvalue f o CObjectValue st) as [[[v j] st1]|e1|x|]; cbn [obind] in *.
  - cbn [absorb] in Hr1.
    pose proof (end_fragment_rest e st1) as Hrest.
    destruct (end_fragment e st1) as [[[] st2]|e2|x|]; cbn [obind run_after] in *.
    + specialize (Hrest tt st2 eq_refl).
      assert (Hlen : len st2 = len st1) by (unfold len; rewrite Hrest; reflexivity).
      destruct (HC (es ++ [(k, v)]) st2 Hne) as [n2 [Hb2 Hr2]]. exists (n1 + S n2).
      split; [bnd_tac (pobj_cont f o (es ++ [(k, v)]) i st2)|]. intros m.
      replace (S (n1 + S n2) + m) with (S n1 + (S n2 + m)) by lia.
      rewrite Hr1. apply Hr2.
    + exists n1. split; [cbn [bnd] in *; lia|]. exact Hr1.
    + exists n1. split; [cbn [bnd] in *; lia|]. exact Hr1.
    + exfalso. apply Hne. reflexivity.
  - exists n1. split; [cbn [bnd] in *; lia|]. exact Hr1.
  - exists n1. split; [cbn [bnd] in *; lia|]. exact Hr1.
  - exfalso. apply Hne. reflexivity.
Qed.

Lemma sim_pobj_cont f o root es i K st :
  (forall k e st1, SimK o root (mk (FObjEntry es i k e :: K) None st1) K st1 (pobj_entry f o es i k e st1)) ->
  SimK o root (mk (FObj es i :: K) None st) K st (pobj_cont (S f) o es i st).
Proof.
  intros HO. unfold SimK. cbn [pobj_cont].
  pose proof (object_continue_shr o i st) as Hsh.
  assert (Hstep : step o root (mk (FObj es i :: K) None st) =
    do (next, st1) <- object_continue o i st;
    match next with
    | Some (k, e) => Ok (Continue (mk (FObjEntry es i k e :: K) None st1))
    | None => Ok (Continue (mk K (Some (VObj es, i)) st1))
    end) by reflexivity.
  destruct (object_continue o i st) as [[next st1]|e|x|]; cbn [obind shr] in *.
  - destruct next as [[k e]|].
    + intros Hne. destruct (HO k e st1 Hne) as [n1 [Hb Hr]]. exists (S n1).
      split; [bnd_tac (pobj_entry f o es i k e st1)|]. intros m.
      cbn [Nat.add]. rewrite run_S, Hstep. cbn [run_after]. apply Hr.
    + intros _. exists 0. split; [cbn [bnd]; lia|]. intros m.
      cbn [Nat.add]. rewrite run_S, Hstep. reflexivity.
  - intros _. exists 0. split; [cbn [bnd]; lia|]. intros m.
    cbn [Nat.add]. rewrite run_S, Hstep. reflexivity.
  - intros _. exists 0. split; [cbn [bnd]; lia|]. intros m.
    cbn [Nat.add]. rewrite run_S, Hstep. reflexivity.
  - intros Hne. exfalso. apply Hne. reflexivity.
Qed.

Lemma sim : forall f,
  (forall o root K0 st, val_stack K0 -> SimV o root K0 st (pvalue f o (stack_context K0 root) st)) /\
  (forall o root a i K st, SimK o root (mk (FArrItem a i :: K) None st) K st (parr_items f o a i st)) /\
  (forall o root a i K st, SimK o root (mk (FArr a i :: K) None st) K st (parr_cont f o a i st)) /\
  (forall o root es i k e K st,
     SimK o root (mk (FObjEntry es i k e :: K) None st) K st (pobj_entry f o es i k e st)) /\
  (forall o root es i K st, SimK o root (mk (FObj es i :: K) None st) K st (pobj_cont f o es i st)).
Proof.
  induction f as [|f (IHV & IHA & IHAC & IHO & IHOC)].
  { repeat split; intros; intros Hne; exfalso; apply Hne; reflexivity. }
  repeat split.
  - intros o root K0 st HK0. apply sim_pvalue; auto.
  - intros o root a i K st. apply sim_parr_items; auto. apply (IHV o root (FArrItem a i :: K) st I).
  - intros o root a i K st. apply sim_parr_cont; auto.
  - intros o root es i k e K st. apply sim_pobj_entry; auto. apply (IHV o root (FObjEntry es i k e :: K) st I).
  - intros o root es i K st. apply sim_pobj_cont; auto.
Qed.

(* ------------------------------------------------------------------------- *)
(* Part 4: the theorems                                                      *)
(* ------------------------------------------------------------------------- *)

Lemma run_after_top m o root v j st' :
  run_after m o root (absorb [] v j st') =
  (do (_, st2) <- skip_whitespaces st';
   do ((p, oc), st3) <- next_char st2;
   match oc with
   | Some ch => Err (EUnexpected p (Some ch))
   | None => Ok (v, j, st3)
   end).
Proof.
  cbn [absorb].
  destruct (skip_whitespaces st') as [[[] st2]|e|x|]; cbn [obind run_after]; try reflexivity.
  destruct (next_char st2) as [[[p oc] st3]|e|x|]; cbn [obind run_after]; try reflexivity.
  destruct oc; reflexivity.
Qed.

(* the machine started on any state with enough fuel computes ptop, provided the
   reference has enough fuel *)
Lemma machine_run_eq_gen f o root st fuel :
  pvalue f o root st <> OutOfFuel ->
  2 * len st + 1 <= fuel ->
  run fuel o root {| stack := []; pending_value := None; pst := st |} =
  (do ((v, i), st1) <- pvalue f o root st;
   do (_, st2) <- skip_whitespaces st1;
   do ((p, oc), st3) <- next_char st2;
   match oc with
   | Some ch => Err (EUnexpected p (Some ch))
   | None => Ok (v, i, st3)
   end).
Proof.
  intros Hne Hfuel.
  destruct (proj1 (sim f) o root [] st I Hne) as [n [Hb Hr]].
  cbn [stack_context] in Hb, Hr.
  assert (Hn : S n <= fuel) by (destruct (pvalue f o root st) as [[? ?]| | |]; cbn [bnd] in Hb; lia).
  change {| stack := []; pending_value := None; pst := st |} with (mk [] None st).
  replace fuel with (S n + (fuel - S n)) by lia.
  rewrite Hr.
  destruct (pvalue f o root st) as [[[v j] st']|e|x|]; cbn [obind]; try reflexivity.
  apply run_after_top.
Qed.

Lemma machine_run_eq o s :
  run (parse_fuel s) o CNone
      {| stack := []; pending_value := None; pst := {| rest := s; pos := 0%N; cm := [] |} |} =
  ptop (rec_fuel s) o {| rest := s; pos := 0%N; cm := [] |}.
Proof.
  unfold ptop. apply machine_run_eq_gen.
  - apply pvalue_rec_fuel.
  - unfold parse_fuel, len. cbn [rest]. lia.
Qed.

Theorem machine_eq_rec : forall o s, parse_items o s = parse_items_rec o s.
Proof.
  intros o s. unfold parse_items, parse_items_rec. rewrite machine_run_eq. reflexivity.
Qed.

Theorem machine_fuel_suffices : forall o s, parse_items o s <> OutOfFuel.
Proof.
  intros o s. rewrite machine_eq_rec. apply rec_fuel_suffices.
Qed.

(* Bonus (not needed above): more fuel does not change a reference result that is not OutOfFuel *)
Lemma rec_fuel_mono : forall f k,
  (forall o ctx st, pvalue f o ctx st <> OutOfFuel -> pvalue (f + k) o ctx st = pvalue f o ctx st) /\
  (forall o a i st, parr_items f o a i st <> OutOfFuel -> parr_items (f + k) o a i st = parr_items f o a i st) /\
  (forall o a i st, parr_cont f o a i st <> OutOfFuel -> parr_cont (f + k) o a i st = parr_cont f o a i st) /\
  (forall o es i ky e st, pobj_entry f o es i ky e st <> OutOfFuel ->
     pobj_entry (f + k) o es i ky e st = pobj_entry f o es i ky e st) /\
  (forall o es i st, pobj_cont f o es i st <> OutOfFuel -> pobj_cont (f + k) o es i st = pobj_cont f o es i st).
Proof.
  induction f as [|f IH]; intros k.
  { repeat split; intros; exfalso; auto. }
  destruct (IH k) as (IHV & IHA & IHAC & IHO & IHOC). clear IH.
  repeat split.
  - intros o ctx st. cbn [Nat.add pvalue].
    destruct (parse_fragment o ctx st) as [[[fr j] st1]|e|x|]; cbn [obind]; try reflexivity.
    destruct fr as [v| |ky e]; auto.
  - intros o a i st. cbn [Nat.add parr_items]. intros Hne.
    assert (Hv : pvalue f o CArray st <> OutOfFuel).
    { intros E. rewrite E in Hne. apply Hne. reflexivity. }
    rewrite (IHV _ _ _ Hv).
    destruct (pvalue f o CArray st) as [[[v j] st1]|e|x|]; cbn [obind] in *; try reflexivity. auto.
  - intros o a i st. cbn [Nat.add parr_cont].
    destruct (array_continue i st) as [[[|] st1]|e|x|]; cbn [obind]; try reflexivity. auto.
  - intros o es i ky e st. cbn [Nat.add pobj_entry]. intros Hne.
    assert (Hv : pvalue f o CObjectValue st <> OutOfFuel).
    { intros E. rewrite E in Hne. apply Hne. reflexivity. }
    rewrite (IHV _ _ _ Hv).
    destruct (pvalue f o CObjectValue st) as [[[v j] st1]|e1|x|]; cbn [obind] in *; try reflexivity.
    destruct (end_fragment e st1) as [[[] st2]|e2|x|]; cbn [obind] in *; try reflexivity. auto.
  - intros o es i st. cbn [Nat.add pobj_cont].
    destruct (object_continue o i st) as [[[[ky e]|] st1]|e|x|]; cbn [obind]; try reflexivity. auto.
Qed.

(* the fuel of the reference is irrelevant once it is large enough *)
Lemma pvalue_enough_fuel f o ctx st :
  2 * len st + 1 <= f -> pvalue f o ctx st = pvalue (2 * len st + 1) o ctx st.
Proof.
  intros Hf. replace f with ((2 * len st + 1) + (f - (2 * len st + 1))) by lia.
  apply (proj1 (rec_fuel_mono _ _)). eapply shr_fuel. apply (proj1 (rec_fuel_gen _)). lia.
Qed.

Print Assumptions rec_fuel_suffices.
Print Assumptions machine_fuel_suffices.
Print Assumptions machine_eq_rec.
