(* Proofs/SerdeShape32.v -- C16: the shape clause for data WITH f32 leaves: the value produced
   by to_value and the one serde_json::to_value produces (model ser_sj) have the same JSON
   shape at binary32 precision (Spec/SerdeShape32.v).  One structural induction, generic in the
   reading of numbers, instantiated twice:
     * shape32_SH    for the specification shape32 / shape32_sj (numbers through sgl);
     * shape32m_SH   for the model's own shape_of true / shape_of_sj true (numbers read as
                     Value::deserialize_f32 does: what the correspondence run prints as sh32).
   The key fact about floats is Proofs/Float32Widen.f32_of_f64_of_f32: widening is exact. *)
From Coq Require Import SpecFloat.
From JsonSyntax Require Import Base.Prelude Base.Value Base.Float64 Spec.EcmaNumber Spec.NumSpelling Spec.Multimap
  Spec.SerdeTyped Spec.SerdeShape32 Model.Serde Proofs.SerdeBasics Proofs.SerdeProofs Proofs.SerdeShape
  Proofs.Float32Proofs Proofs.Float32Total Proofs.Float32Widen.
Local Open Scope Z_scope.

Section Generic.
  Variable E : env.
  Variable fmt_f64 fmt_f32 : Z -> list N.
  Variable nk : list N -> nkey.
  Variable sk : tsjnum -> nkey.

  (* integers and f32 leaves are read alike on both sides *)
  Hypothesis Hint : forall k z, int_in_range k z = true -> nk (z_dec z) = sk (sj_int z).
  Hypothesis Hf32 : forall b, f32_wf b = true -> f32_finite b = true ->
    nk (fmt_f32 b) = sk (SJFloat (f64_of_f32 b)).

  Notation tser := (Serde.tser fmt_f64 fmt_f32).
  Notation shp := (shape_with nk).
  Notation shp_sj := (shape_sj_with sk).

  Definition Q64 (b : Z) : Prop := nk (fmt_f64 b) = sk (SJFloat b).

  Definition SHG (d : tsd) : Prop :=
    typed E d -> finite_floats d = true -> known_class d = false ->
    (forall b, In b (f64_leaves d) -> Q64 b) ->
    exists v j, tser d = Ok v /\ ser_sj d = Ok j /\ shp v = shp_sj j.

  Lemma list_shg : forall l, Forall SHG l -> Forall (typed E) l ->
    forallb finite_floats l = true -> existsb known_class l = false ->
    (forall b, In b (flat_map f64_leaves l) -> Q64 b) ->
    exists vs js, omap (fun x => tser x) l = Ok vs /\ omap (fun x => ser_sj x) l = Ok js /\
                  map shp vs = map shp_sj js.
  Proof.
    induction 1 as [|x l Hx _ IH]; intros Ht Hf Hk Hl.
    - exists [], []. repeat split; reflexivity.
    - inversion Ht as [|? ? Tx Tl]; subst. cbn [forallb existsb flat_map] in *.
      split_and Hf. apply orb_false_iff in Hk. destruct Hk as [Hk Hk0].
      destruct (Hx Tx Hf Hk (fun b Hb => Hl b (in_or_app _ _ _ (or_introl Hb)))) as (v & j & Hv & Hj & Hs).
      destruct (IH Tl Hf0 Hk0 (fun b Hb => Hl b (in_or_app _ _ _ (or_intror Hb)))) as (vs & js & Hvs & Hjs & Hss).
      exists (v :: vs), (j :: js). cbn [omap map]. rewrite Hv, Hj. cbn [obind]. rewrite Hvs, Hjs.
      repeat split; try reflexivity. cbn [obind]. f_equal; auto.
  Qed.

  Lemma fields_shg : forall l : list (str * tsd), Forall (fun fx => SHG (snd fx)) l ->
    Forall (fun fx => typed E (snd fx)) l ->
    forallb (fun fx => finite_floats (snd fx)) l = true ->
    existsb (fun fx => known_class (snd fx)) l = false ->
    (forall b, In b (flat_map (fun fx : str * tsd => f64_leaves (snd fx)) l) -> Q64 b) ->
    exists vs js, omap (fun fx : str * tsd => tser (snd fx)) l = Ok vs /\
                  omap (fun fx : str * tsd => ser_sj (snd fx)) l = Ok js /\
                  map shp vs = map shp_sj js.
  Proof.
    induction 1 as [|x l Hx _ IH]; intros Ht Hf Hk Hl.
    - exists [], []. repeat split; reflexivity.
    - inversion Ht as [|? ? Tx Tl]; subst. cbn [forallb existsb flat_map] in *.
      split_and Hf. apply orb_false_iff in Hk. destruct Hk as [Hk Hk0].
      destruct (Hx Tx Hf Hk (fun b Hb => Hl b (in_or_app _ _ _ (or_introl Hb)))) as (v & j & Hv & Hj & Hs).
      destruct (IH Tl Hf0 Hk0 (fun b Hb => Hl b (in_or_app _ _ _ (or_intror Hb)))) as (vs & js & Hvs & Hjs & Hss).
      exists (v :: vs), (j :: js). cbn [omap map]. rewrite Hv, Hj. cbn [obind]. rewrite Hvs, Hjs.
      repeat split; try reflexivity. cbn [obind]. f_equal; auto.
  Qed.

  Lemma entries_shg : forall (l : list (tsd * tsd)) kt t',
    Forall (fun kv => SHG (fst kv) /\ SHG (snd kv)) l ->
    forallb (fun kv => key_has_type E (fst kv) kt && has_type E (snd kv) t') l = true ->
    forallb (fun kv => finite_floats (fst kv) && finite_floats (snd kv)) l = true ->
    existsb (fun kv => known_class (snd kv)) l = false ->
    (forall b, In b (flat_map (fun kv : tsd * tsd => f64_leaves (fst kv) ++ f64_leaves (snd kv)) l) -> Q64 b) ->
    exists vs js, omap (fun kx : tsd * tsd => ser_key (fst kx)) l = Ok (keys_of l) /\
                  omap (fun kx : tsd * tsd => ser_sj_key (fst kx)) l = Ok (keys_of l) /\
                  omap (fun kx : tsd * tsd => tser (snd kx)) l = Ok vs /\
                  omap (fun kx : tsd * tsd => ser_sj (snd kx)) l = Ok js /\
                  map shp vs = map shp_sj js.
  Proof.
    intros l kt t' H. induction H as [|[k x] l [_ Hx] _ IH]; intros Ht Hf Hk Hl.
    - exists [], []. repeat split; reflexivity.
    - cbn [forallb existsb flat_map fst snd] in *. split_and Ht. split_and Hf.
      apply orb_false_iff in Hk. destruct Hk as [Hk Hk0].
      destruct (key_sj E k kt Ht) as (s & Ks & K1 & K2).
      destruct (Hx (ex_intro _ t' Ht1) Hf1 Hk
                  (fun b Hb => Hl b (in_or_app _ _ _ (or_introl (in_or_app _ _ _ (or_intror Hb))))))
        as (v & j & Hv & Hj & Hs).
      destruct (IH Ht0 Hf0 Hk0 (fun b Hb => Hl b (in_or_app _ _ _ (or_intror Hb)))) as (vs & js & A1 & A2 & A3 & A4 & A5).
      exists (v :: vs), (j :: js). cbn [keys_of omap map fst snd]. rewrite Ks, K1, K2, Hv, Hj. cbn [obind].
      rewrite A1, A2, A3, A4. cbn [obind]. repeat split; try reflexivity. f_equal; auto.
  Qed.

  Lemma shape_obj_g (ks : list str) (vs : list value) (js : list tsj) :
    map shp vs = map shp_sj js ->
    shp (VObj (combine ks vs)) = shp_sj (TjObj (isort (combine ks js))).
  Proof.
    intros H. cbn [shape_with shape_sj_with]. f_equal.
    rewrite (isort_map shp_sj). rewrite !map_combine. rewrite H. reflexivity.
  Qed.

  Theorem shape_SHG : forall d, SHG d.
  Proof.
    induction d using tsd_ind'; intros [t Ht] Hf Hk Hl; destruct t; cbn [has_type] in Ht; try discriminate;
      cbn [finite_floats known_class f64_leaves] in Hf, Hk, Hl.
    - (* bool *) exists (VBool b), (TjBool b). repeat split; reflexivity.
    - (* int *) split_and Ht. exists (VNum (z_dec z)), (TjNum (sj_int z)). repeat split; try reflexivity.
      cbn [shape_with shape_sj_with]. f_equal. exact (Hint k z Ht0).
    - (* f32 *) exists (VNum (fmt_f32 b)), (TjNum (SJFloat (f64_of_f32 b))). cbn [Serde.tser ser_sj]. rewrite Hf.
      repeat split; try reflexivity. cbn [shape_with shape_sj_with]. f_equal. exact (Hf32 b Ht Hf).
    - (* f64 *) exists (VNum (fmt_f64 b)), (TjNum (SJFloat b)). cbn [Serde.tser ser_sj]. rewrite Hf.
      repeat split; try reflexivity. cbn [shape_with shape_sj_with]. f_equal. apply Hl. left. reflexivity.
    - (* char *) exists (VStr [c]), (TjStr [c]). repeat split; reflexivity.
    - (* str *) exists (VStr s), (TjStr s). repeat split; reflexivity.
    - (* unit *) exists VNull, TjNull. repeat split; reflexivity.
    - (* unit struct *) exists VNull, TjNull. repeat split; reflexivity.
    - (* none *) exists VNull, TjNull. repeat split; reflexivity.
    - (* some *) split_and Ht. exact (IHd (ex_intro _ t Ht) Hf Hk Hl).
    - (* newtype struct *) split_and Ht. destruct (assoc n E) as [[]|]; try discriminate.
      exact (IHd (ex_intro _ t Ht0) Hf Hk Hl).
    - (* seq *) destruct (list_shg l H (forallb_typed E t l Ht) Hf Hk Hl) as (vs & js & Hvs & Hjs & Hs).
      exists (VArr vs), (TjArr js). cbn [Serde.tser ser_sj]. rewrite Hvs, Hjs. repeat split; try reflexivity.
      cbn [shape_with shape_sj_with]. f_equal. exact Hs.
    - (* tuple *) destruct (list_shg l H (all2b_typed E l l0 Ht) Hf Hk Hl) as (vs & js & Hvs & Hjs & Hs).
      exists (VArr vs), (TjArr js). cbn [Serde.tser ser_sj]. rewrite Hvs, Hjs. repeat split; try reflexivity.
      cbn [shape_with shape_sj_with]. f_equal. exact Hs.
    - (* tuple struct *) split_and Ht. destruct (assoc n E) as [[]|]; try discriminate.
      destruct (list_shg l H (all2b_typed E l l0 Ht0) Hf Hk Hl) as (vs & js & Hvs & Hjs & Hs).
      exists (VArr vs), (TjArr js). cbn [Serde.tser ser_sj]. rewrite Hvs, Hjs. repeat split; try reflexivity.
      cbn [shape_with shape_sj_with]. f_equal. exact Hs.
    - (* map *) split_and Ht. apply orb_false_iff in Hk. destruct Hk as [Hk1 Hk2].
      destruct (entries_shg l k t H Ht Hf Hk2 Hl) as (vs & js & A1 & A2 & A3 & A4 & A5).
      exists (VObj (combine (keys_of l) vs)), (TjObj (isort (combine (keys_of l) js))). split; [|split].
      + rewrite ser_map_eq.
        * assert (X : ser_entries_g ser_key tser l [] = Ok (combine (keys_of l) vs))
            by exact (ser_entries_ok _ _ l [] (keys_of l) vs A1 A3 Ht0).
          rewrite X. reflexivity.
        * destruct l as [|[k0 x0] l]; [reflexivity|].
          cbn [forallb fst] in Ht. split_and Ht.
          destruct (key_sj E k0 k Ht) as (s & Ks & Kser & _).
          cbn [fst]. rewrite Kser. rewrite Ks in Hk1. exact Hk1.
      + cbn [ser_sj].
        assert (X : sj_entries_g ser_sj_key ser_sj l [] = Ok (isort (combine (keys_of l) js)))
          by exact (sj_entries_ok _ _ l [] (keys_of l) js A2 A4).
        change (obind (sj_entries_g ser_sj_key ser_sj l []) (fun o => Ok (TjObj o)) = Ok (TjObj (isort (combine (keys_of l) js)))).
        rewrite X. reflexivity.
      + apply shape_obj_g. exact A5.
    - (* struct *) split_and Ht. apply str_eqb_spec in Ht. subst name.
      destruct (assoc n E) as [[]|] eqn:Ea; try discriminate. split_and Ht0.
      apply orb_false_iff in Hk. destruct Hk as [Hk1 Hk2].
      destruct (fields_shg l H (fields2b_typed E l l0 Ht0) Hf Hk2 Hl) as (vs & js & Hvs & Hjs & Hs).
      exists (VObj (combine (map fst l) vs)), (TjObj (isort (combine (map fst l) js))). split; [|split].
      + rewrite ser_struct_eq by exact Hk1.
        assert (X : ser_fields_g tser l [] = Ok (combine (map fst l) vs)).
        { apply (ser_fields_ok _ l [] vs Hvs). cbn [map app]. rewrite (fields2b_names _ _ _ Ht0). exact Ht1. }
        rewrite X. reflexivity.
      + cbn [ser_sj].
        assert (X : sj_fields_g ser_sj l [] = Ok (isort (combine (map fst l) js)))
          by exact (sj_fields_ok _ l [] js Hjs).
        change (obind (sj_fields_g ser_sj l []) (fun o => Ok (TjObj o)) = Ok (TjObj (isort (combine (map fst l) js)))).
        rewrite X. reflexivity.
      + apply shape_obj_g. exact Hs.
    - (* unit variant *) exists (VStr v), (TjStr v). repeat split; reflexivity.
    - (* newtype variant *) split_and Ht. destruct (assoc n E) as [[]|]; try discriminate.
      destruct (assoc v vs) as [[]|]; try discriminate.
      destruct (IHd (ex_intro _ t Ht0) Hf Hk Hl) as (w & j & Hw & Hj & Hs).
      exists (VObj [(v, w)]), (TjObj [(v, j)]). cbn [Serde.tser ser_sj]. rewrite Hw, Hj.
      repeat split; try reflexivity. cbn. rewrite Hs. reflexivity.
    - (* tuple variant *) split_and Ht. destruct (assoc n E) as [[]|]; try discriminate.
      destruct (assoc v vs) as [[]|]; try discriminate.
      destruct (list_shg l H (all2b_typed E _ l0 Ht0) Hf Hk Hl) as (ws & js & Hws & Hjs & Hs).
      exists (VObj [(v, VArr ws)]), (TjObj [(v, TjArr js)]). cbn [Serde.tser ser_sj]. rewrite Hws, Hjs.
      repeat split; try reflexivity. cbn. f_equal. f_equal. f_equal. f_equal. exact Hs.
    - (* struct variant *) split_and Ht. destruct (assoc n E) as [[]|]; try discriminate.
      destruct (assoc v vs) as [[]|]; try discriminate. split_and Ht0.
      destruct (fields_shg l H (fields2b_typed E l l0 Ht0) Hf Hk Hl) as (ws & js & Hws & Hjs & Hs).
      exists (VObj [(v, VObj (combine (map fst l) ws))]), (TjObj [(v, TjObj (isort (combine (map fst l) js)))]).
      split; [|split].
      + cbn [Serde.tser].
        assert (X : ser_fields_g tser l [] = Ok (combine (map fst l) ws)).
        { apply (ser_fields_ok _ l [] ws Hws). cbn [map app]. rewrite (fields2b_names _ _ _ Ht0). exact Ht1. }
        change (obind (ser_fields_g tser l []) (fun o => Ok (VObj [(v, VObj o)])) = Ok (VObj [(v, VObj (combine (map fst l) ws))])).
        rewrite X. reflexivity.
      + cbn [ser_sj].
        assert (X : sj_fields_g ser_sj l [] = Ok (isort (combine (map fst l) js)))
          by exact (sj_fields_ok _ l [] js Hjs).
        change (obind (sj_fields_g ser_sj l []) (fun o => Ok (TjObj [(v, TjObj o)])) = Ok (TjObj [(v, TjObj (isort (combine (map fst l) js)))])).
        rewrite X. reflexivity.
      + pose proof (shape_obj_g (map fst l) ws js Hs) as Q. cbn [shape_with shape_sj_with] in Q |- *.
        injection Q as Q. cbn. rewrite Q. reflexivity.
  Qed.
End Generic.

(* ------------------------------------------------------------------------------------ *)
(* the two readings of numbers                                                            *)

Lemma nkey_eqb_eq a b : nkey_eqb a b = true -> a = b.
Proof. destruct a, b; cbn; intros H; try discriminate; apply Z.eqb_eq in H; congruence. Qed.

Lemma key32_norm b : key32 (f32_norm b) = key32 b.
Proof.
  unfold f32_norm. destruct (Z.eqb_spec b (2 ^ 31)) as [->|]; [|reflexivity].
  vm_compute. reflexivity.
Qed.

(* narrowing the widened f32 *)
Lemma key32_widen b : f32_wf b = true -> f32_finite b = true ->
  key32 (f32_of_f64 (f64_of_f32 b)) = key32 b.
Proof. intros Hw Hf. rewrite (f32_of_f64_of_f32 b Hw Hf). reflexivity. Qed.

(* an integer spelling, read as Value::deserialize_f32 does *)
Lemma de_f32_z_dec k z : int_in_range k z = true -> de_f32 (z_dec z) = f32_of_Z z.
Proof.
  intros Hr. unfold de_f32, as_u64, as_i64.
  destruct (Z.leb_spec 0 z) as [Hz|Hz].
  - rewrite (parse_int_z_dec U64 z (int_in_range_u64 k z Hz Hr)). reflexivity.
  - rewrite (parse_unsigned_neg U64 z eq_refl Hz).
    rewrite (parse_int_z_dec I64 z (int_in_range_i64 k z Hz Hr)). reflexivity.
Qed.

Lemma sjnum32_int z : sjnum32 (sj_int z) = round32 (sf_of_Z z).
Proof. unfold sj_int. destruct (z <? 0); reflexivity. Qed.

Lemma sjnum_key_int p z : sjnum_key p (sj_int z) = key_of_int p z.
Proof. unfold sj_int. destruct (z <? 0); reflexivity. Qed.

(* ------------------------------------------------------------------------------------ *)
(* the model's shape functions are the generic ones                                       *)

(* (the fixpoints have convertible bodies) *)
Lemma shape_of_with p : forall v, shape_of p v = shape_with (num_key p) v.
Proof. intros v. reflexivity. Qed.

Lemma shape_of_sj_with p : forall j, shape_of_sj p j = shape_sj_with (sjnum_key p) j.
Proof. intros j. reflexivity. Qed.

(* ------------------------------------------------------------------------------------ *)
(* the shape clause at binary32 precision: specification form                             *)

Theorem shape32_SH :
  forall (E : env) (fmt_f64 fmt_f32 : Z -> list N),
  (forall b, f32_wf b = true -> f32_finite b = true -> sgl (fmt_f32 b) = sf32_of_bits b) ->
  forall d, (exists t, has_type E d t = true) -> finite_floats d = true -> known_class d = false ->
  f64_leaves_agree32 fmt_f64 d = true ->
  exists v j, tser fmt_f64 fmt_f32 d = Ok v /\ ser_sj d = Ok j /\ shape32 v = shape32_sj j.
Proof.
  intros E fmt_f64 fmt_f32 P32 d Ht Hf Hk Hl.
  apply (shape_SHG E fmt_f64 fmt_f32 (fun n => key_of_sf32 (num32 n)) (fun q => key_of_sf32 (sjnum32 q))); auto.
  - intros k z _. unfold num32. rewrite sgl_z_dec, sjnum32_int. reflexivity.
  - intros b Hw Hfin. unfold num32, key_of_sf32. rewrite (P32 b Hw Hfin).
    cbn [sjnum32]. change (sf32_bits (round32 (sf_of_bits (f64_of_f32 b)))) with (f32_of_f64 (f64_of_f32 b)).
    rewrite (f32_of_f64_of_f32 b Hw Hfin). f_equal.
    unfold f32_wf in Hw. apply andb_true_iff in Hw. rewrite Z.leb_le, Z.ltb_lt in Hw.
    apply sf32_bits_of_bits; [exact Hw|].
    intros Hn. pose proof (finite_sf32_of_bits b Hw) as F. rewrite Hn, Hfin in F. discriminate F.
  - intros b Hb. unfold Q64. apply nkey_eqb_eq.
    unfold f64_leaves_agree32 in Hl. rewrite forallb_forall in Hl. exact (Hl b Hb).
Qed.

(* data whose floats are all f32: no premise on the f64 printer is left *)
Corollary shape32_f32_only :
  forall (E : env) (fmt_f64 fmt_f32 : Z -> list N),
  (forall b, f32_wf b = true -> f32_finite b = true -> sgl (fmt_f32 b) = sf32_of_bits b) ->
  forall d, (exists t, has_type E d t = true) -> finite_floats d = true -> known_class d = false ->
  no_f64 d = true ->
  exists v j, tser fmt_f64 fmt_f32 d = Ok v /\ ser_sj d = Ok j /\ shape32 v = shape32_sj j.
Proof.
  intros E fmt_f64 fmt_f32 P32 d Ht Hf Hk Hn. apply (shape32_SH E fmt_f64 fmt_f32 P32 d Ht Hf Hk).
  unfold f64_leaves_agree32, no_f64 in *. destruct (f64_leaves d); [reflexivity|discriminate].
Qed.

(* ------------------------------------------------------------------------------------ *)
(* model form: shape_of true / shape_of_sj true, the functions the run evaluates (sh32),
   under the float premise of the round-trip theorem                                       *)

Theorem shape32m_SH :
  forall (E : env) (fmt_f64 fmt_f32 : Z -> list N),
  (forall b, f32_wf b = true -> f32_finite b = true -> de_f32 (fmt_f32 b) = f32_norm b) ->
  forall d, (exists t, has_type E d t = true) -> finite_floats d = true -> known_class d = false ->
  (forall b, In b (f64_leaves d) -> num_key true (fmt_f64 b) = key_of_float true b) ->
  exists v j, tser fmt_f64 fmt_f32 d = Ok v /\ ser_sj d = Ok j /\
              shape_of true v = shape_of_sj true j.
Proof.
  intros E fmt_f64 fmt_f32 H32 d Ht Hf Hk Hl.
  destruct (shape_SHG E fmt_f64 fmt_f32 (num_key true) (sjnum_key true)) with (d := d)
    as (v & j & Hv & Hj & Hs); auto.
  - intros k z Hr. rewrite sjnum_key_int. unfold num_key, key_of_int. rewrite (de_f32_z_dec k z Hr). reflexivity.
  - intros b Hw Hfin. unfold num_key. rewrite (H32 b Hw Hfin), key32_norm.
    cbn [sjnum_key]. unfold key_of_float. rewrite (key32_widen b Hw Hfin). reflexivity.
  - exists v, j. rewrite shape_of_with, shape_of_sj_with. auto.
Qed.

(* ------------------------------------------------------------------------------------ *)
(* instances                                                                              *)

(* (0.1f32, 0.1f64, -7i8): json-syntax writes 0.1 for the f32, serde_json 0.10000000149011612;
   the exact shapes differ, the binary32 shapes agree; every premise is met by the reference
   printers *)
Definition sh32_d : tsd := SdTuple [SdF32 0x3DCCCCCD; SdF64 0x3FB999999999999A; SdInt I8 (-7)].
Definition sh32_t : ty := TyTuple [TyF32; TyF64; TyInt I8].

Lemma shape32_example :
  has_type [] sh32_d sh32_t = true /\ finite_floats sh32_d = true /\ known_class sh32_d = false /\
  f64_leaves_agree32 fmt_f64_shortest sh32_d = true /\
  fmt_f32_ref 0x3DCCCCCD = s2l "0.1" /\
  fmt_sj_ref (f64_of_f32 0x3DCCCCCD) = s2l "0.10000000149011612" /\
  exists v j, tser fmt_f64_shortest fmt_f32_ref sh32_d = Ok v /\ ser_sj sh32_d = Ok j /\
              shape_eqb (shape_of false v) (shape_of_sj false j) = false /\
              shape32 v = shape32_sj j /\ shape_of true v = shape_of_sj true j.
Proof.
  do 6 (split; [vm_compute; reflexivity|]).
  eexists. eexists. split; [vm_compute; reflexivity|]. split; [vm_compute; reflexivity|].
  split; [vm_compute; reflexivity|]. split; vm_compute; reflexivity.
Qed.

(* the premise on f64 leaves cannot be dropped: the double 0x3ab5c87fb0000000 is exactly
   half-way between the binary32 values 0x15ae43fd and 0x15ae43fe; its shortest spelling
   7.038531e-26 lies below it.  Exact shapes agree, binary32 shapes do not. *)
Definition sh32_mid : tsd := SdF64 0x3ab5c87fb0000000.

Lemma shape32_f64_midpoint :
  has_type [] sh32_mid TyF64 = true /\ finite_floats sh32_mid = true /\ known_class sh32_mid = false /\
  fmt_f64_shortest 0x3ab5c87fb0000000 = s2l "7.038531e-26" /\
  f64_leaves_agree32 fmt_f64_shortest sh32_mid = false /\
  exists v j, tser fmt_f64_shortest fmt_f32_ref sh32_mid = Ok v /\ ser_sj sh32_mid = Ok j /\
              shape_of false v = shape_of_sj false j /\
              shape32 v = ShNumber (key32 0x15ae43fd) /\ shape32_sj j = ShNumber (key32 0x15ae43fe) /\
              shape32 v <> shape32_sj j.
Proof.
  do 5 (split; [vm_compute; reflexivity|]).
  eexists. eexists. split; [vm_compute; reflexivity|]. split; [vm_compute; reflexivity|].
  do 3 (split; [vm_compute; reflexivity|]). vm_compute. discriminate.
Qed.

Print Assumptions shape_SHG.
Print Assumptions shape32_SH.
Print Assumptions shape32_f32_only.
Print Assumptions shape32m_SH.
Print Assumptions shape32_example.
Print Assumptions shape32_f64_midpoint.
