(* Proofs/RoundTrip.v -- printing round-trips (C04): composition of
   C13_layout (printer = layout), layout_text_strict (the layout denotes the value in the
   strict grammar), rec_complete_items (grammar => reference parser) and machine_eq_rec
   (machine = reference parser). *)
From JsonSyntax Require Import Base.Prelude Base.Value Base.Unicode Base.Source
  Model.Parser Model.EntryPoints Model.Printer Spec.Grammar Spec.Layout
  Proofs.ParserRecDef Proofs.ParserL1 Proofs.ParserCompleteLex Proofs.ParserComplete
  Proofs.PrinterTheorems Proofs.PrintGrammar.

Lemma chars_soks cs : chars cs = soks (text_items cs).
Proof.
  unfold chars, soks, text_items. rewrite map_map. apply map_ext. intros c. reflexivity.
Qed.

Lemma parse_str_complete o cs v m :
  jtext o (text_items cs) v m -> parse_str_with o cs = Ok (v, m).
Proof.
  intros H. unfold parse_str_with, parse_utf8_with, parse_with.
  rewrite machine_eq_rec, chars_soks. apply rec_complete_items. exact H.
Qed.

Theorem print_parse_roundtrip o v :
  wfv v -> exists t m, print_with o v = Some t /\ parse_str t = Ok (v, m).
Proof.
  intros W. destruct (layout_text_strict o v W) as [m Hm].
  exists (layout_text o v), m. split; [apply C13_layout|].
  apply (parse_str_complete strict). exact Hm.
Qed.

(* the printed text is a strict RFC 8259 document *)
Theorem print_strict o v : wfv v -> exists t, print_with o v = Some t /\ Strict t.
Proof.
  intros W. exists (layout_text o v). split; [apply C13_layout|].
  apply layout_text_in_Strict. exact W.
Qed.
