(* Proofs/ParserSafety.v -- panic freedom of the parser model, validity of the number
   buffer handed to NumberBuf::new_unchecked, and closedness of the code map.

   Method: a small Hoare logic over [outcome].  [post x Q] says that x does not panic
   and that Q holds of its result when it is Ok.  The assertion language on parser
   states is [T st F st']: the code map never shrinks, and for every set X of indices
   such that all entries of [cm st] outside X are "good" (start <= end, volume >= 1),
   all entries of [cm st'] outside [F X] are good.  begin_fragment adds its index to
   the set, end_fragment removes it. *)
From JsonSyntax Require Import Base.Prelude Base.Value Base.Unicode Model.Parser Model.EntryPoints Spec.Grammar.

(* ================= generic Hoare layer ================= *)
Definition post {E A} (x : outcome E A) (Q : A -> Prop) : Prop :=
  match x with Ok a => Q a | Panic _ => False | _ => True end.

Lemma post_bind {E A B} (x : outcome E A) (f : A -> outcome E B) (Q' : A -> Prop) (Q : B -> Prop) :
  post x Q' -> (forall a, Q' a -> post (f a) Q) -> post (obind x f) Q.
Proof. destruct x as [a|e|s|]; cbn; intros Hx Hf; auto. Qed.

Lemma post_mono {E A} (x : outcome E A) (Q Q' : A -> Prop) :
  post x Q -> (forall a, Q a -> Q' a) -> post x Q'.
Proof. destruct x as [a|e|s|]; cbn; intros Hx Hf; auto. Qed.

Lemma post_no_panic {E A} (x : outcome E A) Q s : post x Q -> x <> Panic s.
Proof. intros H ->. exact H. Qed.

Lemma post_ok {E A} (x : outcome E A) Q a : post x Q -> x = Ok a -> Q a.
Proof. intros H ->. exact H. Qed.

(* destruct a character down to 7 binary digits: enough to decide every ASCII literal *)
Ltac deep c := destruct c as [|c]; [| do 7 (try destruct c as [c|c|])].

(* ================= code-map assertions ================= *)
Definition len (st : pstate) : nat := length (cm st).

Definition good (e : cme) : Prop := match e with (a, b, v) => a <= b /\ 1 <= v end.

Definition okmap (X : N -> Prop) (m : list cme) : Prop :=
  forall n e, nth_error m n = Some e -> good e \/ X (N.of_nat n).

Definition T (st : pstate) (F : (N -> Prop) -> N -> Prop) (st' : pstate) : Prop :=
  (len st <= len st')%nat /\ forall X, okmap X (cm st) -> okmap (F X) (cm st').

Definition Tid (st st' : pstate) : Prop := T st (fun X => X) st'.
Definition closeF (i : N) : (N -> Prop) -> N -> Prop := fun X j => X j /\ j <> i.
Definition openF (i : N) : (N -> Prop) -> N -> Prop := fun X j => X j \/ j = i.

Lemma okmap_mono (X Y : N -> Prop) m : okmap X m -> (forall j, X j -> Y j) -> okmap Y m.
Proof. intros H HXY n e Hn. destruct (H n e Hn) as [Hg|Hx]; auto. Qed.

Lemma T_same st st' : cm st' = cm st -> Tid st st'.
Proof. intros E. unfold Tid, T, len. rewrite E. split; [lia|auto]. Qed.

Lemma T_refl st : Tid st st.
Proof. apply T_same; reflexivity. Qed.

Lemma T_trans a b c F G : T a F b -> T b G c -> T a (fun X => G (F X)) c.
Proof. intros [L1 H1] [L2 H2]. split; [lia|]. intros X HX. apply H2, H1, HX. Qed.

Lemma T_weaken a b (F G : (N -> Prop) -> N -> Prop) :
  T a F b -> (forall X j, F X j -> G X j) -> T a G b.
Proof.
  intros [L H] HFG. split; [exact L|]. intros X HX.
  eapply okmap_mono; [apply H, HX|]. intros j; apply HFG.
Qed.

Lemma T_len a b F : T a F b -> (len a <= len b)%nat.
Proof. intros [L _]; exact L. Qed.

(* compose a chain of T hypotheses from the context *)
Ltac tchain := first [eassumption | eapply T_trans; [eassumption | tchain]].
Ltac tsolve :=
  unfold Tid in *; eapply T_weaken; [tchain|]; unfold closeF, openF; cbn beta; intros ? ?; intuition (subst; auto; congruence).
Ltac tlen :=
  repeat match goal with H : T _ _ _ |- _ => apply T_len in H | H : Tid _ _ |- _ => apply T_len in H end; lia.

(* ---------- set_nth ---------- *)
Lemma set_nth_length {A} n (x : A) l : length (set_nth n x l) = length l.
Proof. revert n; induction l as [|y l IH]; intros [|n]; cbn; auto. Qed.

Lemma nth_error_set_nth_eq {A} n (x : A) l :
  (n < length l)%nat -> nth_error (set_nth n x l) n = Some x.
Proof.
  revert n; induction l as [|y l IH]; intros [|n] Hn; cbn in *; try lia; auto.
  apply IH; lia.
Qed.

Lemma nth_error_set_nth_neq {A} n k (x : A) l :
  k <> n -> nth_error (set_nth n x l) k = nth_error l k.
Proof.
  revert n k; induction l as [|y l IH]; intros [|n] [|k] Hk; cbn; auto; try lia.
Qed.

(* ---------- begin_fragment / end_fragment ---------- *)
Lemma begin_spec st i st0 :
  begin_fragment st = (i, st0) ->
  i = N.of_nat (len st) /\ len st0 = S (len st) /\ T st (openF i) st0.
Proof.
  unfold begin_fragment. intros H. inversion H; subst; clear H.
  unfold T, len; cbn [cm]. rewrite app_length; cbn [length].
  split; [reflexivity|]. split; [lia|]. split; [lia|].
  intros X HX n e Hn. unfold openF.
  destruct (Nat.lt_ge_cases n (length (cm st))) as [Hlt|Hge].
  - rewrite nth_error_app1 in Hn by exact Hlt. destruct (HX n e Hn); auto.
  - right; right. rewrite nth_error_app2 in Hn by exact Hge.
    destruct (n - length (cm st))%nat as [|k] eqn:Hk.
    + f_equal. lia.
    + destruct k; discriminate Hn.
Qed.

Lemma end_fragment_post i st :
  (N.to_nat i < len st)%nat ->
  post (end_fragment i st) (fun r => T st (closeF i) (snd r)).
Proof.
  intros Hi. unfold end_fragment, len in *.
  destruct (nth_error (cm st) (N.to_nat i)) as [[[s e0] v]|] eqn:Hn.
  2:{ apply nth_error_None in Hn. lia. }
  destruct (N.ltb_spec (N.of_nat (length (cm st))) i) as [Hlt|Hge]; [lia|].
  cbn. unfold T, len; cbn [cm]. rewrite set_nth_length. split; [lia|].
  intros X HX n e Hn'. unfold closeF.
  destruct (Nat.eq_dec n (N.to_nat i)) as [->|Hne].
  - rewrite nth_error_set_nth_eq in Hn' by exact Hi. inversion Hn'; subst.
    left. cbn. split; lia.
  - rewrite nth_error_set_nth_neq in Hn' by exact Hne.
    destruct (HX n e Hn') as [Hg|Hx]; [left; exact Hg|right]. split; [exact Hx|lia].
Qed.

(* ---------- functions that do not touch the code map ---------- *)
Lemma next_char_post st : post (next_char st) (fun r => Tid st (snd r)).
Proof.
  unfold next_char. destruct (rest st) as [|[c l|] r]; cbn; try exact I; apply T_same; reflexivity.
Qed.

Lemma peek_char_post st : post (peek_char st) (fun _ => True).
Proof. unfold peek_char. destruct (rest st) as [|[c l|] r]; cbn; exact I. Qed.

Lemma skip_ws_list_post l p : post (skip_ws_list l p) (fun _ => True).
Proof.
  revert p; induction l as [|[c n|] r IH]; intros p; cbn; try exact I.
  destruct (is_ws c); [apply IH|exact I].
Qed.

Lemma skip_whitespaces_post st : post (skip_whitespaces st) (fun r => Tid st (snd r)).
Proof.
  unfold skip_whitespaces. pose proof (skip_ws_list_post (rest st) (pos st)) as H.
  destruct (skip_ws_list (rest st) (pos st)) as [[l p]|e|s|]; cbn in *; try exact I; try contradiction.
  apply T_same; reflexivity.
Qed.

(* rebase a postcondition along a prefix of the execution *)
Lemma post_T_pre {A} st st1 (x : res A) (F G H : (N -> Prop) -> N -> Prop) :
  T st F st1 -> post x (fun r => T st1 G (snd r)) ->
  (forall X j, G (F X) j -> H X j) ->
  post x (fun r => T st H (snd r)).
Proof.
  intros T1 Hx HGH. eapply post_mono; [exact Hx|]. intros r T2; cbn in *.
  eapply T_weaken; [eapply T_trans; eassumption|]. exact HGH.
Qed.

Lemma post_Tid_pre {A} st st1 (x : res A) (G : (N -> Prop) -> N -> Prop) :
  Tid st st1 -> post x (fun r => T st1 G (snd r)) -> post x (fun r => T st G (snd r)).
Proof. intros T1 Hx. eapply post_T_pre; [exact T1|exact Hx|auto]. Qed.

Lemma expect_chars_post cs st : post (expect_chars cs st) (fun r => Tid st (snd r)).
Proof.
  revert st; induction cs as [|c cs IH]; intros st; cbn [expect_chars].
  - cbn. apply T_refl.
  - eapply post_bind; [apply next_char_post|]. intros [[p oc] st1] T1; cbn in T1.
    destruct oc as [x|]; [|exact I]. destruct (x =? c); [|exact I].
    eapply post_T_pre; [exact T1|apply IH|auto].
Qed.

Lemma hex_digit_post st : post (hex_digit st) (fun r => Tid st (snd r)).
Proof.
  unfold hex_digit. eapply post_bind; [apply next_char_post|]. intros [[p oc] st1] T1; cbn in T1.
  destruct oc as [c|]; [|exact I]. destruct (hexval c); [|exact I]. exact T1.
Qed.

Lemma parse_hex4_post st : post (parse_hex4 st) (fun r => Tid st (snd r)).
Proof.
  unfold parse_hex4.
  eapply post_bind; [apply hex_digit_post|]. intros [h3 st1] T1; cbn in T1.
  eapply post_bind; [apply hex_digit_post|]. intros [h2 st2] T2; cbn in T2.
  eapply post_bind; [apply hex_digit_post|]. intros [h1 st3] T3; cbn in T3.
  eapply post_bind; [apply hex_digit_post|]. intros [h0 st4] T4; cbn in T4.
  cbn. unfold Tid in *. tsolve.
Qed.

(* ---------- null, booleans ---------- *)
Lemma parse_null_post st : post (parse_null st) (fun r => Tid st (snd r)).
Proof.
  unfold parse_null. destruct (begin_fragment st) as [i st0] eqn:Hb.
  destruct (begin_spec _ _ _ Hb) as (Hi & L0 & T0).
  eapply post_bind; [apply expect_chars_post|]. intros [[] st1] T1; cbn in T1.
  eapply post_bind; [apply end_fragment_post; unfold Tid in *; tlen|]. intros [[] st2] T2; cbn in T2.
  cbn. unfold Tid in *. tsolve.
Qed.

Lemma parse_bool_post st : post (parse_bool st) (fun r => Tid st (snd r)).
Proof.
  unfold parse_bool. destruct (begin_fragment st) as [i st0] eqn:Hb.
  destruct (begin_spec _ _ _ Hb) as (Hi & L0 & T0).
  eapply post_bind; [apply next_char_post|]. intros [[p oc] st1] T1; cbn in T1.
  destruct oc as [c|]; [|exact I]. deep c; try exact I.
  - eapply post_bind; [apply expect_chars_post|]. intros [[] st2] T2; cbn in T2.
    eapply post_bind; [apply end_fragment_post; unfold Tid in *; tlen|]. intros [[] st3] T3; cbn in T3.
    cbn. unfold Tid in *. tsolve.
  - eapply post_bind; [apply expect_chars_post|]. intros [[] st2] T2; cbn in T2.
    eapply post_bind; [apply end_fragment_post; unfold Tid in *; tlen|]. intros [[] st3] T3; cbn in T3.
    cbn. unfold Tid in *. tsolve.
Qed.

(* ================= numbers ================= *)
Definition sign (m : list N) : Prop := m = [] \/ m = [0x2D].
Definition digs (ds : list N) : Prop := Forall (fun c => digit c = true) ds.
Definition is_E (c : N) : Prop := c = 0x65 \/ c = 0x45.

(* what has been read when the automaton is in state s *)
Definition NInv (s : nstate) (buf : list N) : Prop :=
  match s with
  | NInit => buf = []
  | NFirstDigit => buf = [0x2D]
  | NZero => exists m, sign m /\ buf = m ++ [0x30]
  | NNonZero => exists m d ds, sign m /\ onenine d = true /\ digs ds /\ buf = m ++ d :: ds
  | NFracFirst => exists m i, sign m /\ jint i /\ buf = m ++ i ++ [0x2E]
  | NFracRest => exists m i ds, sign m /\ jint i /\ digits1 ds /\ buf = m ++ i ++ 0x2E :: ds
  | NExpSign => exists m i f E, sign m /\ jint i /\ jfrac f /\ is_E E /\ buf = m ++ i ++ f ++ [E]
  | NExpFirst => exists m i f E sg, sign m /\ jint i /\ jfrac f /\ is_E E /\
                                    (sg = [0x2B] \/ sg = [0x2D]) /\ buf = m ++ i ++ f ++ E :: sg
  | NExpRest => exists m i f E sg ds, sign m /\ jint i /\ jfrac f /\ is_E E /\
                                      (sg = [] \/ sg = [0x2B] \/ sg = [0x2D]) /\ digits1 ds /\
                                      buf = m ++ i ++ f ++ E :: sg ++ ds
  end.

Lemma digits1_snoc ds c : digits1 ds -> digit c = true -> digits1 (ds ++ [c]).
Proof.
  intros [Hne Hd] Hc. split; [destruct ds; discriminate|].
  apply Forall_app; split; [exact Hd|]. constructor; [exact Hc|constructor].
Qed.

Lemma digits1_one c : digit c = true -> digits1 [c].
Proof. intros Hc. split; [discriminate|]. constructor; [exact Hc|constructor]. Qed.

Lemma digs_snoc ds c : digs ds -> digit c = true -> digs (ds ++ [c]).
Proof. intros Hd Hc. apply Forall_app; split; [exact Hd|]. constructor; [exact Hc|constructor]. Qed.

Lemma is_E_of c : (c =? 0x65) || (c =? 0x45) = true -> is_E c.
Proof. unfold is_E. intros H. lia. Qed.

Ltac lsolve := repeat (rewrite <- app_assoc || (progress cbn [app])); repeat rewrite app_nil_r; reflexivity.

(* split the first `if` of hypothesis H *)
Ltac split_if H :=
  match type of H with
  | context [if ?b then _ else _] => let E := fresh "E" in destruct b eqn:E
  end.

Lemma num_trans_ascii ctx s c s' : num_trans ctx s c = NGo s' -> c < 128.
Proof.
  intros H. unfold num_trans, is_onenine, is_digit in H.
  destruct s; repeat split_if H; try discriminate H; lia.
Qed.

Lemma num_trans_inv ctx s c s' buf :
  NInv s buf -> num_trans ctx s c = NGo s' -> NInv s' (buf ++ [c]).
Proof.
  intros HI H. unfold num_trans in H.
  destruct s; cbn [NInv] in HI; repeat split_if H; try discriminate H;
    inversion H; subst s'; clear H; cbn [NInv];
    repeat match goal with
           | E : (_ =? _) = true |- _ => apply N.eqb_eq in E; subst
           | E : (_ =? _) || (_ =? _) = true |- _ => first [apply is_E_of in E | apply orb_true_iff in E; destruct E as [E|E]]
           end.
  - (* NInit, '-' *) subst; reflexivity.
  - (* NInit, '0' *) subst. exists []. split; [left; reflexivity|reflexivity].
  - (* NInit, 1-9 *) subst. exists [], c, []. split; [left; reflexivity|]. split; [exact E1|]. split; [constructor|reflexivity].
  - (* NFirstDigit, '0' *) subst. exists [0x2D]. split; [right; reflexivity|reflexivity].
  - subst. exists [0x2D], c, []. split; [right; reflexivity|]. split; [exact E0|]. split; [constructor|reflexivity].
  - (* NZero, '.' *) destruct HI as (m & Hm & ->). exists m, [0x30]. split; [exact Hm|]. split; [left; reflexivity|lsolve].
  - (* NZero, e *) destruct HI as (m & Hm & ->). exists m, [0x30], [], c.
    split; [exact Hm|]. split; [left; reflexivity|]. split; [left; reflexivity|]. split; [exact E0|lsolve].
  - (* NNonZero, digit *) destruct HI as (m & d & ds & Hm & Hd & Hds & ->). exists m, d, (ds ++ [c]).
    split; [exact Hm|]. split; [exact Hd|]. split; [apply digs_snoc; [exact Hds|exact E]|lsolve].
  - (* NNonZero, '.' *) destruct HI as (m & d & ds & Hm & Hd & Hds & ->). exists m, (d :: ds).
    split; [exact Hm|]. split; [right; exists d, ds; auto|lsolve].
  - (* NNonZero, e *) destruct HI as (m & d & ds & Hm & Hd & Hds & ->). exists m, (d :: ds), [], c.
    split; [exact Hm|]. split; [right; exists d, ds; auto|]. split; [left; reflexivity|]. split; [exact E1|lsolve].
  - (* NFracFirst, digit *) destruct HI as (m & i & Hm & Hi & ->). exists m, i, [c].
    split; [exact Hm|]. split; [exact Hi|]. split; [apply digits1_one; exact E|lsolve].
  - (* NFracRest, digit *) destruct HI as (m & i & ds & Hm & Hi & Hds & ->). exists m, i, (ds ++ [c]).
    split; [exact Hm|]. split; [exact Hi|]. split; [apply digits1_snoc; [exact Hds|exact E]|lsolve].
  - (* NFracRest, e *) destruct HI as (m & i & ds & Hm & Hi & Hds & ->). exists m, i, (0x2E :: ds), c.
    split; [exact Hm|]. split; [exact Hi|]. split; [right; exists ds; auto|]. split; [exact E0|lsolve].
  - (* NExpSign, '+' *) destruct HI as (m & i & f & E' & Hm & Hi & Hf & HE & ->). exists m, i, f, E', [0x2B].
    split; [exact Hm|]. split; [exact Hi|]. split; [exact Hf|]. split; [exact HE|]. split; [left; reflexivity|lsolve].
  - (* NExpSign, '-' *) destruct HI as (m & i & f & E' & Hm & Hi & Hf & HE & ->). exists m, i, f, E', [0x2D].
    split; [exact Hm|]. split; [exact Hi|]. split; [exact Hf|]. split; [exact HE|]. split; [right; reflexivity|lsolve].
  - (* NExpSign, digit *) destruct HI as (m & i & f & E' & Hm & Hi & Hf & HE & ->). exists m, i, f, E', [], [c].
    split; [exact Hm|]. split; [exact Hi|]. split; [exact Hf|]. split; [exact HE|]. split; [left; reflexivity|].
    split; [apply digits1_one; exact E0|lsolve].
  - (* NExpFirst, digit *) destruct HI as (m & i & f & E' & sg & Hm & Hi & Hf & HE & Hsg & ->). exists m, i, f, E', sg, [c].
    split; [exact Hm|]. split; [exact Hi|]. split; [exact Hf|]. split; [exact HE|]. split; [tauto|].
    split; [apply digits1_one; exact E|lsolve].
  - (* NExpRest, digit *) destruct HI as (m & i & f & E' & sg & ds & Hm & Hi & Hf & HE & Hsg & Hds & ->).
    exists m, i, f, E', sg, (ds ++ [c]).
    split; [exact Hm|]. split; [exact Hi|]. split; [exact Hf|]. split; [exact HE|]. split; [exact Hsg|].
    split; [apply digits1_snoc; [exact Hds|exact E]|lsolve].
Qed.

Lemma num_final_jnum s buf : num_final s = true -> NInv s buf -> jnum buf.
Proof.
  unfold jnum. destruct s; cbn [num_final NInv]; intros Hf HI; try discriminate Hf.
  - destruct HI as (m & Hm & ->). exists m, [0x30], [], [].
    split; [exact Hm|]. split; [left; reflexivity|]. split; [left; reflexivity|]. split; [left; reflexivity|lsolve].
  - destruct HI as (m & d & ds & Hm & Hd & Hds & ->). exists m, (d :: ds), [], [].
    split; [exact Hm|]. split; [right; exists d, ds; auto|]. split; [left; reflexivity|]. split; [left; reflexivity|lsolve].
  - destruct HI as (m & i & ds & Hm & Hi & Hds & ->). exists m, i, (0x2E :: ds), [].
    split; [exact Hm|]. split; [exact Hi|]. split; [right; exists ds; auto|]. split; [left; reflexivity|lsolve].
  - destruct HI as (m & i & f & E' & sg & ds & Hm & Hi & Hf' & HE & Hsg & Hds & ->).
    exists m, i, f, (E' :: sg ++ ds).
    split; [exact Hm|]. split; [exact Hi|]. split; [exact Hf'|].
    split; [right; exists E', sg, ds; auto|lsolve].
Qed.

Lemma num_loop_inv ctx l : forall s buf p buf' s' l' p',
  num_loop ctx s buf l p = Ok (buf', s', l', p') ->
  NInv s buf -> Forall (fun c => c < 128) buf ->
  NInv s' buf' /\ Forall (fun c => c < 128) buf'.
Proof.
  induction l as [|[c n|] r IH]; intros s buf p buf' s' l' p' H HI HA; cbn [num_loop] in H.
  - inversion H; subst; auto.
  - destruct (num_trans ctx s c) as [s1| |] eqn:Ht; try discriminate H.
    + eapply IH; [exact H|eapply num_trans_inv; eassumption|].
      apply Forall_app; split; [exact HA|]. constructor; [|constructor].
      eapply num_trans_ascii; exact Ht.
    + inversion H; subst; auto.
  - discriminate H.
Qed.

Lemma num_loop_post ctx s buf l p : post (num_loop ctx s buf l p) (fun _ => True).
Proof.
  revert s buf p; induction l as [|[c n|] r IH]; intros s buf p; cbn [num_loop]; try exact I.
  destruct (num_trans ctx s c); [apply IH|exact I|exact I].
Qed.

Theorem number_buffer_valid : forall ctx st buf i st',
  parse_number ctx st = Ok ((buf, i), st') -> jnum buf /\ Forall (fun c => c < 128) buf.
Proof.
  intros ctx st buf i st' H. unfold parse_number in H.
  destruct (begin_fragment st) as [i0 st0].
  destruct (num_loop ctx NInit [] (rest st0) (pos st0)) as [[[[b s] l] p]|e|x|] eqn:Hl; try discriminate H.
  destruct (num_final s) eqn:Hf; [|discriminate H].
  destruct (end_fragment i0 _) as [[[] st2]|e|x|]; cbn in H; try discriminate H.
  inversion H; subst; clear H.
  destruct (num_loop_inv _ _ _ _ _ _ _ _ _ Hl) as [HI HA]; [reflexivity|constructor|].
  split; [eapply num_final_jnum; eassumption|exact HA].
Qed.

Lemma parse_number_post ctx st : post (parse_number ctx st) (fun r => Tid st (snd r)).
Proof.
  unfold parse_number. destruct (begin_fragment st) as [i st0] eqn:Hb.
  destruct (begin_spec _ _ _ Hb) as (Hi & L0 & T0).
  pose proof (num_loop_post ctx NInit [] (rest st0) (pos st0)) as Hl.
  destruct (num_loop ctx NInit [] (rest st0) (pos st0)) as [[[[b s] l] p]|e|x|]; cbn in Hl; try exact I; try contradiction.
  destruct (num_final s); [|exact I].
  eapply post_bind; [apply end_fragment_post; unfold len in *; cbn [cm]; lia|]. intros [[] st2] T2; cbn in T2.
  cbn. assert (T1 : Tid st0 {| rest := l; pos := p; cm := cm st0 |}) by (apply T_same; reflexivity).
  unfold Tid in *. tsolve.
Qed.

(* ================= strings ================= *)
(* The loop body of string_loop restated with if-chains instead of matches on literals;
   [rec] stands for the recursive call. *)
  Definition push_plain (o : opts) (rec : list N -> option (N * N) -> pstate -> res (list N * N))
      (acc : list N) (high : option (N * N)) (element_start c : N) (stn : pstate)
    : res (list N * N) :=
    match high with
    | Some (p_high, hi) =>
        if trunc o then rec (acc ++ [0xFFFD; c]) None stn
        else Err (let '(s, e) := span_new p_high element_start in EMissingLow s e hi)
    | None => rec (acc ++ [c]) None stn
    end.

  Definition esc_char (c : N) : option N :=
    if c =? 0x22 then Some 0x22 else if c =? 0x5C then Some 0x5C else if c =? 0x2F then Some 0x2F
    else if c =? 0x62 then Some 0x08 else if c =? 0x74 then Some 0x09 else if c =? 0x6E then Some 0x0A
    else if c =? 0x66 then Some 0x0C else if c =? 0x72 then Some 0x0D else None.

  Definition sl_quote (o : opts) (i : N) (acc : list N) (high : option (N * N)) (p : N) (st1 : pstate) : res (list N * N) :=
    match high with
    | Some (p_high, hi) =>
        if trunc o then
          do (_, st2) <- end_fragment i st1;
          Ok ((acc ++ [0xFFFD], i), st2)
        else Err (let '(s, e) := span_new p_high p in EMissingLow s e hi)
    | None =>
        do (_, st2) <- end_fragment i st1;
        Ok ((acc, i), st2)
    end.

  Definition sl_u (o : opts) (rec : list N -> option (N * N) -> pstate -> res (list N * N))
      (acc : list N) (high : option (N * N)) (p2 : N) (st2 : pstate) : res (list N * N) :=
    do (cp, st3) <- parse_hex4 st2;
    match high with
    | Some (p_high, hi) =>
        if is_low cp then
          if (hi <? 0xD800) || (cp <? 0xDC00) then Panic 3 else
          let c := (hi - 0xD800) * 1024 + (cp - 0xDC00) + 0x10000 in
          match (let '(s, e) := span_new p_high (pos st3) in char_or_replace o c s e) with
          | Ok c' => rec (acc ++ [c']) None st3
          | Err e => Err e
          | Panic x => Panic x
          | OutOfFuel => OutOfFuel
          end
        else if trunc o then
          if is_high cp then
            rec (acc ++ [0xFFFD]) (Some (p2, cp)) st3
          else
          match (let '(s, e) := span_new p2 (pos st3) in char_or_replace o cp s e) with
          | Ok c' => rec (acc ++ [0xFFFD; c']) None st3
          | Err e => Err e
          | Panic x => Panic x
          | OutOfFuel => OutOfFuel
          end
        else Err (let '(s, e) := span_new p2 (pos st3) in EInvalidLow s e hi cp)
    | None =>
        if is_high cp then rec acc (Some (p2, cp)) st3
        else
          match (let '(s, e) := span_new p2 (pos st3) in char_or_replace o cp s e) with
          | Ok c' => rec (acc ++ [c']) None st3
          | Err e => Err e
          | Panic x => Panic x
          | OutOfFuel => OutOfFuel
          end
    end.

  Definition sl_body (o : opts) (i : N) (rec : list N -> option (N * N) -> pstate -> res (list N * N))
      (acc : list N) (high : option (N * N)) (st : pstate) : res (list N * N) :=
    do ((p, oc), st1) <- next_char st;
    match oc with
    | None => Err (EUnexpected p None)
    | Some c =>
        if c =? 0x22 then sl_quote o i acc high p st1
        else if c =? 0x5C then
          do ((p2, oc2), st2) <- next_char st1;
          match oc2 with
          | None => Err (EUnexpected p2 None)
          | Some c2 =>
              match esc_char c2 with
              | Some x => push_plain o rec acc high (pos st) x st2
              | None => if c2 =? 0x75 then sl_u o rec acc high p2 st2 else Err (EUnexpected p2 (Some c2))
              end
          end
        else if is_control c then Err (EUnexpected p (Some c))
        else push_plain o rec acc high (pos st) c st1
    end.

Lemma string_loop_eq fuel o i acc high st :
  string_loop (S fuel) o i acc high st = sl_body o i (string_loop fuel o i) acc high st.
Proof.
  cbn [string_loop]. unfold sl_body.
  destruct (next_char st) as [[[p oc] st1]|e|x|]; try reflexivity.
  cbn [obind]. destruct oc as [c|]; [|reflexivity].
  deep c; try reflexivity.
  destruct (next_char st1) as [[[p2 oc2] st2]|e|x|]; try reflexivity.
  cbn [obind]. destruct oc2 as [c2|]; [|reflexivity].
  deep c2; reflexivity.
Qed.

Definition high_ok (h : option (N * N)) : Prop :=
  match h with Some (_, hi) => is_high hi = true | None => True end.

Lemma char_or_replace_post o cp s e : post (char_or_replace o cp s e) (fun _ => True).
Proof. unfold char_or_replace. destruct (from_u32 cp); [exact I|]. destruct (inval o); exact I. Qed.

(* the induction hypothesis on the recursive call *)
Definition rec_ok (i : N) (rec : list N -> option (N * N) -> pstate -> res (list N * N)) : Prop :=
  forall acc high st, (N.to_nat i < len st)%nat -> high_ok high ->
    post (rec acc high st) (fun r => T st (closeF i) (snd r)).

  Lemma push_plain_post o i rec (Hrec : rec_ok i rec) acc high es c st :
    (N.to_nat i < len st)%nat -> post (push_plain o rec acc high es c st) (fun r => T st (closeF i) (snd r)).
  Proof.
    intros Hi. unfold push_plain. destruct high as [[ph hi]|].
    - destruct (trunc o); [|exact I]. apply Hrec; [exact Hi|exact I].
    - apply Hrec; [exact Hi|exact I].
  Qed.

  Lemma sl_quote_post o i acc high p st :
    (N.to_nat i < len st)%nat -> post (sl_quote o i acc high p st) (fun r => T st (closeF i) (snd r)).
  Proof.
    intros Hi. unfold sl_quote. destruct high as [[ph hi]|].
    - destruct (trunc o); [|exact I].
      eapply post_bind; [apply end_fragment_post; exact Hi|]. intros [[] st2] T2; exact T2.
    - eapply post_bind; [apply end_fragment_post; exact Hi|]. intros [[] st2] T2; exact T2.
  Qed.

  Lemma cor_rec_post i rec (Hrec : rec_ok i rec) (x : outcome perr N) (k : N -> list N) st :
    (N.to_nat i < len st)%nat -> post x (fun _ => True) ->
    post (match x with
          | Ok c' => rec (k c') None st
          | Err e => Err e
          | Panic y => Panic y
          | OutOfFuel => OutOfFuel
          end) (fun r => T st (closeF i) (snd r)).
  Proof.
    intros Hi Hx. destruct x as [c'|e|y|]; cbn in Hx; try exact I; try contradiction.
    apply Hrec; [exact Hi|exact I].
  Qed.

  Lemma sl_u_post o i rec (Hrec : rec_ok i rec) acc high p2 st :
    (N.to_nat i < len st)%nat -> high_ok high ->
    post (sl_u o rec acc high p2 st) (fun r => T st (closeF i) (snd r)).
  Proof.
    intros Hi Hh. unfold sl_u.
    eapply post_bind; [apply parse_hex4_post|]. intros [cp st3] T3; cbn in T3.
    assert (Hi3 : (N.to_nat i < len st3)%nat) by (pose proof (T_len _ _ _ T3); lia).
    eapply post_Tid_pre; [exact T3|].
    destruct high as [[ph hi]|]; cbn [high_ok] in Hh.
    - destruct (is_low cp) eqn:Hlow.
      + assert (Hno : (hi <? 0xD800) || (cp <? 0xDC00) = false) by (unfold is_high, is_low in *; lia).
        rewrite Hno. unfold span_new. apply (cor_rec_post i rec Hrec _ (fun c' => acc ++ [c'])); [exact Hi3|apply char_or_replace_post].
      + destruct (trunc o); [|exact I]. destruct (is_high cp) eqn:Hhigh.
        * apply Hrec; [exact Hi3|exact Hhigh].
        * unfold span_new. apply (cor_rec_post i rec Hrec _ (fun c' => acc ++ [0xFFFD; c'])); [exact Hi3|apply char_or_replace_post].
    - destruct (is_high cp) eqn:Hhigh.
      + apply Hrec; [exact Hi3|exact Hhigh].
      + unfold span_new. apply (cor_rec_post i rec Hrec _ (fun c' => acc ++ [c'])); [exact Hi3|apply char_or_replace_post].
  Qed.

  Lemma sl_body_post o i rec (Hrec : rec_ok i rec) acc high st :
    (N.to_nat i < len st)%nat -> high_ok high ->
    post (sl_body o i rec acc high st) (fun r => T st (closeF i) (snd r)).
  Proof.
    intros Hi Hh. unfold sl_body.
    eapply post_bind; [apply next_char_post|]. intros [[p oc] st1] T1; cbn in T1.
    assert (Hi1 : (N.to_nat i < len st1)%nat) by (pose proof (T_len _ _ _ T1); lia).
    eapply post_Tid_pre; [exact T1|].
    destruct oc as [c|]; [|exact I].
    destruct (c =? 0x22); [apply sl_quote_post; exact Hi1|].
    destruct (c =? 0x5C).
    - eapply post_bind; [apply next_char_post|]. intros [[p2 oc2] st2] T2; cbn in T2.
      assert (Hi2 : (N.to_nat i < len st2)%nat) by (pose proof (T_len _ _ _ T2); lia).
      eapply post_Tid_pre; [exact T2|].
      destruct oc2 as [c2|]; [|exact I].
      destruct (esc_char c2) as [x|]; [apply push_plain_post; [exact Hrec|exact Hi2]|].
      destruct (c2 =? 0x75); [|exact I]. apply sl_u_post; [exact Hrec|exact Hi2|exact Hh].
    - destruct (is_control c); [exact I|]. apply push_plain_post; [exact Hrec|exact Hi1].
  Qed.

Lemma string_loop_post fuel o i : forall acc high st,
  (N.to_nat i < len st)%nat -> high_ok high ->
  post (string_loop fuel o i acc high st) (fun r => T st (closeF i) (snd r)).
Proof.
  induction fuel as [|fuel IH]; intros acc high st Hi Hh; [exact I|].
  rewrite string_loop_eq. apply sl_body_post; [exact IH|exact Hi|exact Hh].
Qed.

Lemma parse_string_post o st : post (parse_string o st) (fun r => Tid st (snd r)).
Proof.
  unfold parse_string. destruct (begin_fragment st) as [i st0] eqn:Hb.
  destruct (begin_spec _ _ _ Hb) as (Hi & L0 & T0).
  eapply post_bind; [apply next_char_post|]. intros [[p oc] st1] T1; cbn in T1.
  destruct oc as [c|]; [|exact I]. deep c; try exact I.
  eapply post_mono; [apply string_loop_post; [unfold Tid in *; tlen|exact I]|].
  intros [r st2] T2; cbn in *. unfold Tid in *. tsolve.
Qed.

(* ================= arrays and objects ================= *)
Lemma array_start_post st :
  post (array_start st) (fun '((empty, i), st') =>
    (N.to_nat i < len st')%nat /\ T st (fun X j => X j \/ (empty = false /\ j = i)) st').
Proof.
  unfold array_start. destruct (begin_fragment st) as [i st0] eqn:Hb.
  destruct (begin_spec _ _ _ Hb) as (Hi & L0 & T0).
  eapply post_bind; [apply next_char_post|]. intros [[p oc] st1] T1; cbn in T1.
  destruct oc as [c|]; [|exact I]. deep c; try exact I.
  eapply post_bind; [apply skip_whitespaces_post|]. intros [[] st2] T2; cbn in T2.
  eapply post_bind; [apply peek_char_post|]. intros oc2 _.
  match goal with |- post _ ?Q => assert (Hdef : post (Ok ((false, i), st2) : res (bool * N)) Q) end.
  { cbn. split; [tlen|tsolve]. }
  destruct oc2 as [c|]; [|exact Hdef]. deep c; try exact Hdef. clear Hdef.
  eapply post_bind; [apply next_char_post|]. intros [x st3] T3; cbn in T3.
  eapply post_bind; [apply end_fragment_post; tlen|]. intros [[] st4] T4; cbn in T4.
  cbn. split; [tlen|tsolve].
Qed.

Lemma array_continue_post i st :
  (N.to_nat i < len st)%nat ->
  post (array_continue i st) (fun '(item, st') => T st (fun X j => X j /\ (item = false -> j <> i)) st').
Proof.
  intros Hi. unfold array_continue.
  eapply post_bind; [apply skip_whitespaces_post|]. intros [[] st1] T1; cbn in T1.
  eapply post_bind; [apply next_char_post|]. intros [[p oc] st2] T2; cbn in T2.
  destruct oc as [c|]; [|exact I]. deep c; try exact I; lazy iota;
  lazymatch goal with
  | |- post (Ok _) _ => cbn; tsolve
  | |- post (obind (end_fragment _ _) _) _ =>
      eapply post_bind; [apply end_fragment_post; tlen|]; intros [[] st3] T3; cbn in T3;
      cbn; tsolve
  end.
Qed.

Lemma object_key_post o st :
  post (object_key o st) (fun '((k, e), st') => (N.to_nat e < len st')%nat /\ T st (openF e) st').
Proof.
  unfold object_key. destruct (begin_fragment st) as [e st0] eqn:Hb.
  destruct (begin_spec _ _ _ Hb) as (Hi & L0 & T0).
  eapply post_bind; [apply parse_string_post|]. intros [[k x] st1] T1; cbn in T1.
  eapply post_bind; [apply skip_whitespaces_post|]. intros [[] st2] T2; cbn in T2.
  eapply post_bind; [apply next_char_post|]. intros [[p oc] st3] T3; cbn in T3.
  destruct oc as [c|]; [|exact I]. deep c; try exact I.
  cbn. split; [tlen|tsolve].
Qed.

Lemma object_start_post o st :
  post (object_start o st) (fun '((s, i), st') =>
    (N.to_nat i < len st')%nat /\
    match s with
    | OEmpty => Tid st st'
    | ONonEmpty k e => (N.to_nat e < len st')%nat /\ T st (fun X j => X j \/ j = i \/ j = e) st'
    end).
Proof.
  unfold object_start. destruct (begin_fragment st) as [i st0] eqn:Hb.
  destruct (begin_spec _ _ _ Hb) as (Hi & L0 & T0).
  eapply post_bind; [apply next_char_post|]. intros [[p oc] st1] T1; cbn in T1.
  destruct oc as [c|]; [|exact I]. deep c; try exact I.
  eapply post_bind; [apply skip_whitespaces_post|]. intros [[] st2] T2; cbn in T2.
  eapply post_bind; [apply peek_char_post|]. intros oc2 _.
  match goal with |- post _ ?Q =>
    assert (Hdef : post (do ((k, e), st3) <- object_key o st2; Ok ((ONonEmpty k e, i), st3)) Q) end.
  { eapply post_bind; [apply object_key_post|]. intros [[k e] st3] [He T3].
    cbn. split; [tlen|]. split; [exact He|tsolve]. }
  destruct oc2 as [c|]; [|exact Hdef]. deep c; try exact Hdef. clear Hdef.
  eapply post_bind; [apply next_char_post|]. intros [x st3] T3; cbn in T3.
  eapply post_bind; [apply end_fragment_post; tlen|]. intros [[] st4] T4; cbn in T4.
  cbn. split; [tlen|tsolve].
Qed.

Lemma object_continue_post o i st :
  (N.to_nat i < len st)%nat ->
  post (object_continue o i st) (fun '(next, st') =>
    match next with
    | Some (k, e) => (N.to_nat e < len st')%nat /\ T st (openF e) st'
    | None => T st (closeF i) st'
    end).
Proof.
  intros Hi. unfold object_continue.
  eapply post_bind; [apply skip_whitespaces_post|]. intros [[] st1] T1; cbn in T1.
  eapply post_bind; [apply next_char_post|]. intros [[p oc] st2] T2; cbn in T2.
  destruct oc as [c|]; [|exact I]. deep c; try exact I; lazy iota;
  lazymatch goal with
  | |- post (obind (skip_whitespaces _) _) _ =>
      eapply post_bind; [apply skip_whitespaces_post|]; intros [[] st3] T3; cbn in T3;
      eapply post_bind; [apply object_key_post|]; intros [[k e] st4] [He T4];
      cbn; split; [exact He|tsolve]
  | |- post (obind (end_fragment _ _) _) _ =>
      eapply post_bind; [apply end_fragment_post; tlen|]; intros [[] st3] T3; cbn in T3;
      cbn; tsolve
  end.
Qed.

(* ================= Fragment::parse_in ================= *)
Definition Qfrag (st : pstate) : frag * N * pstate -> Prop :=
  fun '((f, i), st') =>
    match f with
    | FrValue _ => Tid st st'
    | FrBeginArray => (N.to_nat i < len st')%nat /\ T st (openF i) st'
    | FrBeginObject k e =>
        (N.to_nat i < len st')%nat /\ (N.to_nat e < len st')%nat /\ T st (fun X j => X j \/ j = i \/ j = e) st'
    end.

Lemma parse_fragment_post o ctx st : post (parse_fragment o ctx st) (Qfrag st).
Proof.
  unfold parse_fragment.
  eapply post_bind; [apply skip_whitespaces_post|]. intros [[] st1] T1; cbn in T1.
  eapply post_bind; [apply peek_char_post|]. intros oc _.
  destruct oc as [c|]; [|exact I].
  match goal with |- post _ ?Q =>
    assert (Hdef : post (if is_digit c || (c =? 0x2D) then
                           do ((n, i), st2) <- parse_number ctx st1; Ok ((FrValue (VNum n), i), st2)
                         else Err (EUnexpected (pos st1) (Some c))) Q) end.
  { destruct (is_digit c || (c =? 0x2D)); [|exact I].
    eapply post_bind; [apply parse_number_post|]. intros [[n i] st2] T2; cbn in T2. cbn. tsolve. }
  deep c; try exact Hdef; clear Hdef; lazy iota;
  lazymatch goal with
  | |- post (obind (object_start _ _) _) _ =>
      eapply post_bind; [apply object_start_post|]; intros [[s i] st2] [Hi Hs];
      destruct s as [|k e]; cbn;
      [tsolve|destruct Hs as [He T2]; split; [exact Hi|]; split; [exact He|tsolve]]
  | |- post (obind (parse_string _ _) _) _ =>
      eapply post_bind; [apply parse_string_post|]; intros [[s i] st2] T2; cbn in T2; cbn; tsolve
  | |- post (obind (parse_bool _) _) _ =>
      eapply post_bind; [apply parse_bool_post|]; intros [[b i] st2] T2; cbn in T2; cbn; tsolve
  | |- post (obind (parse_null _) _) _ =>
      eapply post_bind; [apply parse_null_post|]; intros [i st2] T2; cbn in T2; cbn; tsolve
  | |- post (obind (array_start _) _) _ =>
      eapply post_bind; [apply array_start_post|]; intros [[empty i] st2] [Hi T2];
      destruct empty; cbn; [tsolve|split; [exact Hi|tsolve]]
  end.
Qed.

(* ================= the stack machine ================= *)
Definition frame_idx (f : frame) : list N :=
  match f with
  | FArr _ i | FArrItem _ i | FObj _ i => [i]
  | FObjEntry _ i _ e => [i; e]
  end.

Definition stack_idx (K : list frame) : list N := flat_map frame_idx K.

(* every index kept in the stack is a valid code-map index, and every entry that is
   still open (volume 0) belongs to a frame of the stack *)
Definition Inv (c : config) : Prop :=
  (forall j, In j (stack_idx (stack c)) -> (N.to_nat j < len (pst c))%nat) /\
  okmap (fun j => In j (stack_idx (stack c))) (cm (pst c)).

Definition QStep (r : step_result) : Prop :=
  match r with
  | Continue c' => Inv c'
  | Finished _ _ st => okmap (fun _ => False) (cm st)
  end.

Lemma value_or_parse_post o v ctx st : post (value_or_parse o v ctx st) (Qfrag st).
Proof.
  unfold value_or_parse. destruct v as [[x i]|]; [cbn; apply T_refl|apply parse_fragment_post].
Qed.

(* establish Inv for a new configuration from a T fact *)
Lemma Inv_intro K K' pv pv' st st' (F : (N -> Prop) -> N -> Prop) :
  Inv {| stack := K; pending_value := pv; pst := st |} ->
  T st F st' ->
  (forall j, In j (stack_idx K') -> In j (stack_idx K) \/ (N.to_nat j < len st')%nat) ->
  (forall j, F (fun j => In j (stack_idx K)) j -> In j (stack_idx K')) ->
  Inv {| stack := K'; pending_value := pv'; pst := st' |}.
Proof.
  intros [Hb Hok] [HL HT] Hidx HF. unfold Inv in *; cbn [stack pst] in *. split.
  - intros j Hj. destruct (Hidx j Hj) as [Hold|Hnew]; [|exact Hnew].
    specialize (Hb j Hold). lia.
  - eapply okmap_mono; [apply HT, Hok|]. exact HF.
Qed.

Ltac inv_side :=
  unfold closeF, openF, stack_idx; cbn [flat_map frame_idx app In]; intros;
  intuition (subst; auto; congruence).

Lemma step_post o root c : Inv c -> post (step o root c) QStep.
Proof.
  destruct c as [K pv st]. intros HI. unfold step; cbn [stack pending_value pst].
  destruct K as [|[a i|a i|es i|es i k e] K].
  - eapply post_bind; [apply value_or_parse_post|]. intros [[f i] st1] HQ. cbn in HQ.
    destruct f as [v| |k e].
    + eapply post_bind; [apply skip_whitespaces_post|]. intros [[] st2] T2; cbn in T2.
      eapply post_bind; [apply next_char_post|]. intros [[p oc] st3] T3; cbn in T3.
      destruct oc as [ch|]; [exact I|]. cbn.
      assert (T13 : Tid st st3) by tsolve. destruct T13 as [_ H13]. destruct HI as [_ Hok].
      eapply okmap_mono; [apply H13, Hok|]. cbn. tauto.
    + destruct HQ as [Hi T1]. cbn.
      eapply Inv_intro; [exact HI|exact T1| |]; inv_side.
    + destruct HQ as (Hi & He & T1). cbn.
      eapply Inv_intro; [exact HI|exact T1| |]; inv_side.
  - assert (Hi : (N.to_nat i < len st)%nat) by (apply (proj1 HI); cbn; auto).
    eapply post_bind; [apply array_continue_post; exact Hi|]. intros [item st1] T1.
    destruct item; cbn; (eapply Inv_intro; [exact HI|exact T1| |]; inv_side).
  - eapply post_bind; [apply value_or_parse_post|]. intros [[f j] st1] HQ. cbn in HQ.
    destruct f as [v| |k e]; cbn.
    + eapply Inv_intro; [exact HI|exact HQ| |]; inv_side.
    + destruct HQ as [Hj T1]. eapply Inv_intro; [exact HI|exact T1| |]; inv_side.
    + destruct HQ as (Hj & He & T1). eapply Inv_intro; [exact HI|exact T1| |]; inv_side.
  - assert (Hi : (N.to_nat i < len st)%nat) by (apply (proj1 HI); cbn; auto).
    eapply post_bind; [apply object_continue_post; exact Hi|]. intros [[[k e]|] st1] HQ; cbn.
    + destruct HQ as [He T1]. eapply Inv_intro; [exact HI|exact T1| |]; inv_side.
    + eapply Inv_intro; [exact HI|exact HQ| |]; inv_side.
  - eapply post_bind; [apply value_or_parse_post|]. intros [[f j] st1] HQ. cbn in HQ.
    destruct f as [v| |k' e']; cbn.
    + assert (He : (N.to_nat e < len st1)%nat).
      { pose proof (proj1 HI e) as Hb. cbn in Hb. pose proof (T_len _ _ _ HQ). lia. }
      eapply post_bind; [apply end_fragment_post; exact He|]. intros [[] st2] T2; cbn in T2. cbn.
      assert (T02 : T st (closeF e) st2) by tsolve.
      eapply Inv_intro; [exact HI|exact T02| |]; inv_side.
    + destruct HQ as [Hj T1]. eapply Inv_intro; [exact HI|exact T1| |]; inv_side.
    + destruct HQ as (Hj & He & T1). eapply Inv_intro; [exact HI|exact T1| |]; inv_side.
Qed.

Lemma run_post fuel o root : forall c, Inv c ->
  post (run fuel o root c) (fun '(_, _, st) => okmap (fun _ => False) (cm st)).
Proof.
  induction fuel as [|fuel IH]; intros c HI; [exact I|]. cbn [run].
  pose proof (step_post o root c HI) as Hs.
  destruct (step o root c) as [[c'|v i st]|e|s|]; cbn in Hs; try exact I; try contradiction.
  - apply IH; exact Hs.
  - exact Hs.
Qed.

Lemma Inv_init s : Inv {| stack := []; pending_value := None; pst := {| rest := s; pos := 0; cm := [] |} |}.
Proof.
  split; cbn.
  - intros j [].
  - intros n e Hn. destruct n; discriminate Hn.
Qed.

Lemma parse_items_post o s :
  post (parse_items o s) (fun '(_, m) => okmap (fun _ => False) m).
Proof.
  unfold parse_items. pose proof (run_post (parse_fuel s) o CNone _ (Inv_init s)) as H.
  destruct (run (parse_fuel s) o CNone _) as [[[v i] st]|e|x|]; cbn in *; auto.
Qed.

Theorem never_panics : forall o s site, parse_items o s <> Panic site.
Proof. intros o s site. eapply post_no_panic. apply parse_items_post. Qed.

Theorem code_map_indices_valid : forall o s v m,
  parse_items o s = Ok (v, m) ->
  Forall (fun e => match e with (a, b, vol) => a <= b /\ 1 <= vol end) m.
Proof.
  intros o s v m H. pose proof (post_ok _ _ _ (parse_items_post o s) H) as Hok. cbn in Hok.
  apply Forall_forall. intros e He. apply In_nth_error in He. destruct He as [n Hn].
  destruct (Hok n e Hn) as [Hg|[]]. exact Hg.
Qed.

(* ================= corollaries and sanity checks ================= *)
(* every public entry point of Model/EntryPoints.v is parse_items up to error mapping *)
Corollary entry_points_never_panic : forall o cs bs site,
  parse_with o (chars cs) <> Panic site /\
  parse_utf8_with o cs <> Panic site /\
  parse_str_with o cs <> Panic site /\
  parse_slice_with o bs <> Panic site /\
  from_str cs <> Panic site.
Proof.
  intros o cs bs site.
  split; [apply never_panics|]. split; [apply never_panics|]. split; [apply never_panics|]. split.
  - unfold parse_slice_with, parse_with, map_err.
    pose proof (never_panics o (slice_items bs)) as H.
    destruct (parse_items o (slice_items bs)) as [a|e|x|]; try discriminate.
    intros E; inversion E; subst. exact (H site eq_refl).
  - unfold from_str, parse_str, parse_utf8, parse, parse_with.
    pose proof (never_panics strict (chars cs)) as H.
    destruct (parse_items strict (chars cs)) as [[v m]|e|x|]; try discriminate.
    intros E; inversion E; subst. exact (H site eq_refl).
Qed.

(* the leaf parsers do not panic from ANY parser state (no precondition) *)
Corollary leaves_never_panic : forall o ctx st site,
  parse_fragment o ctx st <> Panic site /\ parse_number ctx st <> Panic site /\
  parse_string o st <> Panic site /\ parse_null st <> Panic site /\ parse_bool st <> Panic site.
Proof.
  intros o ctx st site.
  split; [eapply post_no_panic, parse_fragment_post|].
  split; [eapply post_no_panic, parse_number_post|].
  split; [eapply post_no_panic, parse_string_post|].
  split; [eapply post_no_panic, parse_null_post|eapply post_no_panic, parse_bool_post].
Qed.

(* site 2 (entry_count - i underflow) is dead code: get_mut(i) already failed when i >= count *)
Lemma end_fragment_site2_dead i st : end_fragment i st <> Panic 2.
Proof.
  unfold end_fragment.
  destruct (nth_error (cm st) (N.to_nat i)) as [[[s e0] v]|] eqn:Hn; [|discriminate].
  assert (Hlt : (N.to_nat i < length (cm st))%nat) by (apply nth_error_Some; congruence).
  destruct (N.ltb_spec (N.of_nat (length (cm st))) i) as [Hc|Hc]; [lia|discriminate].
Qed.

(* with the pending-high invariant the surrogate formula of string.rs:85-86 neither underflows
   nor overflows u32, and always yields a scalar value (char::from_u32 succeeds) *)
Lemma surrogate_formula_in_range hi cp :
  is_high hi = true -> is_low cp = true ->
  0xD800 <= hi /\ 0xDC00 <= cp /\
  0x10000 <= (hi - 0xD800) * 1024 + (cp - 0xDC00) + 0x10000 <= 0x10FFFF /\
  is_scalar ((hi - 0xD800) * 1024 + (cp - 0xDC00) + 0x10000) = true.
Proof. unfold is_high, is_low, is_scalar. intros Hh Hl. lia. Qed.

(* the theorems are not vacuous: sites 1 and 3 ARE reachable from states that violate the
   invariants used above (an index beyond the code map; a pending "high" that is not a high
   surrogate), so panic freedom really depends on those invariants *)
Example site1_reachable : end_fragment 0 {| rest := []; pos := 0; cm := [] |} = Panic 1.
Proof. reflexivity. Qed.
Example site3_reachable :
  string_loop 8 flexible 0 [] (Some (0, 0x41))
    {| rest := chars (s2l "\uDC00"""); pos := 0; cm := [(0, 0, 0)] |} = Panic 3.
Proof. vm_compute. reflexivity. Qed.

Print Assumptions never_panics.
Print Assumptions number_buffer_valid.
Print Assumptions code_map_indices_valid.
