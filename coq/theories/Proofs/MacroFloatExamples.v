(* Proofs/MacroFloatExamples.v -- the executable reference for the float-spelling dependency
   (Model/MacroFloat.lexical_float) at work: how float literals of any spelling, f64 and f32,
   are re-spelt, and the C19 example documents under that reference.  (Kept out of
   Props/C19.v so that file does not load the Flocq libraries.) *)
From JsonSyntax Require Import Base.Prelude Base.Value Model.Macro Model.MacroFloat Spec.MacroDoc Props.C19.

(* 1.5, 0.1, 1e21, 1e-7, 2.675e21 are re-spelt as themselves; 100.0, 1.50, 1e5, 0.0 ... are not *)
Example float_respelling_f64 :
  map lexical_f64 [s2l "1.5"; s2l "0.1"; s2l "1e21"; s2l "1e-7"; s2l "2.675e21"; s2l "100.0"; s2l "1.50"; s2l "1e5";
                   s2l "0.00001"; s2l "0.000001"; s2l "9999999999.5"; s2l "12345678901.5";
                   s2l "0.0"; s2l "5.0"; s2l "2147483648.0"; s2l "1e10"; s2l "1E+3"; s2l "007.5"; s2l "3"]
  = [Some (s2l "1.5"); Some (s2l "0.1"); Some (s2l "1e21"); Some (s2l "1e-7"); Some (s2l "2.675e21"); Some (s2l "100");
     Some (s2l "1.5"); Some (s2l "100000");
     Some (s2l "0.00001"); Some (s2l "1e-6"); Some (s2l "9999999999.5"); Some (s2l "1.23456789015e10");
     Some (s2l "0"); Some (s2l "5"); Some (s2l "2147483648"); Some (s2l "1e10"); Some (s2l "1000"); Some (s2l "7.5"); Some (s2l "3")].
Proof. vm_compute. reflexivity. Qed.

Example float_respelling_f32 :
  map lexical_f32 [s2l "123456792"; s2l "2147483648"; s2l "16777217.0"; s2l "1e10"; s2l "1.1e10"; s2l "0.1"; s2l "2.5e-3";
                   s2l "0.0"; s2l "1"; s2l "3.4028235e38"; s2l "1e-45"; s2l "385121.625"; s2l "1e39"]
  = [Some (s2l "123456790"); Some (s2l "2147483600"); Some (s2l "16777216"); Some (s2l "1e10"); Some (s2l "1.1e10");
     Some (s2l "0.1"); Some (s2l "0.0025"); Some (s2l "0"); Some (s2l "1"); Some (s2l "3.4028235e38"); Some (s2l "1e-45");
     Some (s2l "385121.63"); None].
Proof. vm_compute. reflexivity. Qed.

(* the reference agrees with the table [ex_fmt] of Props/C19.v on the example documents *)
Example example_expand_with_reference :
  expand lexical_float ex_env 64 (tokens ex_doc) = Some (value_of ex_doc)
  /\ expand lexical_float ex_env 64 (tokens ex_floats) = Some (value_of ex_floats).
Proof. vm_compute. split; reflexivity. Qed.

Print Assumptions float_respelling_f64.
Print Assumptions float_respelling_f32.
Print Assumptions example_expand_with_reference.
