(* Proofs/MacroFloatExamples.v -- the executable reference for the float-spelling dependency
   (Model/MacroFloat.lexical_f64) at work: which literals belong to the float domain of C19,
   and the C19 example document under that reference.  (Kept out of Props/C19.v so that
   file does not load the Flocq libraries.) *)
From JsonSyntax Require Import Base.Prelude Base.Value Model.Macro Model.MacroFloat Spec.MacroDoc Props.C19.

(* 1.5, 0.1, 1e21, 1e-7, 2.675e21 are re-spelt as themselves; 100.0, 1.50, 1e5 are not *)
Example float_domain :
  map lexical_f64 [s2l "1.5"; s2l "0.1"; s2l "1e21"; s2l "1e-7"; s2l "2.675e21"; s2l "100.0"; s2l "1.50"; s2l "1e5";
                   s2l "0.00001"; s2l "0.000001"; s2l "9999999999.5"; s2l "12345678901.5"]
  = [Some (s2l "1.5"); Some (s2l "0.1"); Some (s2l "1e21"); Some (s2l "1e-7"); Some (s2l "2.675e21"); Some (s2l "100");
     Some (s2l "1.5"); Some (s2l "100000");
     Some (s2l "0.00001"); Some (s2l "1e-6"); Some (s2l "9999999999.5"); Some (s2l "1.23456789015e10")].
Proof. vm_compute. reflexivity. Qed.

Example example_expand_with_reference :
  expand lexical_f64 ex_env 64 (tokens ex_doc) = Some (value_of ex_doc).
Proof. vm_compute. reflexivity. Qed.

Print Assumptions float_domain.
Print Assumptions example_expand_with_reference.
