(* Proofs/FloatGenMinimal.v -- the shortest-digits search of Model/Serde (nks_g) selects, for a
   valid positive finite value of a binary format (prec, emax) and the acceptance test "reads
   back with the correctly rounded conversion":
     (a) a digit count k such that NO decimal with fewer significant digits rounds to the value;
     (b) among the k-digit decimals that round to the value, one closest to it; of two equally
         close ones the one with the larger digit string s (lexical's observed rule; the larger
         value whenever both lie in the same decade).
   Parametric version of Proofs/NumberMinimal.v; instantiated for binary32 at the end. *)
From Coq Require Import ZArith NArith List Bool SpecFloat Reals Lia Lra.
From Flocq Require Import Core BinarySingleNaN.
From JsonSyntax Require Import Base.Prelude Base.Float64 Spec.EcmaNumber Spec.NumSpelling Spec.SerdeTyped Model.Serde
  Proofs.Float64Proofs Proofs.NumberProofs Proofs.NumberTotal Proofs.NumberMinimal
  Proofs.FloatGenProofs Proofs.Float32Proofs Proofs.FloatGenTotal Proofs.Float32Total.
Import ListNotations.
Local Open Scope Z_scope.

(* ------------------------------------------------------------------ the search *)

Lemma search_g_min : forall chk fuel num den n k n' k' s,
  search_g chk fuel num den n k = Some (n', k', s) ->
  forall k'', k <= k'' < k' -> best_g chk num den k'' (cands num den n k'') = None.
Proof.
  induction fuel as [|f IH]; intros num den n k n' k' s H k'' Hk''; [discriminate|].
  cbn [search_g] in H.
  destruct (best_g chk num den k (cands num den n k)) as [[s0 n0]|] eqn:B.
  - injection H as <- <- <-. lia.
  - destruct (Z.eq_dec k'' k) as [->|Hne]; [exact B|].
    apply (IH _ _ _ _ _ _ _ H). lia.
Qed.

Lemma best_g_two : forall chk num den k c1 c2 c,
  best_g chk num den k [c1; c2] = Some c ->
  let d1 := dist (fst c1) (snd c1 - k) num den in
  let d2 := dist (fst c2) (snd c2 - k) num den in
  (cand_ok_g chk k c1 = true /\ cand_ok_g chk k c2 = false /\ c = c1) \/
  (cand_ok_g chk k c1 = false /\ cand_ok_g chk k c2 = true /\ c = c2) \/
  (cand_ok_g chk k c1 = true /\ cand_ok_g chk k c2 = true /\
   ((dist_lt d2 d1 = true /\ c = c2) \/
    (dist_lt d2 d1 = false /\ dist_eq d2 d1 = true /\ (fst c1 <? fst c2) = true /\ c = c2) \/
    (dist_lt d2 d1 = false /\ (dist_eq d2 d1 && (fst c1 <? fst c2)) = false /\ c = c1))).
Proof.
  intros chk num den k [s1 n1] [s2 n2] c H. cbv zeta. cbn [fst snd].
  rewrite best_g_unfold in H. cbn [fold_left] in H.
  unfold best_g_step, cand_ok_g in *.
  destruct ((10 ^ (k - 1) <=? s1) && (s1 <? 10 ^ k) && chk s1 (n1 - k)) eqn:O1,
           ((10 ^ (k - 1) <=? s2) && (s2 <? 10 ^ k) && chk s2 (n2 - k)) eqn:O2.
  - right. right. split; [reflexivity|]. split; [reflexivity|].
    cbv zeta in H.
    destruct (dist_lt _ _) eqn:L.
    + left. injection H as <-. split; reflexivity.
    + destruct (dist_eq _ _ && (s1 <? s2)) eqn:Q.
      * right. left. apply andb_true_iff in Q. destruct Q as [Q1 Q2].
        injection H as <-. repeat split; assumption.
      * right. right. injection H as <-. repeat split; reflexivity.
  - left. injection H as <-. repeat split; reflexivity.
  - right. left. injection H as <-. repeat split; reflexivity.
  - discriminate.
Qed.

Lemma best_g_two_R : forall chk num den k c1 c2 c, 0 < den ->
  best_g chk num den k [c1; c2] = Some c ->
  let D c := dist_R num den (fst c) (snd c - k) in
  (cand_ok_g chk k c1 = true /\ cand_ok_g chk k c2 = false /\ c = c1) \/
  (cand_ok_g chk k c1 = false /\ cand_ok_g chk k c2 = true /\ c = c2) \/
  (cand_ok_g chk k c1 = true /\ cand_ok_g chk k c2 = true /\
   (((D c2 < D c1)%R /\ c = c2) \/
    (D c2 = D c1 /\ fst c1 < fst c2 /\ c = c2) \/
    ((D c1 <= D c2)%R /\ (D c2 = D c1 -> fst c2 <= fst c1) /\ c = c1))).
Proof.
  intros chk num den k c1 c2 c Hden H D.
  destruct (best_g_two _ _ _ _ _ _ _ H) as [H1|[H1|[O1 [O2 H1]]]]; [now left|now right; left|].
  right. right. split; [exact O1|]. split; [exact O2|].
  destruct H1 as [[L E]|[[L [Q [Ev E]]]|[L [Q E]]]].
  - left. split; [|exact E]. now apply (dist_lt_iff num den Hden) in L.
  - right. left. split; [|split; [|exact E]].
    + now apply (dist_eq_iff num den Hden) in Q.
    + now apply Z.ltb_lt.
  - right. right. split; [|split; [|exact E]].
    + apply Rnot_lt_le. intros C. apply (dist_lt_iff num den Hden) in C.
      unfold D in C. congruence.
    + intros C. apply (dist_eq_iff num den Hden) in C.
      apply andb_false_iff in Q. destruct Q as [Q|Q]; [unfold D in C; congruence|].
      now apply Z.ltb_ge.
Qed.

(* ------------------------------------------------------------------ the value *)

Section GenMinimal.
Variables prec emax ovf unf : Z.
Context (prec_gt_0_ : Prec_gt_0 prec).
Context (prec_lt_emax_ : Prec_lt_emax prec emax).
Hypothesis Hovf : (bpow radix2 emax <= bpow radix10 ovf)%R.
Hypothesis Hunf : (bpow radix10 unf <= bpow radix2 (emin_g prec emax - 1))%R.
Variables nlo kd : Z.
Hypothesis Hlo : (bpow radix10 nlo <= bpow radix2 (emin_g prec emax))%R.
Hypothesis Hsmall : -1100 <= emin_g prec emax /\ emax <= 1100 /\ -330 <= nlo /\ ovf <= 330.
Hypothesis Hkd : 1 <= kd <= 17.
Hypothesis Hkd2 : (bpow radix10 (1 - kd) / 2 < bpow radix2 (- (prec + 1)))%R.

Notation fexpG := (fexp_g prec emax).
Notation roundG := (round_g prec emax).
Notation nearestG := (nearest_pos_g prec emax ovf unf).
Notation chkG := (chk_g prec emax ovf unf).

Local Instance fexpG_valid_M : Valid_exp fexpG.
Proof. apply fexp_g_valid. exact prec_gt_0_. Qed.

Lemma roundG_le : forall x y, (x <= y)%R -> (roundG x <= roundG y)%R.
Proof. intros x y H. unfold round_g. apply round_le; auto with typeclass_instances. Qed.

Variable m : positive.
Variable e : Z.
Hypothesis Hvalid : valid_binary prec emax (S754_finite false m e) = true.
Let d : spec_float := S754_finite false m e.
Let v : R := dbl_R m e.
Let N : Z := dbl_decade m e.
Let num : Z := nks_num m e.
Let den : Z := nks_den e.

Lemma roundG_v : roundG v = v.
Proof.
  unfold round_g. apply round_generic; auto with typeclass_instances.
  exact (val_format prec emax m e Hvalid).
Qed.

Lemma n0_g : nks_n0 m e = N.
Proof. exact (val_n0_correct prec emax ovf _ _ Hovf nlo Hlo Hsmall m e Hvalid). Qed.

Lemma ok_g_iff : forall k c, 0 < fst c ->
  (cand_ok_g (chkG d) k c = true <->
   10 ^ (k - 1) <= fst c < 10 ^ k /\ roundG (cand_val k c) = v).
Proof. exact (cand_ok_g_iff prec emax ovf unf _ _ Hovf Hunf m e Hvalid). Qed.

Lemma kdigit_vs_cands_g : forall k, 1 <= k ->
  exists c1 c2,
    cands num den N k = [c1; c2] /\
    10 ^ (k - 1) <= fst c1 < 10 ^ k /\ 10 ^ (k - 1) <= fst c2 < 10 ^ k /\
    (cand_val k c1 <= v < cand_val k c2)%R /\
    (exists fl, c1 = (fl, N) /\
       (c2 = (fl + 1, N) \/ (fl + 1 = 10 ^ k /\ c2 = (10 ^ (k - 1), N + 1)))) /\
    forall s' n', 10 ^ (k - 1) <= s' < 10 ^ k ->
      let y := (IZR s' * bpow radix10 (n' - k))%R in
      ((y <= cand_val k c1)%R \/ (cand_val k c2 <= y)%R) /\
      (roundG y = v ->
         ((y <= cand_val k c1)%R /\ cand_ok_g (chkG d) k c1 = true) \/
         ((cand_val k c2 <= y)%R /\ cand_ok_g (chkG d) k c2 = true)).
Proof.
  intros k Hk.
  pose proof (val_decade_spec prec emax _ m e Hvalid) as HN. fold v N in HN.
  destruct (cands_spec num den (nks_den_pos e) N k Hk) as
    [fl [c1 [c2 [Ec [Hfl [Hv [E1 [Hc2 [Hv2 Hstruct]]]]]]]]].
  { unfold num, den. rewrite nks_ratio. exact HN. }
  unfold num, den in Hv. rewrite nks_ratio in Hv. fold v in Hv.
  exists c1, c2. split; [exact Ec|].
  assert (Ev1 : cand_val k c1 = (IZR fl * bpow radix10 (N - k))%R) by (subst c1; reflexivity).
  assert (Hc1 : 10 ^ (k - 1) <= fst c1 < 10 ^ k) by (subst c1; exact Hfl).
  split; [exact Hc1|]. split; [exact Hc2|].
  rewrite Ev1, Hv2. split; [exact Hv|].
  split; [exists fl; split; assumption|].
  assert (Hpk : 0 < 10 ^ (k - 1)) by (apply Z.pow_pos_nonneg; lia).
  assert (Hpos : forall n', (0 < bpow radix10 (n' - k))%R) by (intros; apply bpow_gt_0).
  assert (Hpos_part : forall s' n', 10 ^ (k - 1) <= s' < 10 ^ k ->
    ((IZR s' * bpow radix10 (n' - k) <= IZR fl * bpow radix10 (N - k))%R \/
     (IZR (fl + 1) * bpow radix10 (N - k) <= IZR s' * bpow radix10 (n' - k))%R)).
  { intros s' n' Hs'.
    pose proof (kdigit_decade k s' n' Hk Hs') as [D1 D2].
    destruct (Z.lt_trichotomy n' N) as [C|[C|C]].
    - left. apply Rle_trans with (bpow radix10 (N - 1)).
      + apply Rlt_le. apply Rlt_le_trans with (1 := D2). apply bpow_le. lia.
      + apply (kdigit_decade k fl N Hk Hfl).
    - subst n'. destruct (Z_le_gt_dec s' fl) as [C|C].
      + left. apply Rmult_le_compat_r; [apply Rlt_le, Hpos|now apply IZR_le].
      + right. apply Rmult_le_compat_r; [apply Rlt_le, Hpos|apply IZR_le; lia].
    - right. apply Rle_trans with (bpow radix10 N).
      + replace N with (k + (N - k)) at 2 by lia. rewrite bpow_plus.
        apply Rmult_le_compat_r; [apply Rlt_le, Hpos|].
        rewrite <- IZR_pow10 by lia. apply IZR_le. lia.
      + apply Rle_trans with (2 := D1). apply bpow_le. lia. }
  intros s' n' Hs' y. split; [exact (Hpos_part s' n' Hs')|].
  intros Hy. destruct (Hpos_part s' n' Hs') as [C|C]; fold y in C.
  - left. split; [exact C|].
    apply ok_g_iff; [lia|]. split; [exact Hc1|].
    rewrite Ev1. apply Rle_antisym.
    + rewrite <- roundG_v. apply roundG_le. apply Hv.
    + rewrite <- Hy. now apply roundG_le.
  - right. split; [exact C|].
    apply ok_g_iff; [lia|]. split; [exact Hc2|].
    rewrite Hv2. apply Rle_antisym.
    + rewrite <- Hy. now apply roundG_le.
    + rewrite <- roundG_v. apply roundG_le. apply Rlt_le, Hv.
Qed.

(* "s * 10^(n-k) is a k-digit decimal that the correctly rounded conversion maps to the value" *)
Definition repr_g (n k s : Z) : Prop :=
  1 <= k /\ 10 ^ (k - 1) <= s < 10 ^ k /\ nearestG (Z.to_pos s) (n - k) = d.

Lemma repr_g_round : forall n k s, repr_g n k s -> roundG (IZR s * bpow radix10 (n - k)) = v.
Proof.
  intros n k s [Hk [Hs Hr]].
  assert (Hs0 : 0 < s).
  { assert (0 < 10 ^ (k - 1)) by (apply Z.pow_pos_nonneg; lia). lia. }
  now apply (rounds_to_val_iff prec emax ovf unf _ _ Hovf Hunf m e Hvalid s (n - k) Hs0) in Hr.
Qed.

Variables n k s : Z.
Hypothesis Hnks : nks_g (chkG d) m e = Some (n, k, s).

Lemma nks_g_repr : repr_g n k s.
Proof.
  destruct (nks_g_some _ _ _ _ _ _ Hnks) as [Hk [Hs Hc]].
  split; [lia|]. split; [exact Hs|].
  unfold chk_g in Hc. now apply sf_eqb_eq in Hc.
Qed.

(* (a) *)
Lemma nks_g_shortest : forall n' k' s', repr_g n' k' s' -> k <= k'.
Proof.
  intros n' k' s' Hr. pose proof (repr_g_round _ _ _ Hr) as Hy. destruct Hr as [Hk' [Hs' _]].
  destruct (Z_le_gt_dec k k') as [C|C]; [exact C|]. exfalso.
  destruct (kdigit_vs_cands_g k' Hk') as [c1 [c2 [Ec [_ [_ [_ [_ Hall]]]]]]].
  destruct (Hall s' n' Hs') as [_ Hc]. specialize (Hc Hy).
  pose proof Hnks as Hb. rewrite nks_g_unfold in Hb.
  pose proof (search_g_min _ _ _ _ _ _ _ _ _ Hb k' ltac:(lia)) as Hmin.
  rewrite n0_g in Hmin. fold num den in Hmin. rewrite Ec in Hmin.
  pose proof (best_g_none _ _ _ _ _ Hmin) as Hno.
  destruct Hc as [[_ Hc]|[_ Hc]].
  - rewrite (Hno c1 (or_introl eq_refl)) in Hc. discriminate.
  - rewrite (Hno c2 (or_intror (or_introl eq_refl))) in Hc. discriminate.
Qed.

Lemma nks_g_le_kd : k <= kd.
Proof.
  destruct (kd_digits prec emax ovf unf _ _ Hovf Hunf kd Hkd Hkd2 m e Hvalid) as [[s0 n0] [Hin Hok]].
  apply (nks_g_shortest n0 kd s0).
  unfold cand_ok_g, chk_g in Hok.
  rewrite !andb_true_iff, Z.leb_le, Z.ltb_lt in Hok. destruct Hok as [[H1 H2] H3].
  split; [lia|]. split; [lia|]. now apply sf_eqb_eq in H3.
Qed.

(* (b) *)
Lemma nks_g_closest : forall n' s', repr_g n' k s' ->
  let y := (IZR s * bpow radix10 (n - k))%R in
  let y' := (IZR s' * bpow radix10 (n' - k))%R in
  (Rabs (y - v) <= Rabs (y' - v))%R /\
  (Rabs (y - v) = Rabs (y' - v) -> (s', n') = (s, n) \/ s' < s).
Proof.
  intros n' s' Hrep y y'. pose proof (repr_g_round _ _ _ Hrep) as Hr. fold y' in Hr.
  destruct Hrep as [Hk1 [Hs' _]].
  destruct (kdigit_vs_cands_g k Hk1) as [c1 [c2 [Ec [Hc1 [Hc2 [Hv [[fl [Efl Hstruct]] Hall]]]]]]].
  destruct (Hall s' n' Hs') as [_ Hc]. specialize (Hc Hr). fold y' in Hc.
  pose proof Hnks as Hb. rewrite nks_g_unfold in Hb.
  apply search_g_some in Hb. destruct Hb as [_ Hb].
  rewrite n0_g in Hb. fold num den in Hb. rewrite Ec in Hb.
  apply (best_g_two_R _ _ _ _ _ _ _ (nks_den_pos e)) in Hb. cbv beta zeta in Hb.
  assert (Hdl : forall c, dist_R num den (fst c) (snd c - k) = Rabs (cand_val k c - v)).
  { intros c. unfold dist_R, num, den. rewrite nks_ratio. reflexivity. }
  rewrite !Hdl in Hb.
  assert (Hy : y = cand_val k (s, n)) by reflexivity.
  set (a := cand_val k c1) in *. set (b := cand_val k c2) in *.
  assert (Ha : Rabs (a - v) = (v - a)%R) by (rewrite Rabs_left1; lra).
  assert (Hbv : Rabs (b - v) = (b - v)%R) by (rewrite Rabs_pos_eq; lra).
  rewrite Ha, Hbv in Hb.
  assert (Huniq : forall c, 10 ^ (k - 1) <= fst c < 10 ^ k -> cand_val k c = y' -> (s', n') = c).
  { intros [s0 n0] Hr0 E. symmetry. apply (kdigit_unique k s0 n0 s' n' Hk1 Hr0 Hs' E). }
  rewrite Hy.
  destruct Hc as [[Hya Hok]|[Hyb Hok]].
  - assert (Hy' : Rabs (y' - v) = (v - y')%R) by (rewrite Rabs_left1; lra).
    rewrite Hy'.
    destruct Hb as [[_ [_ E]]|[[O1 _]|[_ [_ [[L E]|[[L [Ev E]]|[L [Q E]]]]]]]].
    + rewrite E. fold a. rewrite Ha. split; [lra|].
      intros T. left. apply Huniq; [exact Hc1|]. fold a. lra.
    + rewrite Hok in O1. discriminate O1.
    + rewrite E. fold b. rewrite Hbv. split; [lra|]. intros T. exfalso. lra.
    + (* the ceiling was chosen on a tie: its s is larger than the floor's *)
      rewrite E. fold b. rewrite Hbv. split; [lra|]. intros T. right.
      assert (Ec1 : (s', n') = c1) by (apply Huniq; [exact Hc1|fold a; lra]).
      apply (f_equal fst) in E. apply (f_equal fst) in Ec1. cbn [fst] in E, Ec1. lia.
    + rewrite E. fold a. rewrite Ha. split; [lra|].
      intros T. left. apply Huniq; [exact Hc1|]. fold a. lra.
  - assert (Hy' : Rabs (y' - v) = (y' - v)%R) by (rewrite Rabs_pos_eq; lra).
    rewrite Hy'.
    destruct Hb as [[_ [O2 _]]|[[_ [_ E]]|[_ [_ [[L E]|[[L [Ev E]]|[L [Q E]]]]]]]].
    + rewrite Hok in O2. discriminate O2.
    + rewrite E. fold b. rewrite Hbv. split; [lra|].
      intros T. left. apply Huniq; [exact Hc2|]. fold b. lra.
    + rewrite E. fold b. rewrite Hbv. split; [lra|].
      intros T. left. apply Huniq; [exact Hc2|]. fold b. lra.
    + rewrite E. fold b. rewrite Hbv. split; [lra|].
      intros T. left. apply Huniq; [exact Hc2|]. fold b. lra.
    + (* the floor was kept on a tie: the ceiling's s is not larger (decade roll-over) *)
      rewrite E. fold a. rewrite Ha. split; [lra|].
      intros T. right.
      assert (Ec2 : (s', n') = c2) by (apply Huniq; [exact Hc2|fold b; lra]).
      assert (Q' : fst c2 <= fst c1) by (apply Q; lra).
      assert (Hne : fst c2 <> fst c1).
      { rewrite Efl. cbn [fst].
        destruct Hstruct as [E2|[Hfull E2]]; rewrite E2; cbn [fst]; [lia|].
        assert (0 < 10 ^ (k - 1)) by (apply Z.pow_pos_nonneg; lia).
        replace k with (Z.succ (k - 1)) in Hfull at 1 by lia.
        rewrite Z.pow_succ_r in Hfull by lia. lia. }
      apply (f_equal fst) in E. apply (f_equal fst) in Ec2. cbn [fst] in E, Ec2. lia.
Qed.

End GenMinimal.

(* ------------------------------------------------------------------ binary32 *)

(* "s * 10^(n-k) is a k-digit decimal whose correctly rounded binary32 is (m, e)" *)
Local Instance prec32_gt_0_M : Prec_gt_0 24. Proof. reflexivity. Qed.
Local Instance prec32_lt_emax_M : Prec_lt_emax 24 128. Proof. reflexivity. Qed.

Definition f32_repr (m : positive) (e : Z) (n k s : Z) : Prop :=
  1 <= k /\ 10 ^ (k - 1) <= s < 10 ^ k /\
  nearest_single_pos (Z.to_pos s) (n - k) = S754_finite false m e.

Theorem nks_g_chk32_shortest : forall m e n k s,
  valid_binary 24 128 (S754_finite false m e) = true ->
  nks_g (chk32 (S754_finite false m e)) m e = Some (n, k, s) ->
  f32_repr m e n k s /\ k <= 9 /\
  (forall n' k' s', f32_repr m e n' k' s' -> k <= k') /\
  (forall n' s', f32_repr m e n' k s' ->
     (Rabs (IZR s * bpow radix10 (n - k) - dbl_R m e) <=
      Rabs (IZR s' * bpow radix10 (n' - k) - dbl_R m e))%R /\
     (Rabs (IZR s * bpow radix10 (n - k) - dbl_R m e) =
      Rabs (IZR s' * bpow radix10 (n' - k) - dbl_R m e) ->
      (s', n') = (s, n) \/ s' < s)).
Proof.
  intros m e n k s Hvalid H.
  assert (Hs : -1100 <= emin_g 24 128 /\ 128 <= 1100 /\ -330 <= -45 /\ 39 <= 330)
    by (unfold emin_g; lia).
  assert (H9 : 1 <= 9 <= 17) by lia.
  split; [|split; [|split]].
  - exact (nks_g_repr 24 128 39 (-46) m e Hvalid n k s H).
  - exact (nks_g_le_kd 24 128 39 (-46) _ _ bpow2_128_le_bpow10_39 bpow10_m46_le_bpow2_m150
             (-45) 9 bpow10_m45_le_bpow2_m149 Hs H9 ten8_gt_two24 m e Hvalid n k s H).
  - exact (nks_g_shortest 24 128 39 (-46) _ _ bpow2_128_le_bpow10_39 bpow10_m46_le_bpow2_m150
             (-45) bpow10_m45_le_bpow2_m149 Hs m e Hvalid n k s H).
  - exact (nks_g_closest 24 128 39 (-46) _ _ bpow2_128_le_bpow10_39 bpow10_m46_le_bpow2_m150
             (-45) bpow10_m45_le_bpow2_m149 Hs m e Hvalid n k s H).
Qed.

(* the digits the binary32 reference printer lays out are those of the search *)
Theorem fmt_f32_ref_digits : forall b sg m e,
  f32_wf b = true -> sf32_of_bits b = S754_finite sg m e ->
  exists n k s, nks_g (chk32 (S754_finite false m e)) m e = Some (n, k, s) /\
    fmt_f32_ref b = (if sg then [0x2D%N] else []) ++ layout_lex false n k s.
Proof.
  intros b sg m e Hwf Hb. unfold f32_wf in Hwf. apply andb_true_iff in Hwf.
  rewrite Z.leb_le, Z.ltb_lt in Hwf.
  pose proof (valid_sf32_of_bits b Hwf) as Hv. rewrite Hb in Hv.
  assert (Hv' : valid_binary 24 128 (S754_finite false m e) = true) by exact Hv.
  pose proof (nks_g_chk32_total m e Hv') as Ht.
  unfold fmt_f32_ref. rewrite Hb. cbn [fmt_sf].
  destruct (nks_g (chk32 (S754_finite false m e)) m e) as [[[n k] s]|]; [|congruence].
  exists n, k, s. split; reflexivity.
Qed.

Print Assumptions nks_g_chk32_shortest.
Print Assumptions fmt_f32_ref_digits.
