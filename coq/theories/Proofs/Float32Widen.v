(* Proofs/Float32Widen.v -- widening a binary32 to binary64 is exact, so narrowing the widened
   double gives the binary32 back:  f32_of_f64 (f64_of_f32 b) = b  for every finite pattern b
   (serde_json's Number::from_f32 is `f as f64`; comparing at binary32 precision narrows again).
   Also: the casts of Model/Serde are sign-symmetric, and the binary32 read from the decimal
   spelling of an integer is the `as f32` cast of that integer. *)
From Coq Require Import ZArith NArith List Bool SpecFloat Reals Lia Lra.
From Flocq Require Import Core BinarySingleNaN.
From JsonSyntax Require Import Base.Prelude Base.Float64 Spec.EcmaNumber Spec.NumSpelling Spec.SerdeTyped
  Model.Serde Proofs.Float64Proofs Proofs.NumberProofs Proofs.NearestDouble Proofs.FloatGenProofs
  Proofs.Float32Proofs Proofs.Float32Total Proofs.SerdeBasics.
Import ListNotations.
Local Open Scope Z_scope.

Local Instance prec32_gt_0_W : Prec_gt_0 24. Proof. reflexivity. Qed.
Local Instance prec32_lt_emax_W : Prec_lt_emax 24 128. Proof. reflexivity. Qed.
Local Instance prec64_gt_0_W : Prec_gt_0 53. Proof. reflexivity. Qed.
Local Instance prec64_lt_emax_W : Prec_lt_emax 53 1024. Proof. reflexivity. Qed.

(* a finite value of a format is determined by its sign and its real value *)
Lemma sf_unique : forall prec emax (Hp : Prec_gt_0 prec) (He : Prec_lt_emax prec emax) z1 z2,
  valid_binary prec emax z1 = true -> valid_binary prec emax z2 = true ->
  is_finite_SF z1 = true -> is_finite_SF z2 = true ->
  sign_SF z1 = sign_SF z2 -> SF2R radix2 z1 = SF2R radix2 z2 -> z1 = z2.
Proof.
  intros prec emax Hp He z1 z2 V1 V2 F1 F2 S R.
  pose proof (B2R_Bsign_inj prec emax (SF2B z1 V1) (SF2B z2 V2)) as H.
  rewrite !is_finite_SF2B, !B2R_SF2B, !Bsign_SF2B in H.
  specialize (H F1 F2 R S).
  apply (f_equal (@B2SF prec emax)) in H. now rewrite !B2SF_SF2B in H.
Qed.

(* rounding a value that is already in the format returns it *)
Lemma binary_round_exact : forall prec emax (Hp : Prec_gt_0 prec) (He : Prec_lt_emax prec emax) s m e z0,
  valid_binary prec emax z0 = true -> is_finite_SF z0 = true -> sign_SF z0 = s ->
  SF2R radix2 z0 = F2R (Float radix2 (cond_Zopp s (Zpos m)) e) ->
  binary_round prec emax mode_NE s m e = z0.
Proof.
  intros prec emax Hp He s m e z0 V F S R.
  pose proof (binary_round_correct prec emax _ _ mode_NE s m e) as H. cbv zeta in H.
  destruct H as [Hv H]. rewrite <- R in H.
  assert (Hg : generic_format radix2 (SpecFloat.fexp prec emax) (SF2R radix2 z0)).
  { rewrite <- (B2R_SF2B prec emax z0 V). apply generic_format_B2R. }
  rewrite round_generic in H by (auto with typeclass_instances).
  assert (Hlt : (Rabs (SF2R radix2 z0) < bpow radix2 emax)%R).
  { rewrite <- (B2R_SF2B prec emax z0 V). apply abs_B2R_lt_emax. }
  rewrite Rlt_bool_true in H by exact Hlt. destruct H as [H1 [H2 H3]].
  apply (sf_unique prec emax Hp He); auto. congruence.
Qed.

Lemma format32_in_format64 : forall x,
  generic_format radix2 (SpecFloat.fexp 24 128) x -> generic_format radix2 (SpecFloat.fexp 53 1024) x.
Proof.
  intros x H.
  change (SpecFloat.fexp 53 1024) with (FLT_exp (-1074) 53).
  change (SpecFloat.fexp 24 128) with (FLT_exp (-149) 24) in H.
  apply generic_format_FLT. apply FLT_format_generic in H; [|reflexivity].
  destruct H as [f Hf Hn He]. exists f; auto.
  - apply Z.lt_trans with (1 := Hn). change (radix_val radix2) with 2. lia.
  - lia.
Qed.

(* widening a finite binary32 is exact *)
Lemma widen_exact : forall s m e, valid_binary 24 128 (S754_finite s m e) = true ->
  let y := binary_round 53 1024 mode_NE s m e in
  valid_binary 53 1024 y = true /\ is_finite_SF y = true /\ sign_SF y = s /\
  SF2R radix2 y = SF2R radix2 (S754_finite s m e).
Proof.
  intros s m e V y.
  pose proof (binary_round_correct 53 1024 _ _ mode_NE s m e) as H. cbv zeta in H. fold y in H.
  destruct H as [Hv H].
  set (x := F2R (Float radix2 (cond_Zopp s (Zpos m)) e)) in *.
  assert (Ex : x = SF2R radix2 (S754_finite s m e)) by reflexivity.
  assert (Hg : generic_format radix2 (SpecFloat.fexp 24 128) x).
  { rewrite Ex, <- (B2R_SF2B 24 128 _ V). apply generic_format_B2R. }
  rewrite round_generic in H by (auto with typeclass_instances; apply format32_in_format64; exact Hg).
  assert (Hlt : (Rabs x < bpow radix2 1024)%R).
  { apply Rlt_trans with (bpow radix2 128).
    - rewrite Ex, <- (B2R_SF2B 24 128 _ V). apply abs_B2R_lt_emax.
    - apply bpow_lt. lia. }
  rewrite Rlt_bool_true in H by exact Hlt. destruct H as [H1 [H2 H3]].
  repeat split; auto.
Qed.




(* ---- binary64 bit patterns: sf_of_bits inverts sf_bits on the values of the format ---- *)

Lemma valid64_finite_cases : forall s m e, valid_binary 53 1024 (S754_finite s m e) = true ->
  (Zpos m < 4503599627370496 /\ e = -1074) \/
  (4503599627370496 <= Zpos m < 9007199254740992 /\ -1074 <= e <= 971).
Proof.
  intros s m e H. cbn [valid_binary] in H. unfold SpecFloat.bounded, SpecFloat.canonical_mantissa in H.
  rewrite Zpos_digits2_pos in H. apply andb_true_iff in H. destruct H as [H1 H2].
  apply Zeq_bool_eq in H1. apply Zle_bool_imp_le in H2.
  unfold SpecFloat.fexp, SpecFloat.emin in H1.
  pose proof (Zdigits_correct radix2 (Zpos m)) as Hd. cbn [Z.abs] in Hd.
  set (d := Zdigits radix2 (Zpos m)) in *.
  change (radix_val radix2) with 2 in Hd.
  destruct (Z_lt_le_dec d 53) as [Hlt|Hge].
  - left. split; [|lia].
    assert (2 ^ d <= 2 ^ 52) by (apply Z.pow_le_mono_r; lia).
    change (2 ^ 52) with 4503599627370496 in *. lia.
  - right. assert (d = 53) by lia. replace d with 53 in Hd by lia.
    change (2 ^ (53 - 1)) with 4503599627370496 in Hd. change (2 ^ 53) with 9007199254740992 in Hd.
    split; lia.
Qed.

Lemma sf_of_bits_bits : forall y, valid_binary 53 1024 y = true -> y <> S754_nan ->
  sf_of_bits (sf_bits y) = y.
Proof.
  intros [s|s| |s m e] V N.
  - destruct s; reflexivity.
  - destruct s; reflexivity.
  - now elim N.
  - destruct (valid64_finite_cases s m e V) as [[Hm He]|[Hm He]].
    + subst e. unfold sf_bits. change (2 ^ 52) with 4503599627370496. change (2 ^ 63) with 9223372036854775808.
      assert (Hlt : (Zpos m <? 4503599627370496) = true) by (apply Z.ltb_lt; lia). rewrite Hlt.
      unfold sf_of_bits. cbv zeta. change (2 ^ 52) with 4503599627370496. change (2 ^ 63) with 9223372036854775808.
      set (B := (if s then 9223372036854775808 else 0) + Z.pos m).
      assert (Hs : (9223372036854775808 <=? B) = s).
      { unfold B. destruct s; [apply Z.leb_le|apply Z.leb_gt]; lia. }
      assert (Hb : B mod 9223372036854775808 = Zpos m).
      { unfold B. destruct s.
        - rewrite Z.add_comm. replace 9223372036854775808 with (1 * 9223372036854775808) at 1 by lia.
          rewrite Z.mod_add by lia. apply Z.mod_small. lia.
        - apply Z.mod_small. lia. }
      rewrite Hs, Hb.
      rewrite (Z.div_small (Zpos m)) by lia. rewrite (Z.mod_small (Zpos m)) by lia.
      cbn [Z.eqb]. reflexivity.
    + unfold sf_bits. change (2 ^ 52) with 4503599627370496. change (2 ^ 63) with 9223372036854775808.
      assert (Hlt : (Zpos m <? 4503599627370496) = false) by (apply Z.ltb_ge; lia). rewrite Hlt.
      unfold sf_of_bits. cbv zeta. change (2 ^ 52) with 4503599627370496. change (2 ^ 63) with 9223372036854775808.
      set (X := (e + 1075) * 4503599627370496 + (Z.pos m - 4503599627370496)).
      assert (HX : 0 <= X < 9223372036854775808) by (unfold X; lia).
      assert (Hdiv : X / 4503599627370496 = e + 1075).
      { unfold X. rewrite Z.add_comm, Z.div_add by lia. rewrite Z.div_small by lia. lia. }
      assert (Hmod : X mod 4503599627370496 = Zpos m - 4503599627370496).
      { unfold X. rewrite Z.add_comm, Z.mod_add by lia. apply Z.mod_small. lia. }
      clearbody X.
      set (B := (if s then 9223372036854775808 else 0) + X).
      assert (Hs : (9223372036854775808 <=? B) = s).
      { unfold B. destruct s; [apply Z.leb_le|apply Z.leb_gt]; lia. }
      assert (Hb : B mod 9223372036854775808 = X).
      { unfold B. destruct s.
        - rewrite Z.add_comm. replace 9223372036854775808 with (1 * 9223372036854775808) at 1 by lia.
          rewrite Z.mod_add by lia. apply Z.mod_small. lia.
        - rewrite Z.add_0_l. apply Z.mod_small. lia. }
      rewrite Hs, Hb.
      rewrite Hdiv, Hmod.
      destruct (Z.eqb_spec (e + 1075) 2047); [lia|].
      destruct (Z.eqb_spec (e + 1075) 0); [lia|].
      f_equal; [|lia]. replace (Z.pos m - 4503599627370496 + 4503599627370496) with (Zpos m) by lia. reflexivity.
Qed.

Theorem narrow_widen : forall x, valid_binary 24 128 x = true -> is_finite_SF x = true ->
  round32 (sf_of_bits (sf_bits (Serde.round64 x))) = x.
Proof.
  intros [s|s| |s m e] V F; try discriminate.
  - destruct s; reflexivity.
  - cbn [Serde.round64]. destruct (widen_exact s m e V) as [Hv [Hf [Hs Hr]]].
    change (binary_round prec64 emax64 mode_NE s m e) with (binary_round 53 1024 mode_NE s m e).
    set (y := binary_round 53 1024 mode_NE s m e) in *.
    rewrite sf_of_bits_bits; [|exact Hv|intros E; rewrite E in Hf; discriminate].
    destruct y as [s'|s'| |s' m' e'] eqn:Ey; try discriminate.
    + (* a nonzero value cannot widen to zero *)
      exfalso. cbn [SF2R] in Hr. symmetry in Hr. apply eq_0_F2R in Hr. cbn [Fnum] in Hr.
      destruct s; discriminate.
    + cbn [round32]. cbn [sign_SF] in Hs. subst s'.
      apply (binary_round_exact 24 128 _ _); auto.
Qed.

Theorem f32_of_f64_of_f32 : forall b, f32_wf b = true -> f32_finite b = true ->
  f32_of_f64 (f64_of_f32 b) = b.
Proof.
  intros b Hwf Hfin. unfold f32_wf in Hwf. apply andb_true_iff in Hwf. rewrite Z.leb_le, Z.ltb_lt in Hwf.
  unfold f32_of_f64, f64_of_f32.
  rewrite narrow_widen.
  - apply sf32_bits_of_bits; [exact Hwf|].
    intros Hn. pose proof (finite_sf32_of_bits b Hwf) as F. rewrite Hn, Hfin in F. discriminate F.
  - now apply valid_sf32_of_bits.
  - now rewrite finite_sf32_of_bits.
Qed.

(* ---- integers: the binary32 read from the decimal spelling is the `as f32` cast ---- *)
Lemma read_digits_all : forall ds acc cnt v,
  Forall (fun c => is_dig c = true) ds -> digits_val ds acc = Some v ->
  read_digits ds acc cnt = (v, cnt + Z.of_nat (length ds), []).
Proof.
  induction ds as [|c r IH]; intros acc cnt v Hall Hv.
  - cbn in *. inversion Hv; subst. f_equal. f_equal. lia.
  - inversion Hall as [|? ? Hc Hr]; subst. cbn [digits_val read_digits] in *. rewrite Hc in *.
    rewrite (IH _ (cnt + 1) v Hr Hv). f_equal. f_equal. cbn [length]. lia.
Qed.

Lemma rd_body_digits : forall neg ds v, ds <> [] ->
  Forall (fun c => is_dig c = true) ds -> digits_val ds 0 = Some v ->
  rd_body neg ds = Some {| d_neg := neg; d_mant := v; d_exp := 0 |}.
Proof.
  intros neg ds v Hne Hall Hv. unfold rd_body.
  rewrite (read_digits_all ds 0 0 v Hall Hv).
  destruct (Z.eqb_spec (0 + Z.of_nat (length ds)) 0) as [E|E].
  - destruct ds; [congruence|cbn [length] in E; lia].
  - reflexivity.
Qed.

Lemma read_decimal_z_dec : forall z,
  read_decimal (z_dec z) = Some {| d_neg := z <? 0; d_mant := Z.abs z; d_exp := 0 |}.
Proof.
  intros z. destruct (Z.ltb_spec z 0) as [Hz|Hz].
  - unfold z_dec. destruct (Z.ltb_spec z 0); [|lia].
    assert (Hz' : 0 <= - z) by lia.
    destruct (pos_digits_spec (Z.to_nat (Z.log2 (- z))) (- z) [] (conj Hz' (lt_pow10_log2 _ Hz')))
      as (ds & Heq & Hne & Hall & Hval).
    rewrite Heq, app_nil_r. rewrite read_decimal_minus.
    rewrite (rd_body_digits true ds (- z) Hne Hall).
    + f_equal. f_equal. lia.
    + specialize (Hval [] 0). rewrite app_nil_r in Hval. rewrite Hval. cbn. reflexivity.
  - destruct (z_dec_nonneg z Hz) as (ds & -> & Hne & Hall & Hval).
    destruct ds as [|c r]; [congruence|].
    inversion Hall as [|? ? Hc Hr]; subst.
    rewrite read_decimal_other by (apply is_dig_not_minus; exact Hc).
    rewrite (rd_body_digits false (c :: r) z Hne Hall Hval).
    f_equal. f_equal. lia.
Qed.

(* the binary32 nearest to an integer, from its decimal spelling or by the `as f32` cast *)
Lemma nearest_single_int : forall (neg : bool) p,
  nearest_single {| d_neg := neg; d_mant := Zpos p; d_exp := 0 |} = round32 (S754_finite neg p 0).
Proof.
  intros neg p. cbn [round32]. unfold prec32, emax32.
  pose proof (nearest_single_correct {| d_neg := neg; d_mant := Zpos p; d_exp := 0 |} ltac:(cbn; lia)) as H1.
  cbv zeta in H1. cbn [d_neg] in H1.
  pose proof (binary_round_correct 24 128 _ _ mode_NE neg p 0) as H2. cbv zeta in H2.
  destruct H2 as [V2 H2].
  assert (Ex : decimal_R {| d_neg := neg; d_mant := Zpos p; d_exp := 0 |}
               = F2R (Float radix2 (cond_Zopp neg (Zpos p)) 0)).
  { unfold decimal_R. cbn [d_neg d_mant d_exp]. rewrite F2R_cond_Zopp. f_equal. }
  rewrite Ex in H1.
  change (round radix2 (SpecFloat.fexp 24 128) (round_mode mode_NE)) with round32R in H2.
  destruct (Rlt_bool (Rabs (round32R (F2R (Float radix2 (cond_Zopp neg (Zpos p)) 0)))) (bpow radix2 128)).
  - destruct H1 as [V1 [F1 [S1 R1]]]. destruct H2 as [R2 [F2 S2]].
    apply (sf_unique 24 128 _ _); auto; congruence.
  - rewrite H1, H2. reflexivity.
Qed.

Theorem sgl_z_dec : forall z, sgl (z_dec z) = round32 (sf_of_Z z).
Proof.
  intros z. unfold sgl. rewrite read_decimal_z_dec.
  destruct z as [|p|p].
  - reflexivity.
  - exact (nearest_single_int false p).
  - exact (nearest_single_int true p).
Qed.

Print Assumptions sf_of_bits_bits.
Print Assumptions narrow_widen.
Print Assumptions f32_of_f64_of_f32.
Print Assumptions read_decimal_z_dec.
Print Assumptions sgl_z_dec.
