(* Proofs/Float64Proofs.v -- Base/Float64.nearest_double_pos is the correctly rounded
   (round to nearest, ties to even) binary64 of m * 10^e  (N1), hence depends only on the
   value m * 10^e, not on its spelling as (m, e)  (N2).
   Axioms: only those Flocq's theorems about reals depend on. *)
From Coq Require Import ZArith List Bool SpecFloat Reals Lia Lra.
From Flocq Require Import Core BinarySingleNaN.
From JsonSyntax Require Import Base.Float64.
Local Open Scope Z_scope.

(* ------------------------------------------------------------------ digits10 *)

Lemma digits10_fuel_correct : forall fuel m acc,
  0 < m < 10 ^ Z.of_nat fuel ->
  let r := digits10_fuel fuel m acc in
  acc < r /\ 10 ^ (r - acc - 1) <= m < 10 ^ (r - acc).
Proof.
  induction fuel as [|f IH]; intros m acc Hm.
  - cbn in Hm. lia.
  - cbn [digits10_fuel]. destruct (Z.ltb_spec m 10) as [H10|H10].
    + cbv zeta. replace (acc + 1 - acc - 1) with 0 by lia.
      replace (acc + 1 - acc) with 1 by lia. cbn. lia.
    + rewrite Nat2Z.inj_succ, Z.pow_succ_r in Hm by lia.
      assert (Hd : 0 < m / 10 < 10 ^ Z.of_nat f).
      { split. apply Z.div_str_pos; lia. apply Z.div_lt_upper_bound; lia. }
      specialize (IH (m / 10) (acc + 1) Hd). cbv zeta in IH |- *.
      set (r := digits10_fuel f (m / 10) (acc + 1)) in *.
      destruct IH as [Hr [Hlo Hhi]].
      split. lia.
      replace (r - acc - 1) with (Z.succ (r - (acc + 1) - 1)) by lia.
      replace (r - acc) with (Z.succ (r - (acc + 1))) by lia.
      rewrite !Z.pow_succ_r by lia.
      pose proof (Z.div_mod m 10 ltac:(lia)) as Hdm.
      pose proof (Z.mod_pos_bound m 10 ltac:(lia)) as Hmod.
      lia.
Qed.

Lemma pow2_le_pow10 : forall a, 0 <= a -> 2 ^ a <= 10 ^ a.
Proof. intros a Ha. apply Z.pow_le_mono_l. lia. Qed.

Theorem digits10_correct : forall m, 0 < m ->
  1 <= digits10 m /\ 10 ^ (digits10 m - 1) <= m < 10 ^ digits10 m.
Proof.
  intros m Hm. unfold digits10.
  assert (Hf : 0 < m < 10 ^ Z.of_nat (Z.to_nat (Z.log2 m) + 2)).
  { split; [exact Hm|].
    pose proof (Z.log2_nonneg m) as Hl.
    rewrite Nat2Z.inj_add, Z2Nat.id by lia.
    pose proof (Z.log2_spec m Hm) as [_ Hs].
    pose proof (pow2_le_pow10 (Z.succ (Z.log2 m)) ltac:(lia)) as H2.
    assert (10 ^ Z.succ (Z.log2 m) <= 10 ^ (Z.log2 m + Z.of_nat 2)).
    { apply Z.pow_le_mono_r; lia. }
    lia. }
  pose proof (digits10_fuel_correct _ m 0 Hf) as H. cbv zeta in H.
  destruct H as [H1 H2]. rewrite !Z.sub_0_r in H2. split; [lia|exact H2].
Qed.

(* ------------------------------------------------------------------ reals *)

Definition radix10 : radix := Build_radix 10 (refl_equal _).

Definition fexp64 : Z -> Z := FLT_exp (-1074) 53.
Definition round64 (x : R) : R := round radix2 fexp64 ZnearestE x.
(* the real number  m * 10^e *)
Definition dec_R (m : positive) (e : Z) : R := (IZR (Zpos m) * bpow radix10 e)%R.

Local Instance prec64_gt_0 : Prec_gt_0 53. Proof. reflexivity. Qed.
Local Instance prec64_lt_emax : Prec_lt_emax 53 1024. Proof. reflexivity. Qed.
Local Instance fexp64_valid : Valid_exp fexp64. Proof. unfold fexp64. apply FLT_exp_valid. reflexivity. Qed.

Lemma dec_R_pos : forall m e, (0 < dec_R m e)%R.
Proof.
  intros. unfold dec_R. apply Rmult_lt_0_compat.
  apply IZR_lt. reflexivity. apply bpow_gt_0.
Qed.

Lemma IZR_pow10 : forall e, 0 <= e -> IZR (10 ^ e) = bpow radix10 e.
Proof. intros e He. exact (IZR_Zpower radix10 e He). Qed.

Lemma IZR_pow2 : forall e, 0 <= e -> IZR (2 ^ e) = bpow radix2 e.
Proof. intros e He. exact (IZR_Zpower radix2 e He). Qed.

Lemma pow10_pos : forall e, 0 < 10 ^ e \/ e < 0.
Proof. intros e. destruct (Z_lt_le_dec e 0); [right; lia|left; apply Z.pow_pos_nonneg; lia]. Qed.

Lemma round64_ge_0 : forall x, (0 <= x)%R -> (0 <= round64 x)%R.
Proof.
  intros x Hx. unfold round64.
  apply round_ge_generic; auto with typeclass_instances. apply generic_format_0.
Qed.

(* overflow shortcut: 2^1024 <= 10^309 *)
Lemma bpow2_1024_le_bpow10_309 : (bpow radix2 1024 <= bpow radix10 309)%R.
Proof.
  rewrite <- IZR_pow2, <- IZR_pow10 by lia.
  apply IZR_le. apply Z.leb_le. vm_compute. reflexivity.
Qed.

(* underflow shortcut: 10^-325 <= 2^-1075 *)
Lemma bpow10_m325_le_bpow2_m1075 : (bpow radix10 (-325) <= bpow radix2 (-1075))%R.
Proof.
  change (-325) with (- (325)). change (-1075) with (- (1075)).
  rewrite 2!bpow_opp.
  apply Rinv_le. apply bpow_gt_0.
  rewrite <- IZR_pow2, <- IZR_pow10 by lia.
  apply IZR_le. apply Z.leb_le. vm_compute. reflexivity.
Qed.

Lemma round64_overflow : forall x, (bpow radix2 1024 <= x)%R ->
  Rlt_bool (Rabs (round64 x)) (bpow radix2 1024) = false.
Proof.
  intros x Hx. apply Rlt_bool_false.
  apply Rle_trans with (2 := RRle_abs _).
  unfold round64. apply round_ge_generic; auto with typeclass_instances.
  apply generic_format_bpow. vm_compute. discriminate.
Qed.

Lemma round64_underflow : forall x, (0 < x < bpow radix2 (-1075))%R -> round64 x = 0%R.
Proof.
  intros x [H0 Hx]. unfold round64.
  assert (Hnz : x <> 0%R) by lra.
  apply round_N_small with (ex := mag radix2 x).
  - split. now apply bpow_mag_le. apply bpow_mag_gt.
  - assert (mag radix2 x <= -1075).
    { apply mag_le_bpow; auto. rewrite Rabs_pos_eq; lra. }
    unfold fexp64, FLT_exp. lia.
Qed.

(* ------------------------------------------------------------------ N1 *)

Definition nd_spec (x : R) (z : spec_float) : Prop :=
  if Rlt_bool (Rabs (round64 x)) (bpow radix2 1024) then
    valid_binary 53 1024 z = true /\ is_finite_SF z = true /\ sign_SF z = false /\
    SF2R radix2 z = round64 x
  else z = S754_infinity false.

Lemma dec_R_lower : forall m e k, 10 ^ (k - 1) <= Zpos m -> 1 <= k ->
  (bpow radix10 (k - 1 + e) <= dec_R m e)%R.
Proof.
  intros m e k Hk H1. unfold dec_R. rewrite bpow_plus.
  apply Rmult_le_compat_r. apply bpow_ge_0.
  rewrite <- IZR_pow10 by lia. now apply IZR_le.
Qed.

Lemma dec_R_upper : forall m e k, Zpos m < 10 ^ k -> 0 <= k ->
  (dec_R m e < bpow radix10 (k + e))%R.
Proof.
  intros m e k Hk H1. unfold dec_R. rewrite bpow_plus.
  apply Rmult_lt_compat_r. apply bpow_gt_0.
  rewrite <- IZR_pow10 by lia. now apply IZR_lt.
Qed.

Theorem nearest_double_pos_correct : forall m e,
  nd_spec (dec_R m e) (nearest_double_pos m e).
Proof.
  intros m e. unfold nearest_double_pos.
  destruct (digits10_correct (Zpos m) ltac:(reflexivity)) as [Hk1 [Hklo Hkhi]].
  set (k := digits10 (Zpos m)) in *. cbv zeta.
  pose proof (dec_R_pos m e) as Hpos.
  destruct (Z.leb_spec 309 (k - 1 + e)) as [Hov|Hov].
  { (* certain overflow *)
    unfold nd_spec. rewrite round64_overflow; [reflexivity|].
    apply Rle_trans with (1 := bpow2_1024_le_bpow10_309).
    apply Rle_trans with (2 := dec_R_lower m e k Hklo Hk1).
    apply bpow_le. exact Hov. }
  destruct (Z.leb_spec (k + e) (-325)) as [Hun|Hun].
  { (* certain underflow to zero *)
    unfold nd_spec. rewrite round64_underflow.
    - rewrite Rabs_R0, Rlt_bool_true by apply bpow_gt_0. repeat split; reflexivity.
    - split; [exact Hpos|].
      apply Rlt_le_trans with (2 := bpow10_m325_le_bpow2_m1075).
      apply Rlt_le_trans with (1 := dec_R_upper m e k Hkhi ltac:(lia)).
      apply bpow_le. exact Hun. }
  destruct (Z.leb_spec 0 e) as [He|He].
  { (* integer: binary_round *)
    pose proof (binary_round_correct 53 1024 _ _ mode_NE false (m * Z.to_pos (10 ^ e)) 0) as H.
    cbv zeta in H. destruct H as [Hv H].
    assert (Hx : F2R (Float radix2 (cond_Zopp false (Zpos (m * Z.to_pos (10 ^ e)))) 0) = dec_R m e).
    { unfold F2R, dec_R. cbn [Fnum Fexp cond_Zopp bpow]. rewrite Rmult_1_r.
      rewrite Pos2Z.inj_mul, mult_IZR. f_equal.
      rewrite Z2Pos.id by (apply Z.pow_pos_nonneg; lia). now apply IZR_pow10. }
    rewrite Hx in H. unfold nd_spec.
    change (round radix2 (SpecFloat.fexp 53 1024) (round_mode mode_NE)) with round64 in H.
    change prec64 with 53. change emax64 with 1024.
    destruct (Rlt_bool (Rabs (round64 (dec_R m e))) (bpow radix2 1024)).
    - destruct H as [H1 [H2 H3]]. repeat split; assumption.
    - exact H. }
  { (* fraction: division *)
    assert (Hp : 0 < 10 ^ (- e)) by (apply Z.pow_pos_nonneg; lia).
    pose proof (Bdiv_correct_aux 53 1024 _ _ mode_NE false m 0 false (Z.to_pos (10 ^ (- e))) 0) as H.
    cbv zeta in H. rewrite Z2Pos.id in H by exact Hp.
    change prec64 with 53. change emax64 with 1024.
    destruct (SFdiv_core_binary 53 1024 (Z.pos m) 0 (10 ^ (- e)) 0) as [[mz ez] lz].
    destruct H as [Hv H].
    assert (Hx : (F2R (Float radix2 (cond_Zopp false (Zpos m)) 0) /
                  F2R (Float radix2 (cond_Zopp false (10 ^ (- e))) 0))%R = dec_R m e).
    { unfold F2R, dec_R. cbn [Fnum Fexp cond_Zopp bpow]. rewrite !Rmult_1_r.
      unfold Rdiv. f_equal. rewrite IZR_pow10 by lia. now rewrite <- bpow_opp, Z.opp_involutive. }
    rewrite Hx in H. unfold nd_spec.
    change (round radix2 (SpecFloat.fexp 53 1024) (round_mode mode_NE)) with round64 in H.
    change (xorb false false) with false in H.
    destruct (Rlt_bool (Rabs (round64 (dec_R m e))) (bpow radix2 1024)).
    - destruct H as [H1 [H2 H3]]. repeat split; assumption.
    - exact H. }
Qed.

(* ------------------------------------------------------------------ N2 *)

(* A value satisfying nd_spec x is unique. *)
Lemma nd_spec_unique : forall x z1 z2, nd_spec x z1 -> nd_spec x z2 -> z1 = z2.
Proof.
  intros x z1 z2. unfold nd_spec.
  destruct (Rlt_bool (Rabs (round64 x)) (bpow radix2 1024)).
  - intros [V1 [F1 [S1 R1]]] [V2 [F2 [S2 R2]]].
    pose proof (B2R_Bsign_inj 53 1024 (SF2B z1 V1) (SF2B z2 V2)) as H.
    rewrite !is_finite_SF2B, !B2R_SF2B, !Bsign_SF2B in H.
    specialize (H F1 F2 ltac:(congruence) ltac:(congruence)).
    apply (f_equal (@B2SF 53 1024)) in H. now rewrite !B2SF_SF2B in H.
  - congruence.
Qed.

Theorem nearest_double_pos_value : forall m1 e1 m2 e2,
  dec_R m1 e1 = dec_R m2 e2 -> nearest_double_pos m1 e1 = nearest_double_pos m2 e2.
Proof.
  intros m1 e1 m2 e2 H.
  apply nd_spec_unique with (x := dec_R m1 e1).
  - apply nearest_double_pos_correct.
  - rewrite H. apply nearest_double_pos_correct.
Qed.

Lemma dec_R_shift : forall m e j, 0 <= j ->
  dec_R (m * Z.to_pos (10 ^ j)) e = dec_R m (e + j).
Proof.
  intros m e j Hj. unfold dec_R.
  rewrite Pos2Z.inj_mul, mult_IZR, Z2Pos.id by (apply Z.pow_pos_nonneg; lia).
  rewrite IZR_pow10 by exact Hj. rewrite bpow_plus. ring.
Qed.

(* integer-arithmetic forms, for clients that do not want reals *)
Theorem nearest_double_pos_shift : forall m e j, 0 <= j ->
  nearest_double_pos (m * Z.to_pos (10 ^ j)) e = nearest_double_pos m (e + j).
Proof. intros. apply nearest_double_pos_value. now apply dec_R_shift. Qed.

Theorem nearest_double_pos_Z : forall m1 e1 m2 e2 a b,
  0 <= a -> 0 <= b -> e1 - a = e2 - b ->
  Zpos m1 * 10 ^ a = Zpos m2 * 10 ^ b ->
  nearest_double_pos m1 e1 = nearest_double_pos m2 e2.
Proof.
  intros m1 e1 m2 e2 a b Ha Hb He H.
  apply nearest_double_pos_value. unfold dec_R.
  replace e1 with ((e1 - a) + a) by ring. replace e2 with ((e1 - a) + b) by lia.
  rewrite !bpow_plus, <- (IZR_pow10 a), <- (IZR_pow10 b) by assumption.
  transitivity (IZR (Zpos m1 * 10 ^ a) * bpow radix10 (e1 - a))%R.
  rewrite mult_IZR; ring. rewrite H, mult_IZR. ring.
Qed.

(* the canonical cross-multiplied premise *)
Corollary nearest_double_pos_cross : forall m1 e1 m2 e2,
  Zpos m1 * 10 ^ (e1 - Z.min e1 e2) = Zpos m2 * 10 ^ (e2 - Z.min e1 e2) ->
  nearest_double_pos m1 e1 = nearest_double_pos m2 e2.
Proof.
  intros m1 e1 m2 e2 H.
  apply nearest_double_pos_Z with (a := e1 - Z.min e1 e2) (b := e2 - Z.min e1 e2); try lia.
Qed.

(* ------------------------------------------------------------------ sf_eqb *)

Lemma sf_eqb_true_iff : forall a b, sf_eqb a b = true <-> (a = b /\ a <> S754_nan).
Proof.
  intros a b. split.
  - destruct a as [s1|s1| |s1 m1 e1], b as [s2|s2| |s2 m2 e2]; cbn; try discriminate.
    + intros H. apply eqb_prop in H. subst. split; [reflexivity|discriminate].
    + intros H. apply eqb_prop in H. subst. split; [reflexivity|discriminate].
    + rewrite !andb_true_iff. intros [[H1 H2] H3].
      apply eqb_prop in H1. apply Pos.eqb_eq in H2. apply Z.eqb_eq in H3. subst.
      split; [reflexivity|discriminate].
  - intros [<- Hn]. destruct a as [s|s| |s m e]; cbn.
    + apply eqb_reflx. + apply eqb_reflx. + now elim Hn.
    + now rewrite eqb_reflx, Pos.eqb_refl, Z.eqb_refl.
Qed.

Lemma sf_eqb_eq : forall a b, sf_eqb a b = true -> a = b.
Proof. intros a b H. now apply sf_eqb_true_iff in H. Qed.

(* ------------------------------------------------------------------ shape of results *)

(* nearest_double_pos never yields NaN, a negative value, or -infinity *)
Theorem nearest_double_pos_shape : forall m e,
  match nearest_double_pos m e with
  | S754_zero s => s = false
  | S754_infinity s => s = false
  | S754_finite s _ _ => s = false /\ valid_binary 53 1024 (nearest_double_pos m e) = true
  | S754_nan => False
  end.
Proof.
  intros m e. pose proof (nearest_double_pos_correct m e) as H. unfold nd_spec in H.
  destruct (Rlt_bool _ _).
  - destruct H as [V [F [S R]]]. destruct (nearest_double_pos m e); cbn in *; auto; discriminate.
  - rewrite H. reflexivity.
Qed.

Print Assumptions digits10_correct.
Print Assumptions nearest_double_pos_correct.
Print Assumptions nearest_double_pos_value.
Print Assumptions nearest_double_pos_shift.
Print Assumptions nearest_double_pos_Z.
Print Assumptions nearest_double_pos_cross.
Print Assumptions sf_eqb_true_iff.
Print Assumptions nearest_double_pos_shape.
