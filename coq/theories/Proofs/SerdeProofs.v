(* Proofs/SerdeProofs.v -- C16: typed data round-trips through to_value / from_value.
   The float formatting / parsing dependencies are section variables constrained by the
   stated hypotheses; after the section closes they are explicit premises of the theorem. *)
From JsonSyntax Require Import Base.Prelude Base.Value Base.Float64 Spec.EcmaNumber Spec.NumSpelling Spec.Multimap
  Spec.SerdeTyped Model.Serde Proofs.SerdeBasics.
Local Open Scope Z_scope.

Lemma ikind_eqb_eq a b : ikind_eqb a b = true -> a = b.
Proof. destruct a, b; cbn; congruence. Qed.

Ltac split_and H :=
  repeat match type of H with
         | (_ && _)%bool = true => let H1 := fresh H in apply andb_true_iff in H; destruct H as [H H1]
         end.

Lemma mem_combine f : forall (names : list str) (vs : list value),
  mem_str f names = false -> mem_str f (map fst (combine names vs)) = false.
Proof.
  induction names as [|g names IH]; intros [|w vs] H; cbn in *; auto.
  apply orb_false_iff in H. destruct H as [A B]. rewrite A. cbn. apply IH; auto.
Qed.

Section RoundTrip.
  Variable E : env.
  Variable fmt_f64 fmt_f32 : Z -> list N.

  (* reading the spelling of a finite float back along the deserializer's number path
     (integer spelling -> `as` cast, otherwise the correctly rounded f64 / f32 of the spelling)
     returns the float, with -0.0 turned into +0.0 *)
  Hypothesis H64 : forall b, f64_wf b = true -> f64_finite b = true ->
    de_f64 (num_event (fmt_f64 b)) = f64_norm b.
  Hypothesis H32 : forall b, f32_wf b = true -> f32_finite b = true ->
    de_f32 (fmt_f32 b) = f32_norm b.

  Notation tser := (Serde.tser fmt_f64 fmt_f32).
  Notation de := (Serde.de E).

  (* ---- what serialises to null ---- *)
  Lemma ser_null : forall d, tser d = Ok VNull -> null_like d = true.
  Proof.
    induction d using tsd_ind'; intros Hs; cbn [Serde.tser null_like] in *; try discriminate; auto;
      try (repeat match type of Hs with
                  | context [obind ?x _] => destruct x; cbn [obind] in Hs
                  | context [if ?c then _ else _] => destruct c eqn:?
                  | context [match ?l with [] => _ | _ => _ end] => destruct l
                  end; try discriminate; auto; fail).
  Qed.

  (* ---- keys ---- *)
  Lemma key_ser k kt : key_has_type E k kt = true ->
    exists s, key_str k = Some s /\ ser_key k = Ok s /\ de_key E kt s = Ok k /\ norm k = k
              /\ finite_floats k = true.
  Proof.
    destruct k, kt; cbn [key_has_type]; intros H; try discriminate.
    - split_and H. apply ikind_eqb_eq in H. subst k0.
      exists (z_dec z). cbn. rewrite (parse_int_z_dec k z H0). auto.
    - exists [c]. cbn. auto.
    - exists s. cbn. auto.
    - split_and H. apply str_eqb_spec in H. subst name0.
      exists variant. cbn [key_str ser_key de_key norm finite_floats].
      destruct (assoc name E) as [[]|]; try discriminate.
      destruct (assoc variant vs) as [[]|]; try discriminate. auto.
  Qed.

  Definition RT (d : tsd) : Prop :=
    forall t, has_type E d t = true -> finite_floats d = true -> known_class d = false ->
    exists v, tser d = Ok v /\
              exists n, forall fuel, (n <= fuel)%nat -> de fuel t v = Ok (norm d).

  (* ---- sequences, tuples ---- *)
  Lemma seq_rt : forall l, Forall RT l -> forall t',
    forallb (fun x => has_type E x t') l = true -> forallb finite_floats l = true ->
    existsb known_class l = false ->
    exists vs, omap (fun x => tser x) l = Ok vs /\
               exists n, forall fuel, (n <= fuel)%nat -> de_seq (de fuel) t' vs = Ok (map norm l).
  Proof.
    induction 1 as [|x l Hx _ IH]; intros t' Ht Hf Hk.
    - exists []. split; [reflexivity|]. exists O. reflexivity.
    - cbn [forallb existsb] in *. split_and Ht. split_and Hf. apply orb_false_iff in Hk. destruct Hk as [Hk Hk0].
      destruct (Hx t' Ht Hf Hk) as (v & Hv & n1 & Hn1).
      destruct (IH t' Ht0 Hf0 Hk0) as (vs & Hvs & n2 & Hn2).
      exists (v :: vs). split.
      + cbn [omap]. rewrite Hv. cbn [obind]. rewrite Hvs. reflexivity.
      + exists (Nat.max n1 n2). intros fuel Hfu. cbn [de_seq map].
        rewrite Hn1 by lia. cbn [obind]. rewrite Hn2 by lia. reflexivity.
  Qed.

  Lemma tuple_rt : forall l, Forall RT l -> forall ts,
    all2b (fun x t => has_type E x t) l ts = true -> forallb finite_floats l = true ->
    existsb known_class l = false ->
    exists vs, omap (fun x => tser x) l = Ok vs /\
               exists n, forall fuel, (n <= fuel)%nat -> de_tuple (de fuel) ts vs = Ok (map norm l).
  Proof.
    induction 1 as [|x l Hx _ IH]; intros ts Ht Hf Hk.
    - destruct ts; [|discriminate]. exists []. split; [reflexivity|]. exists O. reflexivity.
    - destruct ts as [|t ts]; [discriminate|].
      cbn [all2b forallb existsb] in *. split_and Ht. split_and Hf. apply orb_false_iff in Hk. destruct Hk as [Hk Hk0].
      destruct (Hx t Ht Hf Hk) as (v & Hv & n1 & Hn1).
      destruct (IH ts Ht0 Hf0 Hk0) as (vs & Hvs & n2 & Hn2).
      exists (v :: vs). split.
      + cbn [omap]. rewrite Hv. cbn [obind]. rewrite Hvs. reflexivity.
      + exists (Nat.max n1 n2). intros fuel Hfu. cbn [de_tuple map].
        rewrite Hn1 by lia. cbn [obind]. rewrite Hn2 by lia. reflexivity.
  Qed.

  (* ---- struct fields ---- *)
  Inductive FR (rec : ty -> value -> dres) (es : list entry) : list (str * tsd) -> list (str * ty) -> Prop :=
  | FR_nil : FR rec es [] []
  | FR_cons f x t v l fts :
      m_get_entries es f = [(f, v)] -> rec t v = Ok (norm x) -> FR rec es l fts ->
      FR rec es ((f, x) :: l) ((f, t) :: fts).

  Lemma de_fields_FR rec es l fts : FR rec es l fts ->
    de_fields rec fts es = Ok (map (fun fx => (fst fx, norm (snd fx))) l).
  Proof.
    induction 1 as [|f x t v l fts Hg Hr _ IH]; [reflexivity|].
    cbn [de_fields fst snd map]. rewrite Hg. cbn [fst snd]. rewrite Hr. cbn [obind]. rewrite IH. reflexivity.
  Qed.

  Lemma fields_rt : forall l, Forall (fun fx => RT (snd fx)) l -> forall fts,
    fields2b (fun x t => has_type E x t) l fts = true ->
    forallb (fun fx => finite_floats (snd fx)) l = true ->
    existsb (fun fx => known_class (snd fx)) l = false ->
    exists vs, omap (fun fx : str * tsd => tser (snd fx)) l = Ok vs /\ map fst l = map fst fts /\
      exists n, forall fuel, (n <= fuel)%nat -> forall pre : list entry,
        nodup_str (map fst pre ++ map fst l) = true ->
        FR (de fuel) (pre ++ combine (map fst l) vs) l fts.
  Proof.
    induction 1 as [|[f x] l Hx _ IH]; intros fts Ht Hf Hk.
    - destruct fts; [|discriminate]. exists []. split; [reflexivity|]. split; [reflexivity|].
      exists O. intros. constructor.
    - destruct fts as [|[f' t] fts]; [discriminate|].
      cbn [fields2b forallb existsb fst snd] in *. split_and Ht. split_and Hf.
      apply orb_false_iff in Hk. destruct Hk as [Hk Hk0].
      apply str_eqb_spec in Ht. subst f'.
      destruct (Hx t Ht1 Hf Hk) as (v & Hv & n1 & Hn1).
      destruct (IH fts Ht0 Hf0 Hk0) as (vs & Hvs & Hnames & n2 & Hn2).
      exists (v :: vs). split; [|split].
      + cbn [omap snd]. rewrite Hv. cbn [obind]. rewrite Hvs. reflexivity.
      + cbn [map fst]. f_equal. exact Hnames.
      + exists (Nat.max n1 n2). intros fuel Hfu pre Hnd.
        cbn [map fst combine] in *.
        destruct (nodup_str_app_cons _ _ _ Hnd) as (N1 & N2 & N3).
        apply (FR_cons _ _ f x t v).
        * apply m_get_entries_unique; auto. apply mem_combine; auto.
        * apply Hn1. lia.
        * replace (pre ++ (f, v) :: combine (map fst l) vs)
            with ((pre ++ [(f, v)]) ++ combine (map fst l) vs) by (rewrite <- app_assoc; reflexivity).
          apply Hn2; [lia|]. rewrite map_app. exact N3.
  Qed.

  (* ---- map entries ---- *)
  Lemma entries_rt : forall l, Forall (fun kv => RT (fst kv) /\ RT (snd kv)) l -> forall kt t',
    forallb (fun kv => key_has_type E (fst kv) kt && has_type E (snd kv) t') l = true ->
    forallb (fun kv => finite_floats (fst kv) && finite_floats (snd kv)) l = true ->
    existsb (fun kv => known_class (snd kv)) l = false ->
    exists vs, omap (fun kx : tsd * tsd => ser_key (fst kx)) l = Ok (keys_of l) /\
               omap (fun kx : tsd * tsd => tser (snd kx)) l = Ok vs /\
      exists n, forall fuel, (n <= fuel)%nat ->
        de_entries E (de fuel) kt t' (combine (keys_of l) vs)
        = Ok (map (fun kv => (fst kv, norm (snd kv))) l).
  Proof.
    induction 1 as [|[k x] l [_ Hx] _ IH]; intros kt t' Ht Hf Hk.
    - exists []. repeat split; try reflexivity. exists O. reflexivity.
    - cbn [forallb existsb fst snd] in *. split_and Ht. split_and Hf.
      apply orb_false_iff in Hk. destruct Hk as [Hk Hk0].
      destruct (key_ser k kt Ht) as (s & Ks & Kser & Kde & _).
      destruct (Hx t' Ht1 Hf1 Hk) as (v & Hv & n1 & Hn1).
      destruct (IH kt t' Ht0 Hf0 Hk0) as (vs & Hks & Hvs & n2 & Hn2).
      exists (v :: vs). cbn [keys_of]. rewrite Ks. split; [|split].
      + cbn [omap fst]. rewrite Kser. cbn [obind]. rewrite Hks. reflexivity.
      + cbn [omap snd]. rewrite Hv. cbn [obind]. rewrite Hvs. reflexivity.
      + exists (Nat.max n1 n2). intros fuel Hfu. cbn [combine de_entries fst snd map].
        rewrite Kde. cbn [obind]. rewrite Hn1 by lia. cbn [obind]. rewrite Hn2 by lia. reflexivity.
  Qed.

  (* ---- the serializer on structs and maps outside the token class ---- *)
  Lemma ser_struct_eq n (l : list (str * tsd)) :
    match l with fx :: _ => str_eqb (fst fx) num_token | [] => false end = false ->
    tser (SdStruct n l) = obind (ser_fields_g tser l []) (fun o => Ok (VObj o)).
  Proof.
    destruct l as [|fx r]; intros H; [reflexivity|].
    cbn [Serde.tser]. rewrite H. cbn [ser_fields_g]. destruct (tser (snd fx)); reflexivity.
  Qed.

  Lemma ser_map_eq (l : list (tsd * tsd)) :
    match l with
    | kx :: _ => match ser_key (fst kx) with Ok k => str_eqb k num_token | _ => false end
    | [] => false
    end = false ->
    tser (SdMap l) = obind (ser_entries_g ser_key tser l []) (fun o => Ok (VObj o)).
  Proof.
    destruct l as [|kx r]; intros H; [reflexivity|].
    cbn [Serde.tser ser_entries_g]. destruct (ser_key (fst kx)); cbn [obind]; try reflexivity.
    rewrite H. destruct (tser (snd kx)); reflexivity.
  Qed.

  Ltac fuel1 n :=
    exists (S n); intros [|fuel] Hfuel; [lia|]; cbn [Serde.de].

  (* ---- the round trip ---- *)
  Theorem roundtrip_RT : forall d, RT d.
  Proof.
    induction d using tsd_ind'; intros t Ht Hf Hk; destruct t; cbn [has_type] in Ht; try discriminate.
    - (* bool *) exists (VBool b). split; [reflexivity|]. fuel1 O. reflexivity.
    - (* int *) split_and Ht. apply ikind_eqb_eq in Ht. subst k0.
      exists (VNum (z_dec z)). split; [reflexivity|]. fuel1 O.
      rewrite (de_int_roundtrip k z Ht0). reflexivity.
    - (* f32 *) cbn [finite_floats known_class] in Hf, Hk. exists (VNum (fmt_f32 b)). split.
      + cbn [Serde.tser]. rewrite Hf. reflexivity.
      + fuel1 O. rewrite (H32 b Ht Hf). reflexivity.
    - (* f64 *) cbn [finite_floats] in Hf. exists (VNum (fmt_f64 b)). split.
      + cbn [Serde.tser]. rewrite Hf. reflexivity.
      + fuel1 O. rewrite (H64 b Ht Hf). reflexivity.
    - (* char *) exists (VStr [c]). split; [reflexivity|]. fuel1 O. reflexivity.
    - (* str *) exists (VStr s). split; [reflexivity|]. fuel1 O. reflexivity.
    - (* unit *) exists VNull. split; [reflexivity|]. fuel1 O. reflexivity.
    - (* unit struct *) split_and Ht. apply str_eqb_spec in Ht. subst name.
      destruct (assoc n E) as [[]|] eqn:Ea; try discriminate.
      exists VNull. split; [reflexivity|]. fuel1 O. rewrite Ea. reflexivity.
    - (* none *) exists VNull. split; [reflexivity|]. fuel1 O. reflexivity.
    - (* some *) split_and Ht. cbn [finite_floats known_class] in Hf, Hk.
      destruct (IHd t Ht Hf Hk) as (v & Hv & n & Hn).
      exists v. split; [exact Hv|]. fuel1 n.
      assert (Hnn : v <> VNull).
      { intros ->. apply ser_null in Hv. rewrite Hv in Ht0. discriminate. }
      cbn [norm]. destruct v; try congruence; rewrite Hn by lia; reflexivity.
    - (* newtype struct *) split_and Ht. apply str_eqb_spec in Ht. subst name.
      destruct (assoc n E) as [[]|] eqn:Ea; try discriminate.
      cbn [finite_floats known_class] in Hf, Hk.
      destruct (IHd t Ht0 Hf Hk) as (v & Hv & m & Hn).
      exists v. split; [exact Hv|]. fuel1 m. rewrite Ea, Hn by lia. reflexivity.
    - (* seq *) cbn [finite_floats known_class] in Hf, Hk.
      destruct (seq_rt l H t Ht Hf Hk) as (vs & Hvs & n & Hn).
      exists (VArr vs). split.
      + cbn [Serde.tser]. rewrite Hvs. reflexivity.
      + fuel1 n. rewrite Hn by lia. reflexivity.
    - (* tuple *) cbn [finite_floats known_class] in Hf, Hk.
      destruct (tuple_rt l H l0 Ht Hf Hk) as (vs & Hvs & n & Hn).
      exists (VArr vs). split.
      + cbn [Serde.tser]. rewrite Hvs. reflexivity.
      + fuel1 n. rewrite Hn by lia. reflexivity.
    - (* tuple struct *) split_and Ht. apply str_eqb_spec in Ht. subst name.
      destruct (assoc n E) as [[]|] eqn:Ea; try discriminate.
      cbn [finite_floats known_class] in Hf, Hk.
      destruct (tuple_rt l H l0 Ht0 Hf Hk) as (vs & Hvs & m & Hn).
      exists (VArr vs). split.
      + cbn [Serde.tser]. rewrite Hvs. reflexivity.
      + fuel1 m. rewrite Ea, Hn by lia. reflexivity.
    - (* map *) split_and Ht. cbn [finite_floats known_class] in Hf, Hk.
      apply orb_false_iff in Hk. destruct Hk as [Hk1 Hk2].
      destruct (entries_rt l H k t Ht Hf Hk2) as (vs & Hks & Hvs & n & Hn).
      exists (VObj (combine (keys_of l) vs)). split.
      + rewrite ser_map_eq.
        * assert (X : ser_entries_g ser_key tser l [] = Ok (combine (keys_of l) vs))
            by exact (ser_entries_ok _ _ l [] (keys_of l) vs Hks Hvs Ht0).
          rewrite X. reflexivity.
        * destruct l as [|[k0 x0] l]; [reflexivity|].
          cbn [forallb fst] in Ht. split_and Ht.
          destruct (key_ser k0 k Ht) as (s & Ks & Kser & _).
          cbn [fst]. rewrite Kser. rewrite Ks in Hk1. exact Hk1.
      + fuel1 n. rewrite Hn by lia. cbn [obind norm].
        rewrite last_wins_nodup by (rewrite keys_of_map_snd; exact Ht0). reflexivity.
    - (* struct *) split_and Ht. apply str_eqb_spec in Ht. subst name.
      destruct (assoc n E) as [[]|] eqn:Ea; try discriminate. split_and Ht0.
      cbn [finite_floats known_class] in Hf, Hk.
      apply orb_false_iff in Hk. destruct Hk as [Hk1 Hk2].
      destruct (fields_rt l H l0 Ht0 Hf Hk2) as (vs & Hvs & Hnames & m & Hn).
      exists (VObj (combine (map fst l) vs)). split.
      + rewrite ser_struct_eq by exact Hk1.
        assert (X : ser_fields_g tser l [] = Ok (combine (map fst l) vs)).
        { apply (ser_fields_ok _ l [] vs Hvs). cbn [map app]. rewrite Hnames. exact Ht1. }
        rewrite X. reflexivity.
      + fuel1 m. rewrite Ea.
        assert (Hfr : FR (de fuel) ([] ++ combine (map fst l) vs) l l0).
        { apply Hn; [lia|]. cbn [map app]. rewrite Hnames. exact Ht1. }
        cbn [app] in Hfr. rewrite (de_fields_FR _ _ _ _ Hfr). reflexivity.
    - (* unit variant *) split_and Ht. apply str_eqb_spec in Ht. subst name.
      destruct (assoc n E) as [[]|] eqn:Ea; try discriminate.
      destruct (assoc v vs) as [[]|] eqn:Ev; try discriminate.
      exists (VStr v). split; [reflexivity|]. fuel1 O. rewrite Ea, Ev. reflexivity.
    - (* newtype variant *) split_and Ht. apply str_eqb_spec in Ht. subst name.
      destruct (assoc n E) as [[]|] eqn:Ea; try discriminate.
      destruct (assoc v vs) as [[]|] eqn:Ev; try discriminate.
      cbn [finite_floats known_class] in Hf, Hk.
      destruct (IHd t Ht0 Hf Hk) as (w & Hw & m & Hn).
      exists (VObj [(v, w)]). split.
      + cbn [Serde.tser]. rewrite Hw. reflexivity.
      + fuel1 m. rewrite Ea. cbn [fst snd]. rewrite Ev, Hn by lia. reflexivity.
    - (* tuple variant *) split_and Ht. apply str_eqb_spec in Ht. subst name.
      destruct (assoc n E) as [[]|] eqn:Ea; try discriminate.
      destruct (assoc v vs) as [[]|] eqn:Ev; try discriminate.
      cbn [finite_floats known_class] in Hf, Hk.
      destruct (tuple_rt l H l0 Ht0 Hf Hk) as (ws & Hws & m & Hn).
      exists (VObj [(v, VArr ws)]). split.
      + cbn [Serde.tser]. rewrite Hws. reflexivity.
      + fuel1 m. rewrite Ea. cbn [fst snd]. rewrite Ev. rewrite Hn by lia. reflexivity.
    - (* struct variant *) split_and Ht. apply str_eqb_spec in Ht. subst name.
      destruct (assoc n E) as [[]|] eqn:Ea; try discriminate.
      destruct (assoc v vs) as [[]|] eqn:Ev; try discriminate. split_and Ht0.
      cbn [finite_floats known_class] in Hf, Hk.
      destruct (fields_rt l H l0 Ht0 Hf Hk) as (ws & Hws & Hnames & m & Hn).
      exists (VObj [(v, VObj (combine (map fst l) ws))]). split.
      + cbn [Serde.tser].
        assert (X : ser_fields_g tser l [] = Ok (combine (map fst l) ws)).
        { apply (ser_fields_ok _ l [] ws Hws). cbn [map app]. rewrite Hnames. exact Ht1. }
        change (obind (ser_fields_g tser l []) (fun o => Ok (VObj [(v, VObj o)])) = Ok (VObj [(v, VObj (combine (map fst l) ws))])).
        rewrite X. reflexivity.
      + fuel1 m. rewrite Ea. cbn [fst snd]. rewrite Ev.
        assert (Hfr : FR (de fuel) ([] ++ combine (map fst l) ws) l l0).
        { apply Hn; [lia|]. cbn [map app]. rewrite Hnames. exact Ht1. }
        cbn [app] in Hfr. rewrite (de_fields_FR _ _ _ _ Hfr). reflexivity.
  Qed.
End RoundTrip.

(* ---- non-finite floats become null ---- *)
Lemma nonfinite_null fmt_f64 fmt_f32 :
  (forall b, f64_finite b = false -> tser fmt_f64 fmt_f32 (SdF64 b) = Ok VNull) /\
  (forall b, f32_finite b = false -> tser fmt_f64 fmt_f32 (SdF32 b) = Ok VNull).
Proof. split; intros b H; cbn [tser]; rewrite H; reflexivity. Qed.

(* ---- the known class: well-typed data on which the round trip fails ---- *)
Definition k1_witness : tsd := SdMap [(SdStr num_token, SdStr (s2l "12"))].

Lemma k1_refuted :
  has_type [] k1_witness (TyMap KStr TyStr) = true /\ finite_floats k1_witness = true /\
  known_class k1_witness = true /\
  to_value_ref k1_witness = Ok (VNum (s2l "12")) /\
  forall fuel, de [] (S fuel) (TyMap KStr TyStr) (VNum (s2l "12")) = Err tt.
Proof. repeat split; vm_compute; reflexivity. Qed.

(* ---- two former findings, now inside the theorem's domain (repaired in the code) ---- *)
(* a tuple variant without fields *)
Definition tv0_env : env := [(s2l "E", DefEnum [(s2l "A", VUnit); (s2l "Z", VTuple [])])].
Definition tv0 : tsd := SdTupleVariant (s2l "E") (s2l "Z") [].
Lemma empty_tuple_variant_example :
  has_type tv0_env tv0 (TyNamed (s2l "E")) = true /\ known_class tv0 = false /\
  to_value_ref tv0 = Ok (VObj [(s2l "Z", VArr [])]) /\
  from_value_ref tv0_env 3 (TyNamed (s2l "E")) (VObj [(s2l "Z", VArr [])]) = Ok tv0.
Proof. repeat split; vm_compute; reflexivity. Qed.

(* the binary32 magnitude 7.038531e-26 = 0x15ae43fd: its shortest spelling read as a double
   (0x3ab5c87fb0000000) is an exact binary32 midpoint, so `as f32` of that double gives
   0x15ae43fe; read directly as binary32 it gives the float back *)
Definition mid_spelling : list N := s2l "7.038531e-26".
Lemma f32_midpoint_example :
  sf_bits (dbl mid_spelling) = 0x3ab5c87fb0000000 /\
  f32_of_f64 (sf_bits (dbl mid_spelling)) = 0x15ae43fe /\
  de_f32 mid_spelling = 0x15ae43fd /\
  de_f32 (0x2D%N :: mid_spelling) = 0x95ae43fd /\
  fmt_f32_ref 0x15ae43fd = mid_spelling /\
  from_value_ref [] 2 TyF32 (VNum mid_spelling) = Ok (SdF32 0x15ae43fd).
Proof. repeat split; vm_compute; reflexivity. Qed.

(* ---- the reference instances satisfy the float hypotheses on a sample (non-vacuity) ---- *)
Definition sample64 : list Z :=
  [0; 0x8000000000000000; 0x3FF0000000000000; 0x3FB999999999999A; 0x4014000000000000; 0x4202A05F20000000;
   0x41D26580B4800000; 0x43E0000000000000; 0x7FEFFFFFFFFFFFFF; 0x0000000000000001; 0x0010000000000000;
   0xC1178186851EB852; 0x3EB0C6F7A0B5ED8D; 0x433FFFFFFFFFFFFF; 0x4340000000000000; 0xFFEFFFFFFFFFFFFF].
Definition sample32 : list Z :=
  [0; 0x80000000; 0x3F800000; 0x3DCCCCCD; 0x40A00000; 0x4CEB79A3; 0x4B800000; 0x7F7FFFFF; 0x00000001;
   0x00800000; 0xC8BC0C34; 0x5F000000; 0x33D6BF95; 0xFF7FFFFF; 0x15AE43FC; 0x15AE43FD; 0x95AE43FD; 0x15AE43FE].

Lemma reference_instances_sample :
  forallb (fun b => f64_wf b && f64_finite b && (de_f64 (num_event (fmt_f64_ref b)) =? f64_norm b)) sample64 = true /\
  forallb (fun b => f32_wf b && f32_finite b && (de_f32 (fmt_f32_ref b) =? f32_norm b)) sample32 = true.
Proof. split; vm_compute; reflexivity. Qed.

Print Assumptions roundtrip_RT.
Print Assumptions k1_refuted.
Print Assumptions f32_midpoint_example.
Print Assumptions reference_instances_sample.
