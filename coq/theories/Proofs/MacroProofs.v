(* Proofs/MacroProofs.v -- C19: on every document of the domain the rule model of `json!`
   (Model/Macro.v) builds exactly the value the document denotes, and the parser model
   returns that same value on the corresponding JSON text. *)
From JsonSyntax Require Import Base.Prelude Base.Value Base.Unicode Model.Macro Spec.MacroDoc
  Spec.Minimal Spec.Grammar Model.Parser Model.EntryPoints Model.Printer
  Proofs.PrintGrammar Proofs.RoundTrip Proofs.PrinterTheorems.

(* ---------- nested induction on documents ---------- *)
Section DocInd.
  Variable P : doc -> Prop.
  Hypothesis Hnull : P DNull.
  Hypothesis Hbool : forall b, P (DBool b).
  Hypothesis Hint : forall ty z, P (DInt ty z).
  Hypothesis Hfloat : forall n s sfx r, P (DFloat n s sfx r).
  Hypothesis Hstr : forall s, P (DStr s).
  Hypothesis Harr : forall l tc, Forall P l -> P (DArr l tc).
  Hypothesis Hobj : forall l tc, Forall (fun e => P (dval e)) l -> P (DObj l tc).

  Fixpoint doc_ind' (d : doc) : P d :=
    match d with
    | DNull => Hnull
    | DBool b => Hbool b
    | DInt ty z => Hint ty z
    | DFloat n s sfx r => Hfloat n s sfx r
    | DStr s => Hstr s
    | DArr l tc =>
        Harr l tc ((fix go (l : list doc) : Forall P l :=
                      match l with
                      | [] => Forall_nil _
                      | x :: r => Forall_cons _ (doc_ind' x) (go r)
                      end) l)
    | DObj l tc =>
        Hobj l tc ((fix go (l : list (kform * list N * doc)) : Forall (fun e => P (dval e)) l :=
                      match l with
                      | [] => Forall_nil _
                      | x :: r => Forall_cons _ (doc_ind' (dval x)) (go r)
                      end) l)
    end.
End DocInd.

(* ---------- the accumulator ---------- *)
Lemma emit_trail_app es e : emit_trail (es ++ [e]) = emit_trail es ++ [TNt e; TPunct PComma].
Proof. unfold emit_trail. rewrite flat_map_app. cbn. reflexivity. Qed.

Lemma emit_trail_cons a es : emit_trail (a :: es) = TNt a :: TPunct PComma :: emit_trail es.
Proof. reflexivity. Qed.

Lemma elems_trail_emit es : elems_trail (emit_trail es) = Some es.
Proof.
  induction es as [|a es IH]; [reflexivity|].
  rewrite emit_trail_cons. cbn [elems_trail]. rewrite IH. reflexivity.
Qed.

Lemma elems_trail_open es e : elems_trail (emit_trail es ++ [TNt e]) = None.
Proof.
  induction es as [|a es IH]; [reflexivity|].
  rewrite emit_trail_cons. cbn [app elems_trail]. rewrite IH. reflexivity.
Qed.

Lemma elems_sep_open es e : elems_sep (emit_trail es ++ [TNt e]) = Some (es ++ [e]).
Proof.
  induction es as [|a es IH]; [reflexivity|].
  rewrite emit_trail_cons. cbn [app elems_sep].
  destruct (emit_trail es ++ [TNt e]) as [|x r] eqn:E.
  - destruct es; discriminate E.
  - rewrite IH. reflexivity.
Qed.

Lemma elems_sep_nil : elems_sep [] = Some [].
Proof. reflexivity. Qed.

(* ---------- fuel ---------- *)
Section Fuel.
  Variable fmt : fty -> list N -> option (list N).
  Variable env : list N -> option (list N).
  Notation rn := (mrun fmt env).

  Lemma run_S f inv :
    rn (S f) inv =
    match first_match rules inv with
    | None => None
    | Some OError => None
    | Some (OInvoke inv') => rn f inv'
    | Some (OVec es) =>
        match map_opt (ev_elem (rn f)) es with Some l => Some (RVec l) | None => None end
    | Some (OFromVec es) =>
        match map_opt (ev_entry (rn f)) es with Some l => Some (RObj l) | None => None end
    | Some (OKeyInto e) => match key_of_expr env e with Some k => Some (RKey k) | None => None end
    | Some ONull => Some (RVal VNull)
    | Some (OBool b) => Some (RVal (VBool b))
    | Some (OTryFrom e) => match try_from_expr fmt e with Some v => Some (RVal v) | None => None end
    | Some (OFrom e) => match from_expr fmt e with Some v => Some (RVal v) | None => None end
    | Some (OArray None) => Some (RVal (VArr []))
    | Some (OArray (Some inv')) =>
        match rn f inv' with Some (RVec l) => Some (RVal (VArr l)) | _ => None end
    | Some (OObject None) => Some (RVal (VObj []))
    | Some (OObject (Some inv')) =>
        match rn f inv' with Some (RObj l) => Some (RVal (VObj l)) | _ => None end
    end.
  Proof. reflexivity. Qed.

  Lemma map_opt_ext_some {A B} (f g : A -> option B) l r :
    (forall x y, f x = Some y -> g x = Some y) -> map_opt f l = Some r -> map_opt g l = Some r.
  Proof.
    intros H. revert r. induction l as [|x l IH]; intros r; cbn [map_opt]; [auto|].
    destruct (f x) as [y|] eqn:Ex; [|discriminate].
    destruct (map_opt f l) as [ys|] eqn:El; [|discriminate].
    intros E. rewrite (H _ _ Ex), (IH _ eq_refl). exact E.
  Qed.

  Lemma run_mono1 : forall f inv r, rn f inv = Some r -> rn (S f) inv = Some r.
  Proof.
    induction f as [|f IH]; intros inv r; [discriminate|].
    rewrite (run_S (S f)), (run_S f).
    destruct (first_match rules inv) as [o|]; [|auto].
    destruct o as [|inv'|es|es|e| |b|e|e|[inv'|]|[inv'|]]; auto.
    - destruct (map_opt (ev_elem (rn f)) es) as [l|] eqn:E; [|discriminate].
      assert (H : forall x y, ev_elem (rn f) x = Some y -> ev_elem (rn (S f)) x = Some y).
      { intros [| | | |ts|] y; cbn [ev_elem]; try discriminate. unfold as_val.
        destruct (rn f ts) as [q|] eqn:Eq; [|discriminate]. rewrite (IH _ _ Eq). auto. }
      rewrite (map_opt_ext_some _ _ _ _ H E). auto.
    - destruct (map_opt (ev_entry (rn f)) es) as [l|] eqn:E; [|discriminate].
      assert (H : forall x y, ev_entry (rn f) x = Some y -> ev_entry (rn (S f)) x = Some y).
      { intros [| | | | |k v] y; cbn [ev_entry]; try discriminate. unfold as_val.
        destruct (rn f (key_inv k)) as [q|] eqn:Eq; [|discriminate]. rewrite (IH _ _ Eq).
        destruct (rn f v) as [q'|] eqn:Eq'; [rewrite (IH _ _ Eq'); auto|].
        destruct q; discriminate. }
      rewrite (map_opt_ext_some _ _ _ _ H E). auto.
    - destruct (rn f inv') as [q|] eqn:Eq; [|discriminate]. rewrite (IH _ _ Eq). auto.
    - destruct (rn f inv') as [q|] eqn:Eq; [|discriminate]. rewrite (IH _ _ Eq). auto.
  Qed.

  Lemma run_mono f f' inv r : (f <= f')%nat -> rn f inv = Some r -> rn f' inv = Some r.
  Proof.
    intros Hle H. induction Hle as [|f' _ IH]; [exact H|]. apply run_mono1. exact IH.
  Qed.

  Lemma run_invoke f inv inv' :
    first_match rules inv = Some (OInvoke inv') -> rn (S f) inv = rn f inv'.
  Proof. intros H. rewrite run_S, H. reflexivity. Qed.
End Fuel.

(* ---------- which rule fires: the array muncher ---------- *)
(* the argument the literal rules hand to json!( ): an interpolated literal *)
Definition arg_of (d : doc) : list tt :=
  match d with
  | DInt ty z => [TNt (if (z <? 0)%Z then ENeg (LInt (Z.abs_N z) ty) else ELit (LInt (Z.abs_N z) ty))]
  | DFloat neg s sfx _ => [TNt (if neg then ENeg (LFloat s sfx) else ELit (LFloat s sfx))]
  | DStr s => [TNt (ELit (LStr s))]
  | _ => tokens d
  end.

Lemma arr_trail_emit es rest k : arr_trail (arr_inv (emit_trail es) rest) k = k es rest.
Proof. unfold arr_trail, arr_inv, is_arr. rewrite elems_trail_emit. reflexivity. Qed.

Lemma arr_trail_open es e rest k : arr_trail (arr_inv (emit_trail es ++ [TNt e]) rest) k = NoMatch.
Proof. unfold arr_trail, arr_inv, is_arr. rewrite elems_trail_open. reflexivity. Qed.

Ltac arr_rules :=
  unfold rules, first_match, rA1, rA2, rA3, rA4, rA5, rA6, rA7, rA8, rA9, rA10, rA11, rA12;
  rewrite ?arr_trail_emit, ?arr_trail_open.

(* next element: one of rA3..rA8 *)
Lemma elem_step d es tail :
  first_match rules (arr_inv (emit_trail es) (tokens d ++ tail)) = Some (arr_push es (arg_of d) tail).
Proof.
  destruct d as [|[|]|ty z|[|] s sfx r|s|l tc|l tc]; cbn [tokens arg_of]; try destruct (z <? 0)%Z;
    arr_rules; reflexivity.
Qed.

(* `,` after the most recent element: rA11 *)
Lemma comma_step es e rest :
  first_match rules (arr_inv (emit_trail es ++ [TNt e]) (TPunct PComma :: rest))
  = Some (OInvoke (arr_inv (emit_trail (es ++ [e])) rest)).
Proof.
  arr_rules. unfold is_arr, arr_inv. rewrite elems_sep_open. reflexivity.
Qed.

(* done, no trailing comma: rA2 *)
Lemma arr_done_open es e :
  first_match rules (arr_inv (emit_trail es ++ [TNt e]) []) = Some (OVec (es ++ [e])).
Proof.
  arr_rules. unfold is_arr, arr_inv. rewrite elems_trail_open, elems_sep_open. reflexivity.
Qed.

(* done, trailing comma (or nothing at all): rA1 *)
Lemma arr_done_trail es :
  first_match rules (arr_inv (emit_trail es) []) = Some (OVec es).
Proof.
  arr_rules. unfold is_arr, arr_inv. rewrite elems_trail_emit. reflexivity.
Qed.

(* ---------- which rule fires: the object muncher ---------- *)
(* the key as the muncher holds it once absorbed: the raw token (rO18) or, for a
   parenthesised key, the interpolated expression (rO16) *)
Definition key_arg (kf : kform) (k : list N) : list tt :=
  match kf with
  | KLit => [TLit (LStr k)]
  | KParen => [TNt (ELit (LStr k))]
  | KVar x => [TIdent (IVar x)]
  | KParenVar x => [TNt (EVar x)]
  end.

Lemma obj_trail_emit es key rest cp k :
  obj_trail (obj_inv (emit_trail es) key rest cp) k = k es key rest (TGroup Paren cp).
Proof. unfold obj_trail, obj_inv, is_obj. rewrite elems_trail_emit. reflexivity. Qed.

Lemma obj_trail_open es e key rest cp k :
  obj_trail (obj_inv (emit_trail es ++ [TNt e]) key rest cp) k = NoMatch.
Proof. unfold obj_trail, obj_inv, is_obj. rewrite elems_trail_open. reflexivity. Qed.

Ltac obj_rules :=
  unfold rules, first_match, rA1, rA2, rA3, rA4, rA5, rA6, rA7, rA8, rA9, rA10, rA11, rA12,
    rO1, rO2, rK1, rK2, rO3, rO4, rO5, rO6, rO7, rO8, rO9, rO10, rO11, rO12, rO13, rO14, rO15,
    rO16, rO17, rO18, obj_value;
  rewrite ?obj_trail_emit, ?obj_trail_open.

(* the key is absorbed in one step: rO18 (literal, variable) or rO16 (parenthesised) *)
Lemma key_step kf k es X cp :
  first_match rules (obj_inv (emit_trail es) [] (key_tokens kf k ++ TPunct PColon :: X) cp)
  = Some (OInvoke (obj_inv (emit_trail es) (key_arg kf k) (TPunct PColon :: X) (TPunct PColon :: X))).
Proof.
  destruct kf as [| |x|x]; cbn [key_tokens key_arg app]; obj_rules; reflexivity.
Qed.

(* next value: one of rO3..rO8 *)
Lemma value_step d es t ks tail cp :
  first_match rules (obj_inv (emit_trail es) (t :: ks) (TPunct PColon :: tokens d ++ tail) cp)
  = Some (obj_push es (t :: ks) (arg_of d) tail).
Proof.
  destruct d as [|[|]|ty z|[|] s sfx r|s|l tc|l tc]; cbn [tokens arg_of]; try destruct (z <? 0)%Z;
    obj_rules; reflexivity.
Qed.

(* `,` after the most recent entry: rO11 *)
Lemma obj_comma_step es e rest cp :
  first_match rules (obj_inv (emit_trail es ++ [TNt e]) [] (TPunct PComma :: rest) cp)
  = Some (OInvoke (obj_inv (emit_trail (es ++ [e])) [] rest rest)).
Proof.
  obj_rules. unfold is_obj, obj_inv. rewrite elems_sep_open. reflexivity.
Qed.

(* done, no trailing comma: rO2 *)
Lemma obj_done_open es e :
  first_match rules (obj_inv (emit_trail es ++ [TNt e]) [] [] []) = Some (OFromVec (es ++ [e])).
Proof.
  obj_rules. unfold is_obj, obj_inv. rewrite elems_trail_open, elems_sep_open. reflexivity.
Qed.

(* done, trailing comma: rO1 *)
Lemma obj_done_trail es :
  first_match rules (obj_inv (emit_trail es) [] [] []) = Some (OFromVec es).
Proof.
  obj_rules. unfold is_obj, obj_inv. rewrite elems_trail_emit. reflexivity.
Qed.

(* ---------- evaluation ---------- *)
Lemma map_opt_Forall2 {A B} (g : A -> option B) l r :
  Forall2 (fun x y => g x = Some y) l r -> map_opt g l = Some r.
Proof.
  induction 1 as [|x y l r Hx _ IH]; [reflexivity|]. cbn [map_opt]. rewrite Hx, IH. reflexivity.
Qed.

Lemma sep_tail_comma (items : list (list tt)) tc :
  items <> [] \/ tc = true -> sep_tail items tc = TPunct PComma :: sep_tokens items tc.
Proof.
  destruct items as [|x r]; intros [H|H]; try congruence; subst; reflexivity.
Qed.

Lemma tokens_cons d : exists t ts, tokens d = t :: ts.
Proof.
  destruct d as [|b|ty z|[|] s sfx r|s|l tc|l tc]; cbn [tokens]; try destruct (z <? 0)%Z; eauto.
Qed.

Lemma dom_arr fmt env l tc : dom fmt env (DArr l tc) <-> Forall (dom fmt env) l.
Proof.
  induction l as [|x r IH].
  - split; intros _; [constructor|exact I].
  - change (dom fmt env (DArr (x :: r) tc)) with (dom fmt env x /\ dom fmt env (DArr r tc)).
    rewrite IH. split.
    + intros [Hx Hr]. constructor; assumption.
    + intros H. inversion H; subst. split; assumption.
Qed.

Definition dom_entry fmt env (e : kform * list N * doc) : Prop :=
  Forall (fun c => is_scalar c = true) (dkey e) /\ key_ok env (dform e) (dkey e) /\ dom fmt env (dval e).

Lemma dom_obj fmt env l tc : dom fmt env (DObj l tc) <-> Forall (dom_entry fmt env) l.
Proof.
  induction l as [|x r IH].
  - split; intros _; [constructor|exact I].
  - change (dom fmt env (DObj (x :: r) tc)) with (dom_entry fmt env x /\ dom fmt env (DObj r tc)).
    rewrite IH. split.
    + intros [Hx Hr]. constructor; assumption.
    + intros H. inversion H; subst. split; assumption.
Qed.

Section Expand.
  Variable fmt : fty -> list N -> option (list N).
  Variable env : list N -> option (list N).
  Notation rn := (mrun fmt env).

  Lemma ev_elem_mono f f' e v : (f <= f')%nat -> ev_elem (rn f) e = Some v -> ev_elem (rn f') e = Some v.
  Proof.
    intros Hle. destruct e as [| | | |ts|]; cbn [ev_elem]; try discriminate. unfold as_val.
    destruct (rn f ts) as [q|] eqn:Eq; [|discriminate]. rewrite (run_mono _ _ _ _ _ _ Hle Eq). auto.
  Qed.

  Lemma ev_entry_mono f f' e v : (f <= f')%nat -> ev_entry (rn f) e = Some v -> ev_entry (rn f') e = Some v.
  Proof.
    intros Hle. destruct e as [| | | | |k x]; cbn [ev_entry]; try discriminate. unfold as_val.
    destruct (rn f (key_inv k)) as [q|] eqn:Eq; [|discriminate]. rewrite (run_mono _ _ _ _ _ _ Hle Eq).
    destruct (rn f x) as [q'|] eqn:Eq'; [rewrite (run_mono _ _ _ _ _ _ Hle Eq'); auto|].
    destruct q; discriminate.
  Qed.

  Lemma Forall2_mono {A B} (P Q : A -> B -> Prop) l r :
    (forall x y, P x y -> Q x y) -> Forall2 P l r -> Forall2 Q l r.
  Proof. intros H. induction 1; constructor; auto. Qed.

  (* ----- the array muncher computes the elements in written order ----- *)
  Lemma arr_loop : forall l,
    Forall (fun d => exists f, rn f (arg_of d) = Some (RVal (value_of d))) l ->
    forall tc es vs f0, Forall2 (fun e v => ev_elem (rn f0) e = Some v) es vs ->
    exists f, rn f (arr_inv (emit_trail es) (sep_tokens (map tokens l) tc))
              = Some (RVec (vs ++ map value_of l)).
  Proof.
    induction 1 as [|d r [fd Hd] Hr IH]; intros tc es vs f0 Hes.
    - exists (S f0). cbn [map sep_tokens]. rewrite run_S, arr_done_trail.
      rewrite (map_opt_Forall2 _ _ _ Hes), app_nil_r. reflexivity.
    - cbn [map sep_tokens].
      set (F := Nat.max f0 fd).
      assert (Hes' : Forall2 (fun e v => ev_elem (rn F) e = Some v) (es ++ [EJson (arg_of d)]) (vs ++ [value_of d])).
      { apply Forall2_app.
        - eapply Forall2_mono; [|exact Hes]. intros x y. apply ev_elem_mono. apply Nat.le_max_l.
        - constructor; [|constructor]. cbn [ev_elem]. unfold as_val.
          rewrite (run_mono _ _ fd F _ _ (Nat.le_max_r _ _) Hd). reflexivity. }
      destruct r as [|d' r'].
      + destruct tc.
        * (* trailing comma *)
          destruct (IH true _ _ _ Hes') as [f Hf]. cbn [map sep_tokens] in Hf.
          exists (S (S f)). rewrite (run_invoke _ _ _ _ _ (elem_step d es _)).
          cbn [map sep_tail]. rewrite (run_invoke _ _ _ _ _ (comma_step es (EJson (arg_of d)) [])).
          rewrite Hf. rewrite <- ?app_assoc. reflexivity.
        * exists (S (S F)). rewrite (run_invoke _ _ _ _ _ (elem_step d es _)).
          cbn [map sep_tail]. rewrite run_S, arr_done_open.
          rewrite (map_opt_Forall2 _ _ _ Hes'). rewrite <- ?app_assoc. reflexivity.
      + destruct (IH tc _ _ _ Hes') as [f Hf].
        exists (S (S f)). rewrite (run_invoke _ _ _ _ _ (elem_step d es _)).
        rewrite sep_tail_comma by (left; discriminate).
        rewrite (run_invoke _ _ _ _ _ (comma_step es (EJson (arg_of d)) _)).
        rewrite Hf. rewrite <- ?app_assoc. reflexivity.
  Qed.

  (* ----- keys ----- *)
  Lemma key_eval kf k : key_ok env kf k -> rn 1 (key_inv (key_arg kf k)) = Some (RKey k).
  Proof.
    destruct kf as [| |x|x]; cbn [key_ok key_arg]; intros H; rewrite run_S.
    - reflexivity.
    - reflexivity.
    - change (first_match rules (key_inv [TIdent (IVar x)])) with (Some (OKeyInto (EVar x))).
      cbn [key_of_expr]. rewrite H. reflexivity.
    - change (first_match rules (key_inv [TNt (EVar x)])) with (Some (OKeyInto (EVar x))).
      cbn [key_of_expr]. rewrite H. reflexivity.
  Qed.

  Definition entry_value (e : kform * list N * doc) : key * value := (dkey e, value_of (dval e)).

  (* ----- the object muncher computes the entries in written order, duplicates kept ----- *)
  Lemma obj_loop : forall l,
    Forall (fun e => key_ok env (dform e) (dkey e) /\
                     exists f, rn f (arg_of (dval e)) = Some (RVal (value_of (dval e)))) l ->
    forall tc es vs f0, Forall2 (fun e v => ev_entry (rn f0) e = Some v) es vs ->
    exists f, rn f (obj_inv (emit_trail es) [] (sep_tokens (map entry_tokens l) tc)
                                                (sep_tokens (map entry_tokens l) tc))
              = Some (RObj (vs ++ map entry_value l)).
  Proof.
    induction 1 as [|[[kf k] d] r [Hk [fd Hd]] Hr IH]; intros tc es vs f0 Hes.
    - exists (S f0). cbn [map sep_tokens]. rewrite run_S, obj_done_trail.
      rewrite (map_opt_Forall2 _ _ _ Hes), app_nil_r. reflexivity.
    - cbn [map sep_tokens]. unfold dform, dkey, dval in Hk, Hd. cbn [fst snd] in Hk, Hd.
      unfold entry_tokens at 1 3. unfold dform, dkey, dval. cbn [fst snd].
      rewrite <- !app_assoc. cbn [app].
      set (F := Nat.max f0 (Nat.max 1 fd)).
      assert (Hes' : Forall2 (fun e v => ev_entry (rn F) e = Some v)
                       (es ++ [EEntry (key_arg kf k) (arg_of d)]) (vs ++ [(k, value_of d)])).
      { apply Forall2_app.
        - eapply Forall2_mono; [|exact Hes]. intros x y. apply ev_entry_mono. apply Nat.le_max_l.
        - constructor; [|constructor]. cbn [ev_entry]. unfold as_val.
          rewrite (run_mono _ _ 1 F _ _ ltac:(unfold F; lia) (key_eval _ _ Hk)).
          rewrite (run_mono _ _ fd F _ _ ltac:(unfold F; lia) Hd). reflexivity. }
      assert (Hkey : exists t ks, key_arg kf k = t :: ks) by (destruct kf; cbn; eauto).
      destruct Hkey as (t & ks & Hkey).
      destruct r as [|e' r'].
      + destruct tc.
        * destruct (IH true _ _ _ Hes') as [f Hf]. cbn [map sep_tokens] in Hf.
          exists (S (S (S f))). rewrite (run_invoke _ _ _ _ _ (key_step kf k es _ _)).
          rewrite Hkey. rewrite (run_invoke _ _ _ _ _ (value_step d es t ks _ _)). rewrite <- Hkey.
          cbn [map sep_tail]. rewrite (run_invoke _ _ _ _ _ (obj_comma_step es _ [] _)).
          rewrite Hf. rewrite <- ?app_assoc. reflexivity.
        * exists (S (S (S F))). rewrite (run_invoke _ _ _ _ _ (key_step kf k es _ _)).
          rewrite Hkey. rewrite (run_invoke _ _ _ _ _ (value_step d es t ks _ _)). rewrite <- Hkey.
          cbn [map sep_tail]. rewrite run_S, obj_done_open.
          rewrite (map_opt_Forall2 _ _ _ Hes'). rewrite <- ?app_assoc. reflexivity.
      + destruct (IH tc _ _ _ Hes') as [f Hf].
        exists (S (S (S f))). rewrite (run_invoke _ _ _ _ _ (key_step kf k es _ _)).
        rewrite Hkey. rewrite (run_invoke _ _ _ _ _ (value_step d es t ks _ _)). rewrite <- Hkey.
        rewrite sep_tail_comma by (left; discriminate).
        rewrite (run_invoke _ _ _ _ _ (obj_comma_step es _ _ _)).
        rewrite Hf. rewrite <- ?app_assoc. reflexivity.
  Qed.
End Expand.

(* ---------- the main theorem about the rule model ---------- *)
Section Main.
  Variable fmt : fty -> list N -> option (list N).
  Variable env : list N -> option (list N).
  Notation rn := (mrun fmt env).

  Lemma in_ity_dom t z : (ity_min t <= z <= ity_max t)%Z -> in_ity t z = true.
  Proof. unfold in_ity. intros H. apply andb_true_iff. split; apply Z.leb_le; lia. Qed.

  Lemma conv_int ty z : (ity_min (ity_of ty) <= z <= ity_max (ity_of ty))%Z ->
    conv_lit fmt (z <? 0)%Z (LInt (Z.abs_N z) ty) = Some (VNum (dec_of_Z z)).
  Proof.
    intros H. unfold conv_lit.
    assert (E : (if (z <? 0)%Z then (- Z.of_N (Z.abs_N z))%Z else Z.of_N (Z.abs_N z)) = z).
    { rewrite N2Z.inj_abs_N. destruct (z <? 0)%Z eqn:Ez; [apply Z.ltb_lt in Ez|apply Z.ltb_ge in Ez]; lia. }
    assert (S : (z <? 0)%Z && negb (ity_signed (ity_of ty)) = false).
    { destruct (z <? 0)%Z eqn:Ez; [|reflexivity]. apply Z.ltb_lt in Ez.
      destruct (ity_of ty); cbn in *; try reflexivity; lia. }
    rewrite E, S, (in_ity_dom _ _ H). reflexivity.
  Qed.

  Lemma leaf_int ty z : (ity_min (ity_of ty) <= z <= ity_max (ity_of ty))%Z ->
    rn 1 (tokens (DInt ty z)) = Some (RVal (value_of (DInt ty z))) /\
    rn 1 (arg_of (DInt ty z)) = Some (RVal (value_of (DInt ty z))).
  Proof.
    intros H. pose proof (conv_int ty z H) as C. cbn [tokens arg_of value_of].
    destruct (z <? 0)%Z; split; rewrite run_S.
    - change (first_match rules [TPunct PMinus; TLit (LInt (Z.abs_N z) ty)]) with (Some (OTryFrom (ENeg (LInt (Z.abs_N z) ty)))).
      cbn [try_from_expr]. rewrite C. reflexivity.
    - change (first_match rules [TNt (ENeg (LInt (Z.abs_N z) ty))]) with (Some (OTryFrom (ENeg (LInt (Z.abs_N z) ty)))).
      cbn [try_from_expr]. rewrite C. reflexivity.
    - change (first_match rules [TLit (LInt (Z.abs_N z) ty)]) with (Some (OTryFrom (ELit (LInt (Z.abs_N z) ty)))).
      cbn [try_from_expr]. rewrite C. reflexivity.
    - change (first_match rules [TNt (ELit (LInt (Z.abs_N z) ty))]) with (Some (OTryFrom (ELit (LInt (Z.abs_N z) ty)))).
      cbn [try_from_expr]. rewrite C. reflexivity.
  Qed.

  Lemma leaf_float neg s sfx r : fmt (match sfx with Some t => t | None => FT64 end) s = Some r ->
    rn 1 (tokens (DFloat neg s sfx r)) = Some (RVal (value_of (DFloat neg s sfx r))) /\
    rn 1 (arg_of (DFloat neg s sfx r)) = Some (RVal (value_of (DFloat neg s sfx r))).
  Proof.
    intros H. cbn [tokens arg_of value_of]. destruct neg; split; rewrite run_S.
    - change (first_match rules [TPunct PMinus; TLit (LFloat s sfx)]) with (Some (OTryFrom (ENeg (LFloat s sfx)))).
      cbn [try_from_expr conv_lit]. rewrite H. reflexivity.
    - change (first_match rules [TNt (ENeg (LFloat s sfx))]) with (Some (OTryFrom (ENeg (LFloat s sfx)))).
      cbn [try_from_expr conv_lit]. rewrite H. reflexivity.
    - change (first_match rules [TLit (LFloat s sfx)]) with (Some (OTryFrom (ELit (LFloat s sfx)))).
      cbn [try_from_expr conv_lit]. rewrite H. reflexivity.
    - change (first_match rules [TNt (ELit (LFloat s sfx))]) with (Some (OTryFrom (ELit (LFloat s sfx)))).
      cbn [try_from_expr conv_lit]. rewrite H. reflexivity.
  Qed.

  Lemma run_array f t r :
    rn (S f) [TGroup Bracket (t :: r)]
    = match rn f (arr_inv [] (t :: r)) with Some (RVec l) => Some (RVal (VArr l)) | _ => None end.
  Proof. reflexivity. Qed.

  Lemma run_object f t r :
    rn (S f) [TGroup Brace (t :: r)]
    = match rn f (obj_inv [] [] (t :: r) (t :: r)) with Some (RObj l) => Some (RVal (VObj l)) | _ => None end.
  Proof. reflexivity. Qed.

  Definition Good (d : doc) : Prop :=
    (exists f, rn f (tokens d) = Some (RVal (value_of d))) /\
    (exists f, rn f (arg_of d) = Some (RVal (value_of d))).

  Theorem run_tokens : forall d, dom fmt env d -> Good d.
  Proof.
    induction d as [|b|ty z|neg s sfx r|s|l tc IH|l tc IH] using doc_ind'; intros Hd.
    - split; exists 1%nat; reflexivity.
    - split; exists 1%nat; destruct b; reflexivity.
    - destruct (leaf_int ty z Hd). split; exists 1%nat; assumption.
    - destruct Hd as [_ Hs]. destruct (leaf_float neg s sfx r Hs). split; exists 1%nat; assumption.
    - split; exists 1%nat; reflexivity.
    - assert (G : exists f, rn f (tokens (DArr l tc)) = Some (RVal (value_of (DArr l tc)))).
      { apply dom_arr in Hd.
        assert (Hl : Forall (fun d => exists f, rn f (arg_of d) = Some (RVal (value_of d))) l).
        { clear tc. induction l as [|x r IHr]; constructor.
          - inversion IH; inversion Hd; subst. apply H1. assumption.
          - apply IHr; [inversion IH|inversion Hd]; assumption. }
        destruct l as [|d r].
        - exists 1%nat. reflexivity.
        - destruct (arr_loop fmt env _ Hl tc [] [] 0%nat (Forall2_nil _)) as [f Hf].
          cbn [tokens]. cbn [map sep_tokens] in *.
          destruct (tokens_cons d) as (t & ts & Et). rewrite Et in *. cbn [app] in *.
          exists (S f). rewrite run_array.
          cbn [emit_trail flat_map] in Hf. rewrite Hf. reflexivity. }
      split; exact G.
    - assert (G : exists f, rn f (tokens (DObj l tc)) = Some (RVal (value_of (DObj l tc)))).
      { apply dom_obj in Hd.
        assert (Hl : Forall (fun e => key_ok env (dform e) (dkey e) /\
                     exists f, rn f (arg_of (dval e)) = Some (RVal (value_of (dval e)))) l).
        { clear tc. induction l as [|x r IHr]; constructor.
          - inversion IH; inversion Hd; subst. destruct H5 as (_ & Hk & Hx). split; [exact Hk|]. apply H1. exact Hx.
          - apply IHr; [inversion IH|inversion Hd]; assumption. }
        destruct l as [|e r].
        - exists 1%nat. reflexivity.
        - destruct (obj_loop fmt env _ Hl tc [] [] 0%nat (Forall2_nil _)) as [f Hf].
          cbn [tokens value_of].
          change (map (fun e0 => key_tokens (dform e0) (dkey e0) ++ TPunct PColon :: tokens (dval e0)) (e :: r))
            with (map entry_tokens (e :: r)).
          change (map (fun e0 => (dkey e0, value_of (dval e0))) (e :: r)) with (map entry_value (e :: r)).
          cbn [map sep_tokens] in *.
          assert (Ee : exists t ts, entry_tokens e = t :: ts).
          { destruct e as [[kf k] d]. unfold entry_tokens, dform, dkey, dval. cbn [fst snd]. destruct kf; cbn; eauto. }
          destruct Ee as (t & ts & Et). rewrite Et in *. cbn [app] in *.
          exists (S f). rewrite run_object.
          cbn [emit_trail flat_map] in Hf. rewrite Hf. reflexivity. }
      split; exact G.
  Qed.

  Theorem expand_tokens : forall d, dom fmt env d ->
    exists fuel, expand fmt env fuel (tokens d) = Some (value_of d).
  Proof.
    intros d Hd. destruct (run_tokens d Hd) as [[f Hf] _]. exists f. unfold expand. rewrite Hf. reflexivity.
  Qed.
End Main.

(* ---------- integer spellings ---------- *)
Definition hstep (a : Z) (c : N) : Z := (a * 10 + (Z.of_N c - 48))%Z.

Lemma dec_fuel_horner : forall fuel n acc, n < 2 ^ N.of_nat fuel ->
  fold_left hstep (dec_fuel fuel n acc) 0%Z = fold_left hstep acc (Z.of_N n).
Proof.
  induction fuel as [|f IH]; intros n acc Hn.
  - cbn in Hn. assert (n = 0) by lia. subst. reflexivity.
  - cbn [dec_fuel]. destruct (n <? 10) eqn:E.
    + cbn [fold_left]. f_equal. unfold hstep. lia.
    + apply N.ltb_ge in E. rewrite IH.
      * cbn [fold_left]. f_equal. unfold hstep.
        pose proof (N.div_mod n 10 ltac:(lia)) as D.
        pose proof (N.mod_lt n 10 ltac:(lia)). lia.
      * rewrite Nat2N.inj_succ, N.pow_succ_r' in Hn.
        apply N.div_lt_upper_bound; lia.
Qed.

Lemma dec_fuel_shape : forall fuel n acc, n < 2 ^ N.of_nat fuel -> 0 < n ->
  exists d ds, dec_fuel fuel n acc = d :: ds ++ acc /\ onenine d = true /\ Forall (fun c => digit c = true) ds.
Proof.
  induction fuel as [|f IH]; intros n acc Hn Hp.
  - cbn in Hn. lia.
  - cbn [dec_fuel]. destruct (n <? 10) eqn:E.
    + apply N.ltb_lt in E. exists (0x30 + n), []. repeat split; [|constructor].
      unfold onenine. apply andb_true_iff. split; apply N.leb_le; lia.
    + apply N.ltb_ge in E.
      assert (H1 : n / 10 < 2 ^ N.of_nat f).
      { rewrite Nat2N.inj_succ, N.pow_succ_r' in Hn. apply N.div_lt_upper_bound; lia. }
      assert (H2 : 0 < n / 10).
      { apply N.div_str_pos. lia. }
      destruct (IH (n / 10) ((0x30 + n mod 10) :: acc) H1 H2) as (d & ds & Ed & Hd & Hds).
      exists d, (ds ++ [0x30 + n mod 10]). rewrite Ed, <- app_assoc. repeat split; [exact Hd|].
      apply Forall_app. split; [exact Hds|]. constructor; [|constructor].
      pose proof (N.mod_lt n 10 ltac:(lia)). unfold digit. apply andb_true_iff. split; apply N.leb_le; lia.
Qed.

Lemma dec_fuel_bound n : n < 2 ^ N.of_nat (S (N.to_nat (N.log2 n))).
Proof.
  rewrite Nat2N.inj_succ, N2Nat.id. destruct (N.eq_dec n 0) as [->|Hn]; [reflexivity|].
  apply N.log2_spec. lia.
Qed.

Lemma dec_of_N_jint n : jint (dec_of_N n).
Proof.
  destruct (N.eq_dec n 0) as [->|Hn]; [left; reflexivity|].
  right. destruct (dec_fuel_shape _ n [] (dec_fuel_bound n) ltac:(lia)) as (d & ds & E & Hd & Hds).
  exists d, ds. unfold dec_of_N. rewrite E, app_nil_r. auto.
Qed.

Lemma dec_of_Z_jnum z : jnum (dec_of_Z z).
Proof.
  unfold dec_of_Z. destruct (z <? 0)%Z.
  - exists [0x2D], (dec_of_N (Z.abs_N z)), [], []. repeat split; auto using dec_of_N_jint.
    + left; reflexivity.
    + left; reflexivity.
    + rewrite !app_nil_r. reflexivity.
  - exists [], (dec_of_N (Z.abs_N z)), [], []. repeat split; auto using dec_of_N_jint.
    + left; reflexivity.
    + left; reflexivity.
    + rewrite !app_nil_r. reflexivity.
Qed.

Lemma dec_of_N_reads_back n : Z_of_digits (dec_of_N n) = Z.of_N n.
Proof. unfold Z_of_digits, dec_of_N. apply (dec_fuel_horner _ n [] (dec_fuel_bound n)). Qed.

Lemma dec_of_N_head n : exists d ds, dec_of_N n = d :: ds /\ d <> 0x2D.
Proof.
  destruct (N.eq_dec n 0) as [->|Hn].
  - exists 0x30, []. split; [reflexivity|discriminate].
  - destruct (dec_fuel_shape _ n [] (dec_fuel_bound n) ltac:(lia)) as (d & ds & E & Hd & _).
    exists d, ds. unfold dec_of_N. rewrite E, app_nil_r. split; [reflexivity|].
    intros ->. discriminate Hd.
Qed.

Theorem dec_of_Z_reads_back z : Z_of_dec (dec_of_Z z) = z.
Proof.
  unfold dec_of_Z. destruct (z <? 0)%Z eqn:E.
  - apply Z.ltb_lt in E. cbn [Z_of_dec]. rewrite N.eqb_refl.
    rewrite dec_of_N_reads_back, N2Z.inj_abs_N. lia.
  - apply Z.ltb_ge in E. destruct (dec_of_N_head (Z.abs_N z)) as (d & ds & Ed & Hd).
    rewrite Ed. unfold Z_of_dec. destruct (N.eqb_spec d 0x2D) as [->|_]; [congruence|].
    rewrite <- Ed, dec_of_N_reads_back, N2Z.inj_abs_N. lia.
Qed.

(* ---------- the corresponding JSON text ---------- *)
Lemma unsigned_num_jnum r : unsigned_num r -> jnum r /\ jnum (0x2D :: r).
Proof.
  intros (i & f & e & Hi & Hf & He & ->). split.
  - exists [], i, f, e. repeat split; auto.
  - exists [0x2D], i, f, e. repeat split; auto.
Qed.

Lemma float_lit_unsigned s : float_lit s -> unsigned_num s.
Proof. intros (i & f & e & Hi & Hf & He & _ & ->). exists i, f, e. auto. Qed.

Theorem text_is_ser_min : forall d, text d = ser_min (value_of d).
Proof.
  induction d as [|b|ty z|neg s sfx r|s|l tc IH|l tc IH] using doc_ind'; cbn [text value_of ser_min]; try reflexivity.
  - rewrite map_map. do 3 f_equal. induction IH as [|x r Hx _ IHr]; [reflexivity|].
    cbn [map]. rewrite Hx, IHr. reflexivity.
  - rewrite map_map. do 3 f_equal. induction IH as [|x r Hx _ IHr]; [reflexivity|].
    cbn [map fst snd]. rewrite Hx, IHr. reflexivity.
Qed.

Theorem dom_wfv fmt env : forall d, dom fmt env d -> wfv (value_of d).
Proof.
  induction d as [|b|ty z|neg s sfx r|s|l tc IH|l tc IH] using doc_ind'; intros Hd; cbn [value_of].
  - exact I.
  - exact I.
  - cbn [wfv]. apply dec_of_Z_jnum.
  - cbn [wfv]. destruct Hd as [Hs _]. destruct (unsigned_num_jnum r Hs). destruct neg; assumption.
  - exact Hd.
  - apply wfv_arr. apply dom_arr in Hd. apply Forall_map.
    induction l as [|x r IHr]; constructor.
    + inversion IH; inversion Hd; subst. auto.
    + apply IHr; [inversion IH|inversion Hd]; assumption.
  - apply wfv_obj. apply dom_obj in Hd. apply Forall_map.
    induction l as [|x r IHr]; constructor.
    + inversion IH; inversion Hd; subst. destruct H5 as (Hk & _ & Hx). cbn [fst snd]. split; [exact Hk|auto].
    + apply IHr; [inversion IH|inversion Hd]; assumption.
Qed.

Theorem parse_text fmt env : forall d, dom fmt env d ->
  exists m, parse_str (text d) = Ok (value_of d, m).
Proof.
  intros d Hd. destruct (print_parse_roundtrip compact _ (dom_wfv _ _ _ Hd)) as (t & m & Hp & Hm).
  rewrite C08_compact_minimal in Hp. injection Hp as <-. exists m. rewrite text_is_ser_min. exact Hm.
Qed.

(* ---------- C19 ---------- *)
Theorem macro_equals_parse fmt env : forall d, dom fmt env d ->
  exists fuel m, expand fmt env fuel (tokens d) = Some (value_of d)
                 /\ parse_str (text d) = Ok (value_of d, m).
Proof.
  intros d Hd. destruct (expand_tokens _ _ _ Hd) as [f Hf]. destruct (parse_text _ _ _ Hd) as [m Hm].
  exists f, m. split; assumption.
Qed.

(* more fuel never changes an answer *)
Theorem expand_fuel_monotone fmt env f f' ts v :
  (f <= f')%nat -> expand fmt env f ts = Some v -> expand fmt env f' ts = Some v.
Proof.
  unfold expand, as_val. intros Hle. destruct (mrun fmt env f ts) as [r|] eqn:E; [|discriminate].
  rewrite (run_mono _ _ _ _ _ _ Hle E). auto.
Qed.

(* the trailing comma never matters *)
Theorem trailing_comma_irrelevant fmt env : forall d, dom fmt env d ->
  forall d', (match d, d' with
              | DArr l _, DArr l' _ => l = l'
              | DObj l _, DObj l' _ => l = l'
              | _, _ => False
              end) ->
  exists fuel v, expand fmt env fuel (tokens d) = Some v /\ expand fmt env fuel (tokens d') = Some v.
Proof.
  intros d Hd d' H.
  assert (Hd' : dom fmt env d' /\ value_of d' = value_of d).
  { destruct d, d'; try contradiction; subst; split; auto. }
  destruct Hd' as [Hd' Ev].
  destruct (expand_tokens _ _ _ Hd) as [f Hf]. destruct (expand_tokens _ _ _ Hd') as [f' Hf'].
  exists (Nat.max f f'), (value_of d). split.
  - apply (expand_fuel_monotone _ _ f); [apply Nat.le_max_l|exact Hf].
  - rewrite <- Ev. apply (expand_fuel_monotone _ _ f'); [apply Nat.le_max_r|exact Hf'].
Qed.

(* entries in written order, duplicates preserved: what [value_of] says about objects *)
Lemma value_of_obj l tc : value_of (DObj l tc) = VObj (map (fun e => (dkey e, value_of (dval e))) l).
Proof. reflexivity. Qed.
Lemma value_of_arr l tc : value_of (DArr l tc) = VArr (map value_of l).
Proof. reflexivity. Qed.

Theorem object_entries_in_written_order fmt env l tc : dom fmt env (DObj l tc) ->
  exists fuel, expand fmt env fuel (tokens (DObj l tc))
               = Some (VObj (map (fun e => (dkey e, value_of (dval e))) l)).
Proof. intros H. exact (expand_tokens _ _ _ H). Qed.

Theorem array_items_in_written_order fmt env l tc : dom fmt env (DArr l tc) ->
  exists fuel, expand fmt env fuel (tokens (DArr l tc)) = Some (VArr (map value_of l)).
Proof. intros H. exact (expand_tokens _ _ _ H). Qed.

Theorem int_spelling z : jnum (dec_of_Z z) /\ Z_of_dec (dec_of_Z z) = z.
Proof. split; [apply dec_of_Z_jnum|apply dec_of_Z_reads_back]. Qed.

(* the special case of a float literal that is re-spelt as itself: its JSON text is the
   literal text *)
Theorem self_respelt_float fmt env neg s :
  float_lit s -> fmt FT64 s = Some s ->
  dom fmt env (DFloat neg s None s) /\
  text (DFloat neg s None s) = (if neg then 0x2D :: s else s) /\
  exists fuel m, expand fmt env fuel (if neg then [TPunct PMinus; TLit (LFloat s None)] else [TLit (LFloat s None)])
                   = Some (VNum (if neg then 0x2D :: s else s))
                 /\ parse_str (if neg then 0x2D :: s else s) = Ok (VNum (if neg then 0x2D :: s else s), m).
Proof.
  intros Hs Hf.
  assert (Hd : dom fmt env (DFloat neg s None s)) by (split; [apply float_lit_unsigned; exact Hs|exact Hf]).
  split; [exact Hd|]. split; [reflexivity|]. exact (macro_equals_parse fmt env _ Hd).
Qed.

Print Assumptions macro_equals_parse.
Print Assumptions trailing_comma_irrelevant.
Print Assumptions dec_of_Z_reads_back.
