(* Proofs/SerdeDupKeys.v -- C16: from_value on an object with repeated keys.
   * map targets: every entry is deserialized, the last value of a key is kept; hence the
     result equals the result on the object with the earlier occurrences removed;
   * struct targets and struct variants: a declared field that occurs twice is an error
     (serde-derive's `duplicate field`). *)
From JsonSyntax Require Import Base.Prelude Base.Value Spec.Multimap Spec.SerdeTyped Spec.SerdeDupKeys
  Model.Serde Proofs.SerdeBasics.
Local Open Scope Z_scope.

Section DupKeys.
  Variable E : env.

  Lemma de_key_refl kt s k : de_key E kt s = Ok k -> key_eqb k k = true.
  Proof.
    destruct kt; cbn [de_key]; intros H.
    - inversion H; subst. cbn. apply str_eqb_refl.
    - destruct (parse_int k0 s); inversion H; subst. cbn. apply Z.eqb_refl.
    - destruct s as [|c [|]]; inversion H; subst. cbn. apply N.eqb_refl.
    - destruct (assoc name E) as [[]|]; try discriminate.
      destruct (assoc s vs) as [[]|]; inversion H; subst. cbn. apply str_eqb_refl.
  Qed.

  Section Rec.
    Variable rec : ty -> value -> dres.
    Variables (kt : kty) (t : ty).

    Notation keyed_by k := (fun e : tsd * tsd => key_eqb k (fst e)).

    (* an entry of the object is an entry of the result list, under its deserialized key *)
    Lemma de_entries_in : forall es xs, de_entries E rec kt t es = Ok xs ->
      forall e, In e es -> exists k x, de_key E kt (fst e) = Ok k /\ In (k, x) xs.
    Proof.
      induction es as [|e0 es IH]; intros xs H e Hin; [destruct Hin|].
      cbn [de_entries] in H.
      destruct (de_key E kt (fst e0)) as [k0| | |] eqn:Hk; cbn [obind] in H; try discriminate.
      destruct (rec t (snd e0)) as [x0| | |]; cbn [obind] in H; try discriminate.
      destruct (de_entries E rec kt t es) as [xr| | |]; cbn [obind] in H; try discriminate.
      inversion H; subst. destruct Hin as [->|Hin].
      - exists k0, x0. split; [exact Hk|left; reflexivity].
      - destruct (IH xr eq_refl e Hin) as (k & x & A & B). exists k, x. split; [exact A|right; exact B].
    Qed.

    Lemma mem_str_in k : forall l : list str, mem_str k l = true -> In k l.
    Proof.
      induction l as [|x l IH]; cbn [mem_str]; intros H; [discriminate|].
      apply orb_true_iff in H. destruct H as [H|H]; [left; now apply str_eqb_spec|right; auto].
    Qed.

    Lemma last_wins_drop_earlier : forall es xs, de_entries E rec kt t es = Ok xs ->
      exists xs', de_entries E rec kt t (drop_earlier es) = Ok xs' /\
                  last_wins xs' = last_wins xs /\
                  forall k, existsb (keyed_by k) xs' = existsb (keyed_by k) xs.
    Proof.
      induction es as [|e es IH]; intros xs H.
      - cbn in H. inversion H; subst. exists []. repeat split; reflexivity.
      - pose proof H as H0. cbn [de_entries] in H.
        destruct (de_key E kt (fst e)) as [k| | |] eqn:Hk; cbn [obind] in H; try discriminate.
        destruct (rec t (snd e)) as [x| | |] eqn:Hx; cbn [obind] in H; try discriminate.
        destruct (de_entries E rec kt t es) as [xr| | |] eqn:Hr; cbn [obind] in H; try discriminate.
        inversion H; subst. clear H.
        destruct (IH xr eq_refl) as (xr' & A & B & C).
        cbn [drop_earlier]. destruct (mem_str (fst e) (map fst es)) eqn:Em.
        + (* the key recurs later: this entry is overwritten *)
          assert (Hex : existsb (keyed_by k) xr = true).
          { apply mem_str_in in Em. apply in_map_iff in Em. destruct Em as (e' & Hf & Hin).
            destruct (de_entries_in es xr Hr e' Hin) as (k' & x' & Hk' & Hin').
            rewrite Hf, Hk in Hk'. inversion Hk'; subst k'.
            apply existsb_exists. exists (k, x'). split; [exact Hin'|]. cbn [fst].
            exact (de_key_refl _ _ _ Hk). }
          exists xr'. split; [exact A|]. split.
          * cbn [last_wins fst]. rewrite Hex. exact B.
          * intros k0. cbn [existsb fst]. rewrite C.
            destruct (key_eqb k0 k) eqn:E0; [|reflexivity]. cbn [orb].
            (* k0 = k as keys: k occurs in xr *)
            apply existsb_exists in Hex. destruct Hex as ([k1 x1] & Hin1 & Hk1). cbn [fst] in Hk1.
            apply existsb_exists. exists (k1, x1). split; [exact Hin1|]. cbn [fst].
            destruct k0, k, k1; cbn [key_eqb] in *; try discriminate.
            -- apply Z.eqb_eq in E0, Hk1. subst. apply Z.eqb_refl.
            -- apply N.eqb_eq in E0, Hk1. subst. apply N.eqb_refl.
            -- apply str_eqb_spec in E0, Hk1. subst. apply str_eqb_refl.
            -- apply str_eqb_spec in E0, Hk1. subst. apply str_eqb_refl.
        + exists ((k, x) :: xr'). split; [|split].
          * cbn [de_entries]. rewrite Hk. cbn [obind]. rewrite Hx. cbn [obind]. rewrite A. reflexivity.
          * cbn [last_wins fst]. rewrite C, B. reflexivity.
          * intros k0. cbn [existsb fst]. rewrite C. reflexivity.
    Qed.

    (* the kept entries have pairwise different keys *)
    Lemma last_wins_distinct : forall l : list (tsd * tsd),
      ForallOrdPairs (fun a b => key_eqb (fst a) (fst b) = false) (last_wins l).
    Proof.
      assert (Sub : forall (l : list (tsd * tsd)) e, In e (last_wins l) -> In e l).
      { induction l as [|kx l IH]; intros e H; [exact H|]. cbn [last_wins] in H.
        destruct (existsb _ l); [right; auto|]. destruct H as [H|H]; [left; exact H|right; auto]. }
      induction l as [|kx l IH]; [constructor|]. cbn [last_wins].
      destruct (existsb (fun e : tsd * tsd => key_eqb (fst kx) (fst e)) l) eqn:Ex; [exact IH|].
      constructor; [|exact IH]. apply Forall_forall. intros e He. apply Sub in He.
      destruct (key_eqb (fst kx) (fst e)) eqn:Ee; [|reflexivity].
      assert (X : existsb (fun e : tsd * tsd => key_eqb (fst kx) (fst e)) l = true)
        by (apply existsb_exists; exists e; auto).
      rewrite X in Ex. discriminate.
    Qed.

    (* a declared field carried by two entries: the struct visitor fails *)
    Lemma de_fields_dup : forall fts es xs, de_fields rec fts es = Ok xs ->
      forall ft, In ft fts -> (length (m_get_entries es (fst ft)) <= 1)%nat.
    Proof.
      induction fts as [|ft0 fts IH]; intros es xs H ft Hin; [destruct Hin|].
      cbn [de_fields] in H.
      destruct (m_get_entries es (fst ft0)) as [|e1 [|e2 r]] eqn:Hg.
      - destruct Hin as [->|Hin]; [rewrite Hg; cbn; lia|].
        destruct (match snd ft0 with TyOption _ => Ok SdNone | _ => Err tt end); cbn [obind] in H; try discriminate.
        destruct (de_fields rec fts es) as [xr| | |] eqn:Hr; cbn [obind] in H; try discriminate.
        exact (IH es xr Hr ft Hin).
      - destruct Hin as [->|Hin]; [rewrite Hg; cbn; lia|].
        destruct (rec (snd ft0) (snd e1)); cbn [obind] in H; try discriminate.
        destruct (de_fields rec fts es) as [xr| | |] eqn:Hr; cbn [obind] in H; try discriminate.
        exact (IH es xr Hr ft Hin).
      - cbn [obind] in H. discriminate.
    Qed.
  End Rec.

  (* ---- map targets: the last value of a key wins ---- *)
  Theorem map_last_wins : forall fuel kt t es d,
    de E fuel (TyMap kt t) (VObj es) = Ok d ->
    de E fuel (TyMap kt t) (VObj (drop_earlier es)) = Ok d.
  Proof.
    intros [|f] kt t es d H; [discriminate|]. cbn [de] in *.
    destruct (de_entries E (de E f) kt t es) as [xs| | |] eqn:Hx; cbn [obind] in H; try discriminate.
    destruct (last_wins_drop_earlier (de E f) kt t es xs Hx) as (xs' & A & B & _).
    rewrite A. cbn [obind]. rewrite B. exact H.
  Qed.

  Theorem map_keys_distinct : forall fuel kt t es xs,
    de E fuel (TyMap kt t) (VObj es) = Ok (SdMap xs) ->
    ForallOrdPairs (fun a b => key_eqb (fst a) (fst b) = false) xs.
  Proof.
    intros [|f] kt t es xs H; [discriminate|]. cbn [de] in H.
    destruct (de_entries E (de E f) kt t es) as [ys| | |]; cbn [obind] in H; try discriminate.
    inversion H; subst. apply last_wins_distinct.
  Qed.

  (* without a repeated key nothing is dropped *)
  Lemma drop_earlier_nodup : forall es, nodup_str (map fst es) = true -> drop_earlier es = es.
  Proof.
    unfold entry, key in *.
    induction es as [|e es IH]; intros H; [reflexivity|].
    cbn [map nodup_str] in H. apply andb_true_iff in H. destruct H as [H1 H2].
    apply negb_true_iff in H1. cbn [drop_earlier]. unfold entry, key in *. rewrite H1, (IH H2). reflexivity.
  Qed.

  (* ---- struct targets, struct variants: a repeated declared field is an error ---- *)
  Theorem struct_dup_field : forall fuel n fts es f d,
    assoc n E = Some (DefStruct fts) -> In f (map fst fts) ->
    (2 <= length (m_get_entries es f))%nat ->
    de E fuel (TyNamed n) (VObj es) <> Ok d.
  Proof.
    intros [|fu] n fts es f d Ha Hin Hl H; [discriminate|]. cbn [de] in H. rewrite Ha in H.
    destruct (de_fields (de E fu) fts es) as [xs| | |] eqn:Hx; cbn [obind] in H; try discriminate.
    apply in_map_iff in Hin. destruct Hin as (ft & <- & Hin).
    pose proof (de_fields_dup (de E fu) fts es xs Hx ft Hin). lia.
  Qed.

  Theorem struct_variant_dup_field : forall fuel n vs v fts es f d,
    assoc n E = Some (DefEnum vs) -> assoc v vs = Some (VStruct fts) -> In f (map fst fts) ->
    (2 <= length (m_get_entries es f))%nat ->
    de E fuel (TyNamed n) (VObj [(v, VObj es)]) <> Ok d.
  Proof.
    intros [|fu] n vs v fts es f d Ha Hv Hin Hl H; [discriminate|]. cbn [de fst snd] in H.
    rewrite Ha, Hv in H.
    destruct (de_fields (de E fu) fts es) as [xs| | |] eqn:Hx; cbn [obind] in H; try discriminate.
    apply in_map_iff in Hin. destruct Hin as (ft & <- & Hin).
    pose proof (de_fields_dup (de E fu) fts es xs Hx ft Hin). lia.
  Qed.

  (* an enum written as an object must have exactly one entry: repeating the variant key is an error *)
  Theorem enum_repeated_variant_key : forall fuel n vs e1 e2 r d,
    assoc n E = Some (DefEnum vs) -> de E fuel (TyNamed n) (VObj (e1 :: e2 :: r)) <> Ok d.
  Proof.
    intros [|fu] n vs e1 e2 r d Ha H; [discriminate|]. cbn [de] in H. rewrite Ha in H. discriminate.
  Qed.
End DupKeys.

(* ---- concrete instances (non-vacuity) ---- *)
Definition dup_env : env :=
  [(s2l "P", DefStruct [(s2l "x", TyInt I32); (s2l "o", TyOption TyBool)]);
   (s2l "V", DefEnum [(s2l "A", VUnit); (s2l "S", VStruct [(s2l "x", TyInt I32)])])].

Definition dup_obj : list entry :=
  [(s2l "a", VNum (s2l "1")); (s2l "b", VNum (s2l "2")); (s2l "a", VNum (s2l "3"))].

Lemma dup_examples :
  (* {"a":1,"b":2,"a":3} as BTreeMap<String,i32>: b -> 2, a -> 3 *)
  has_repeated_key dup_obj = true /\
  drop_earlier dup_obj = [(s2l "b", VNum (s2l "2")); (s2l "a", VNum (s2l "3"))] /\
  from_value_ref dup_env 3 (TyMap KStr (TyInt I32)) (VObj dup_obj)
    = Ok (SdMap [(SdStr (s2l "b"), SdInt I32 2); (SdStr (s2l "a"), SdInt I32 3)]) /\
  (* an overwritten entry is still deserialized: {"a":true,"a":3} fails *)
  from_value_ref dup_env 3 (TyMap KStr (TyInt I32)) (VObj [(s2l "a", VBool true); (s2l "a", VNum (s2l "3"))]) = Err tt /\
  (* integer keys: "1", "+1" and "01" are one key of BTreeMap<u8, _> *)
  from_value_ref dup_env 3 (TyMap (KInt U8) TyBool)
    (VObj [(s2l "1", VBool true); (s2l "+1", VBool false); (s2l "2", VBool true); (s2l "01", VBool true)])
    = Ok (SdMap [(SdInt U8 2, SdBool true); (SdInt U8 1, SdBool true)]) /\
  (* struct P { x: i32, o: Option<bool> }: {"x":1,"x":2} is `duplicate field`; a repeated unknown key is skipped *)
  from_value_ref dup_env 3 (TyNamed (s2l "P")) (VObj [(s2l "x", VNum (s2l "1")); (s2l "x", VNum (s2l "2"))]) = Err tt /\
  from_value_ref dup_env 3 (TyNamed (s2l "P")) (VObj [(s2l "u", VNull); (s2l "x", VNum (s2l "1")); (s2l "u", VNull)])
    = Ok (SdStruct (s2l "P") [(s2l "x", SdInt I32 1); (s2l "o", SdNone)]) /\
  (* enum V { A, S { x: i32 } }: {"S":{"x":1,"x":1}} and {"A":null,"A":null} fail *)
  from_value_ref dup_env 4 (TyNamed (s2l "V")) (VObj [(s2l "S", VObj [(s2l "x", VNum (s2l "1")); (s2l "x", VNum (s2l "1"))])]) = Err tt /\
  from_value_ref dup_env 4 (TyNamed (s2l "V")) (VObj [(s2l "A", VNull); (s2l "A", VNull)]) = Err tt.
Proof. repeat split; vm_compute; reflexivity. Qed.

Print Assumptions map_last_wins.
Print Assumptions map_keys_distinct.
Print Assumptions struct_dup_field.
Print Assumptions struct_variant_dup_field.
Print Assumptions enum_repeated_variant_key.
Print Assumptions dup_examples.
