(* Proofs/ObjectRefine.v -- histories: every finite sequence of Object operations, started
   from the empty object, runs without panic in the indexed model (Model/Object.v), keeps
   the index invariant, and produces exactly the entries and the results of the list
   specification (Spec/Multimap.v). *)
From Coq Require Import Sorting.Permutation Sorting.Sorted.
From JsonSyntax Require Import Base.Prelude Base.Value Model.Compare Model.Object Spec.Multimap.
From JsonSyntax Require Import Proofs.ObjectInv.
Local Open Scope nat_scope.

Inductive op :=
| OpPush (k : key) (v : value)
| OpPushFront (k : key) (v : value)
| OpRemoveAt (i : nat)
| OpInsert (k : key) (v : value)
| OpInsertFront (k : key) (v : value)
| OpRemove (k : key)
| OpRemoveUnique (k : key)
| OpGetOrInsertWith (k : key) (v : value)
| OpSetValueAt (i : nat) (v : value)
| OpExtend (l : list entry)
| OpSort
| OpClone
| OpTake.

Inductive out :=
| OutUnit
| OutBool (b : bool)
| OutEntry (e : option entry)
| OutRemovedOpt (l : option (list entry))
| OutRemoved (l : list entry)
| OutUnique (u : m_unique entry)
| OutValue (v : value).

Definition omap {A B} (f : A -> B) (x : option A) : option B :=
  match x with Some a => Some (f a) | None => None end.

Definition step (o : obj) (p : op) : option (obj * out) :=
  match p with
  | OpPush k v => omap (fun r => (fst r, OutBool (snd r))) (push o k v)
  | OpPushFront k v => omap (fun r => (fst r, OutBool (snd r))) (push_front o k v)
  | OpRemoveAt i => omap (fun r => (fst r, OutEntry (snd r))) (remove_at o i)
  | OpInsert k v => omap (fun r => (fst r, OutRemovedOpt (snd r))) (insert o k v)
  | OpInsertFront k v => omap (fun r => (fst r, OutRemoved (snd r))) (insert_front o k v)
  | OpRemove k => omap (fun r => (fst r, OutRemoved (snd r))) (remove o k)
  | OpRemoveUnique k => omap (fun r => (fst r, OutUnique (conv_unique (snd r)))) (remove_unique o k)
  | OpGetOrInsertWith k v => omap (fun r => (fst r, OutValue (snd r))) (get_or_insert_with o k v)
  | OpSetValueAt i v => Some (set_value_at o i v, OutUnit)
  | OpExtend l => omap (fun o' => (o', OutUnit)) (extend o l)
  | OpSort => omap (fun o' => (o', OutUnit)) (sort o)
  | OpClone => Some (o, OutUnit)
  | OpTake => Some (empty_obj, OutUnit)
  end.

Definition spec_step (es : list entry) (p : op) : list entry * out :=
  match p with
  | OpPush k v => let r := m_push es (k, v) in (fst r, OutBool (snd r))
  | OpPushFront k v => let r := m_push_front es (k, v) in (fst r, OutBool (snd r))
  | OpRemoveAt i => let r := m_remove_at es i in (fst r, OutEntry (snd r))
  | OpInsert k v => let r := m_insert es k v in (fst r, OutRemovedOpt (snd r))
  | OpInsertFront k v => let r := m_insert_front es k v in (fst r, OutRemoved (snd r))
  | OpRemove k => let r := m_remove es k in (fst r, OutRemoved (snd r))
  | OpRemoveUnique k => let r := m_remove_unique es k in (fst r, OutUnique (snd r))
  | OpGetOrInsertWith k v => let r := m_get_or_insert_with es k v in (fst r, OutValue (snd r))
  | OpSetValueAt i v => (m_set_value_at es i v, OutUnit)
  | OpExtend l => (m_extend es l, OutUnit)
  | OpSort => (stable_sort entry_cmp es, OutUnit)
  | OpClone => (es, OutUnit)
  | OpTake => ([], OutUnit)
  end.

(* run: left to right, collecting the outputs in order *)
Fixpoint run (ops : list op) (o : obj) : option (obj * list out) :=
  match ops with
  | [] => Some (o, [])
  | p :: r =>
      match step o p with
      | None => None
      | Some (o', x) =>
          match run r o' with
          | None => None
          | Some (o'', xs) => Some (o'', x :: xs)
          end
      end
  end.

Fixpoint spec_run (ops : list op) (es : list entry) : list entry * list out :=
  match ops with
  | [] => (es, [])
  | p :: r =>
      let '(es', x) := spec_step es p in
      let '(es'', xs) := spec_run r es' in
      (es'', x :: xs)
  end.

(* ---- tests: the statements below, evaluated on concrete histories with duplicate keys ---- *)
Module Tests.
  Definition a : key := [0x61%N].
  Definition b : key := [0x62%N].
  Definition c : key := [0x63%N].
  Definition n (x : N) : value := VNum [x].
  Definition h1 := [OpPush a (n 1); OpPush b (n 2); OpPush a (n 3); OpPush c (n 4); OpPush a (n 5);
                    OpPushFront b (n 6); OpRemoveAt 1; OpInsert a (n 7); OpPush a (n 8); OpPush b (n 9);
                    OpInsertFront b (n 10); OpPush c (n 11); OpRemove c; OpPush a (n 12);
                    OpRemoveUnique a; OpGetOrInsertWith a (n 13); OpGetOrInsertWith a (n 14);
                    OpSetValueAt 0 (n 15); OpExtend [(a, n 16); (b, n 17); (a, n 18)]; OpSort; OpClone;
                    OpInsertFront c (n 19); OpInsertFront c (n 20); OpRemoveAt 0; OpRemoveAt 100].
  Definition h2 := [OpExtend [(a, n 1); (b, n 2); (a, n 3); (b, n 4); (a, n 5); (c, n 6)];
                    OpInsert a (n 7); OpRemoveAt 2; OpPushFront a (n 8); OpInsertFront b (n 9);
                    OpRemoveUnique c; OpRemoveUnique c; OpTake; OpInsertFront a (n 1);
                    OpInsert a (n 2); OpPushFront a (n 3); OpRemove a].
  Definition agrees (ops : list op) : Prop :=
    match run ops empty_obj with
    | Some (o, outs) => (entries o, outs) = spec_run ops []
    | None => False
    end.
  Example h1_agrees : agrees h1. Proof. vm_compute. reflexivity. Qed.
  Example h2_agrees : agrees h2. Proof. vm_compute. reflexivity. Qed.
  Example h1_dump : option_map (fun r => dump (fst r)) (run h1 empty_obj) = Some [[0; 1; 2]; [3; 4]].
  Proof. vm_compute. reflexivity. Qed.
End Tests.

(* ================================================================== *)
(* one step                                                            *)
(* ================================================================== *)
Lemma step_refines o p :
  Inv o ->
  exists o' x, step o p = Some (o', x) /\ Inv o' /\ (entries o', x) = spec_step (entries o) p.
Proof.
  intros HI. destruct p as [k v|k v|i|k v|k v|k|k|k v|i v|l| | |]; cbn [step spec_step].
  - destruct (push_refines o k v HI) as (o' & r & H & HI' & Hm). rewrite H. cbn [omap fst snd].
    eexists; eexists. split; [reflexivity|]. split; auto. rewrite <- Hm. reflexivity.
  - destruct (push_front_refines o k v HI) as (o' & r & H & HI' & Hm). rewrite H. cbn [omap fst snd].
    eexists; eexists. split; [reflexivity|]. split; auto. rewrite <- Hm. reflexivity.
  - destruct (remove_at_refines o i HI) as (o' & r & H & HI' & Hm). rewrite H. cbn [omap fst snd].
    eexists; eexists. split; [reflexivity|]. split; auto. rewrite <- Hm. reflexivity.
  - destruct (insert_refines o k v HI) as (o' & r & H & HI' & Hm). rewrite H. cbn [omap fst snd].
    eexists; eexists. split; [reflexivity|]. split; auto. rewrite <- Hm. reflexivity.
  - destruct (insert_front_refines o k v HI) as (o' & r & H & HI' & Hm). rewrite H. cbn [omap fst snd].
    eexists; eexists. split; [reflexivity|]. split; auto. rewrite <- Hm. reflexivity.
  - destruct (remove_refines o k HI) as (o' & r & H & HI' & Hm). rewrite H. cbn [omap fst snd].
    eexists; eexists. split; [reflexivity|]. split; auto. rewrite <- Hm. reflexivity.
  - destruct (remove_unique_refines o k HI) as (o' & r & H & HI' & Hm). rewrite H. cbn [omap fst snd].
    eexists; eexists. split; [reflexivity|]. split; auto. rewrite <- Hm. reflexivity.
  - destruct (get_or_insert_with_refines o k v HI) as (o' & r & H & HI' & Hm). rewrite H.
    cbn [omap fst snd].
    eexists; eexists. split; [reflexivity|]. split; auto. rewrite <- Hm. reflexivity.
  - destruct (set_value_at_refines o i v HI) as (HI' & Hm).
    eexists; eexists. split; [reflexivity|]. split; auto. rewrite <- Hm. reflexivity.
  - destruct (extend_refines l o HI) as (o' & H & HI' & Hm). rewrite H. cbn [omap].
    eexists; eexists. split; [reflexivity|]. split; auto. rewrite <- Hm. reflexivity.
  - destruct (sort_refines_uncond o) as (o' & H & HI' & Hm & _). rewrite H. cbn [omap].
    eexists; eexists. split; [reflexivity|]. split; auto. rewrite <- Hm. reflexivity.
  - eexists; eexists. split; [reflexivity|]. split; auto.
  - eexists; eexists. split; [reflexivity|]. split; [apply inv_empty|]. reflexivity.
Qed.

(* the specification's sort step is a sort in the sense of Spec/Multimap.v, given that the
   entry order is a total preorder (facts about Model.Compare.entry_cmp proved elsewhere) *)
Lemma spec_sort_is_sort
  (cmp_total : forall a b, entry_cmp a b = Gt -> entry_cmp b a <> Gt)
  (cmp_trans : forall a b c, entry_cmp a b <> Gt -> entry_cmp b c <> Gt -> entry_cmp a c <> Gt) es :
  m_is_sort_of entry_cmp es (fst (spec_step es OpSort)).
Proof.
  cbn [spec_step fst]. split.
  - apply stable_sort_perm.
  - apply stable_sort_sorted; auto.
Qed.

Lemma spec_sort_perm es : Permutation es (fst (spec_step es OpSort)).
Proof. cbn [spec_step fst]. apply stable_sort_perm. Qed.

(* ================================================================== *)
(* histories                                                           *)
(* ================================================================== *)
Lemma run_refines ops : forall o,
  Inv o ->
  exists o' outs, run ops o = Some (o', outs) /\ Inv o' /\
                  entries o' = fst (spec_run ops (entries o)) /\
                  outs = snd (spec_run ops (entries o)).
Proof.
  induction ops as [|p r IH]; intros o HI; cbn [run spec_run].
  - exists o, []. auto.
  - destruct (step_refines o p HI) as (o1 & x & Hs & HI1 & Hm). rewrite Hs. rewrite <- Hm.
    destruct (IH o1 HI1) as (o' & outs & Hr & HI' & He & Ho). rewrite Hr.
    destruct (spec_run r (entries o1)) as [es'' xs]. cbn [fst snd] in *.
    exists o', (x :: outs). subst xs. auto.
Qed.

Theorem history_refines : forall ops,
  exists o outs, run ops empty_obj = Some (o, outs) /\ Inv o /\
                 entries o = fst (spec_run ops []) /\ outs = snd (spec_run ops []).
Proof. intros ops. apply (run_refines ops empty_obj inv_empty). Qed.

(* every object reached by a history satisfies the invariant ... *)
Corollary history_inv ops o outs : run ops empty_obj = Some (o, outs) -> Inv o.
Proof.
  intros H. destruct (history_refines ops) as (o' & outs' & H' & HI & _). congruence.
Qed.

(* ... hence every query on it is the linear scan of the specification's entry list *)
Corollary history_queries_scan ops o outs k :
  run ops empty_obj = Some (o, outs) ->
  entries o = fst (spec_run ops []) /\
  contains_key o k = Some (m_contains (entries o) k) /\
  index_of o k = Some (m_index_of (entries o) k) /\
  redundant_index_of o k = Some (m_redundant_index_of (entries o) k) /\
  indexes_of o k = Some (m_indexes_of (entries o) k) /\
  get o k = Some (m_get (entries o) k) /\
  get_entries o k = Some (m_get_entries (entries o) k) /\
  get_entries_with_index o k = Some (m_get_entries_with_index (entries o) k) /\
  option_map conv_unique (get_unique o k) = Some (m_get_unique (entries o) k) /\
  option_map conv_unique (get_unique_entry o k) = Some (m_get_unique_entry (entries o) k).
Proof.
  intros H. destruct (history_refines ops) as (o' & outs' & H' & HI & He & _).
  rewrite H in H'. inversion H'; subst o' outs'. split; auto. apply queries_scan; auto.
Qed.

Print Assumptions step_refines.
Print Assumptions history_refines.
Print Assumptions history_queries_scan.
Print Assumptions spec_sort_is_sort.
