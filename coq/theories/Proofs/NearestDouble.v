(* Proofs/NearestDouble.v -- Spec/EcmaNumber.nearest_double (signed, zero mantissa included)
   is the IEEE-754 round-to-nearest-even binary64 of the exact decimal it is given. *)
From Coq Require Import ZArith List Bool SpecFloat Reals Lia Lra.
From Flocq Require Import Core BinarySingleNaN.
From JsonSyntax Require Import Base.Float64 Spec.EcmaNumber Proofs.Float64Proofs.
Local Open Scope Z_scope.

(* the real number a decimal denotes *)
Definition decimal_R (d : decimal) : R :=
  cond_Ropp (d_neg d) (IZR (d_mant d) * bpow radix10 (d_exp d))%R.

Local Instance fexp64_valid' : Valid_exp fexp64.
Proof. unfold fexp64. apply FLT_exp_valid. reflexivity. Qed.

Lemma round64_opp : forall x, round64 (- x) = (- round64 x)%R.
Proof. intros x. unfold round64. apply round_NE_opp. Qed.

Lemma SF2R_sf_neg : forall z, SF2R radix2 (sf_neg z) = (- SF2R radix2 z)%R.
Proof.
  intros [s|s| |s m e]; cbn [sf_neg SF2R]; try (symmetry; apply Ropp_0).
  destruct s; cbn [negb cond_Zopp]; rewrite <- F2R_Zopp; reflexivity.
Qed.

Lemma valid_sf_neg : forall z, valid_binary 53 1024 (sf_neg z) = valid_binary 53 1024 z.
Proof. intros [s|s| |s m e]; reflexivity. Qed.

Lemma finite_sf_neg : forall z, is_finite_SF (sf_neg z) = is_finite_SF z.
Proof. intros [s|s| |s m e]; reflexivity. Qed.

Theorem nearest_double_correct : forall d, 0 <= d_mant d ->
  let x := decimal_R d in
  let z := nearest_double d in
  if Rlt_bool (Rabs (round64 x)) (bpow radix2 1024) then
    valid_binary 53 1024 z = true /\ is_finite_SF z = true /\ sign_SF z = d_neg d /\
    SF2R radix2 z = round64 x
  else z = S754_infinity (d_neg d).
Proof.
  intros [ng m e] Hm. cbn [d_mant] in Hm. unfold decimal_R, nearest_double.
  cbn [d_neg d_mant d_exp]. cbv zeta.
  destruct m as [|p|p]; [| |lia].
  - (* zero mantissa *)
    rewrite Rmult_0_l.
    assert (E : cond_Ropp ng 0 = 0%R) by (destruct ng; cbn; [apply Ropp_0|reflexivity]).
    rewrite E. unfold round64. rewrite round_0 by auto with typeclass_instances.
    rewrite Rabs_R0, Rlt_bool_true by apply bpow_gt_0. repeat split; reflexivity.
  - pose proof (nearest_double_pos_correct p e) as H. unfold nd_spec, dec_R in H.
    set (x := (IZR (Z.pos p) * bpow radix10 e)%R) in *.
    destruct ng; cbn [cond_Ropp].
    + rewrite round64_opp, Rabs_Ropp.
      destruct (Rlt_bool (Rabs (round64 x)) (bpow radix2 1024)).
      * destruct H as [V [F [S R]]].
        rewrite valid_sf_neg, finite_sf_neg, SF2R_sf_neg, R.
        repeat split; try assumption.
        destruct (nearest_double_pos p e); cbn in *; try discriminate; now rewrite S.
      * rewrite H. reflexivity.
    + destruct (Rlt_bool (Rabs (round64 x)) (bpow radix2 1024)).
      * destruct H as [V [F [S R]]]. repeat split; assumption.
      * exact H.
Qed.

(* read_decimal only produces non-negative mantissas, so the theorem applies to every spelling *)
Lemma read_digits_nonneg : forall l acc cnt, 0 <= acc -> 0 <= fst (fst (read_digits l acc cnt)).
Proof.
  induction l as [|c l IH]; intros acc cnt Ha; [exact Ha|].
  cbn [read_digits]. destruct (is_dig c) eqn:Hc; [|exact Ha].
  apply IH. unfold is_dig in Hc. apply andb_true_iff in Hc. rewrite !N.leb_le in Hc.
  unfold dig_val. lia.
Qed.

Theorem read_decimal_mant_nonneg : forall n d, read_decimal n = Some d -> 0 <= d_mant d.
Proof.
  intros n d. unfold read_decimal.
  destruct (match n with 45%N :: r => (true, r) | _ => (false, n) end) as [neg l0].
  pose proof (read_digits_nonneg l0 0 0 ltac:(lia)) as H0.
  destruct (read_digits l0 0 0) as [[ip ic] l1]. cbn [fst] in H0.
  destruct (ic =? 0); [discriminate|].
  assert (Hm : forall m fc l2,
    match l1 with
    | 46%N :: r => let '(m, c, l) := read_digits r ip 0 in (m, c, l)
    | _ => (ip, 0, l1)
    end = (m, fc, l2) -> 0 <= m).
  { intros m fc l2 E. destruct l1 as [|c r]; [injection E as <- _ _; exact H0|].
    assert (Hr : 0 <= fst (fst (read_digits r ip 0))) by now apply read_digits_nonneg.
    destruct (read_digits r ip 0) as [[m' c'] l'] eqn:Er. cbn [fst] in Hr.
    destruct c as [|q]; [injection E as <- _ _; exact H0|].
    repeat match goal with q : positive |- _ => destruct q; try (injection E as <- _ _; exact H0) end.
    injection E as <- _ _. exact Hr. }
  destruct (match l1 with
            | 46%N :: r => let '(m, c, l) := read_digits r ip 0 in (m, c, l)
            | _ => (ip, 0, l1)
            end) as [[m fc] l2] eqn:E.
  specialize (Hm _ _ _ eq_refl).
  destruct l2 as [|e r]; [intros H; injection H as <-; exact Hm|].
  destruct (N.eqb e 101 || N.eqb e 69)%bool; [|discriminate].
  destruct (match r with 45%N :: r' => (true, r') | 43%N :: r' => (false, r') | _ => (false, r) end) as [eneg l3].
  destruct (read_digits l3 0 0) as [[ev ec] l4].
  destruct l4; [|discriminate]. destruct (ec =? 0); [discriminate|].
  intros H; injection H as <-; exact Hm.
Qed.

Print Assumptions nearest_double_correct.
Print Assumptions read_decimal_mant_nonneg.
