(* Proofs/ParserComplete.v -- completeness of the recursive-descent reference parser
   (Proofs/ParserRecDef.v) with respect to the grammar of Spec/Grammar.v:
   every JSON text of the grammar is parsed to exactly its denoted value and code map.
   Corollary: the grammar is functional. *)
From JsonSyntax Require Import Base.Prelude Base.Value Base.Unicode Model.Parser
     Proofs.ParserRecDef Spec.Grammar Proofs.ParserCompleteLex.
From Coq Require Import ZifyBool ZifyN.

(* ---------- unfolding equations of the reference parser ---------- *)
Lemma pvalue_S f o ctx st :
  pvalue (S f) o ctx st =
  do ((fr, i), st1) <- parse_fragment o ctx st;
  match fr with
  | FrValue v => Ok ((v, i), st1)
  | FrBeginArray => parr_items f o [] i st1
  | FrBeginObject k e => pobj_entry f o [] i k e st1
  end.
Proof. reflexivity. Qed.

Lemma parr_items_S f o a i st :
  parr_items (S f) o a i st =
  do ((v, _), st1) <- pvalue f o CArray st; parr_cont f o (a ++ [v]) i st1.
Proof. reflexivity. Qed.

Lemma parr_cont_S f o a i st :
  parr_cont (S f) o a i st =
  do (item, st1) <- array_continue i st;
  if item then parr_items f o a i st1 else Ok ((VArr a, i), st1).
Proof. reflexivity. Qed.

Lemma pobj_entry_S f o es i k e st :
  pobj_entry (S f) o es i k e st =
  do ((v, _), st1) <- pvalue f o CObjectValue st;
  do (_, st2) <- end_fragment e st1;
  pobj_cont f o (es ++ [(k, v)]) i st2.
Proof. reflexivity. Qed.

Lemma pobj_cont_S f o es i st :
  pobj_cont (S f) o es i st =
  do (next, st1) <- object_continue o i st;
  match next with
  | Some (k, e) => pobj_entry f o es i k e st1
  | None => Ok ((VObj es, i), st1)
  end.
Proof. reflexivity. Qed.

(* ---------- small helpers ---------- *)
Ltac reassoc := repeat (rewrite <- app_assoc || rewrite <- app_comm_cons); cbn [app].

Ltac eq_tac := repeat (first [ reflexivity | lia | (apply shift_ext; lia) | f_equal ]).

Ltac norm_rw :=
  repeat (rewrite blen_app || rewrite blen_cons || rewrite shift_app || rewrite shift_shift
          || rewrite app_length || rewrite shift_length).
Ltac norm_all := norm_rw; cbn [snd fst length blen fold_right]; norm_rw.

Lemma obind_eq {E A B} (x : outcome E A) a (k : A -> outcome E B) : x = Ok a -> obind x k = k a.
Proof. intros ->. reflexivity. Qed.

(* use an equation up to conversion (type synonyms item / cme get in the way of rewrite) *)
Ltac step E := etransitivity; [ first [ exact E | apply obind_eq; exact E ] | cbn beta iota ].

Lemma ok_eq {A} (a b : A) l p1 p2 (c1 c2 : list cme) :
  a = b -> p1 = p2 -> c1 = c2 -> (Ok (a, mk l p1 c1) : res A) = Ok (b, mk l p2 c2).
Proof. intros -> -> ->. reflexivity. Qed.

Lemma app_assoc_cons {A} (C : list A) x D E : (C ++ x :: D) ++ E = C ++ x :: (D ++ E).
Proof. now rewrite <- app_assoc. Qed.

Lemma shift_cons0 d b v m : shift d ((0, b, v) :: m) = (d, d + b, v) :: shift d m.
Proof. cbn [shift map]. eq_tac. Qed.

Lemma follows_ws ctx c : is_ws c = true -> follows ctx c = true.
Proof. intros H. destruct ctx; cbn; rewrite H; reflexivity. Qed.

Lemma folok_app ctx w x r : ws w -> follows ctx (fst x) = true -> folok ctx (w ++ x :: r).
Proof.
  intros Hw Hx. destruct w as [|y w]; cbn; [exact Hx|].
  inversion Hw as [|? ? Hy _]; subst. apply follows_ws. now rewrite <- ws_is_ws.
Qed.

Lemma folok_ws ctx w : ws w -> folok ctx w.
Proof.
  intros Hw. destruct w as [|y w]; cbn; [exact I|].
  inversion Hw as [|? ? Hy _]; subst. apply follows_ws. now rewrite <- ws_is_ws.
Qed.

(* ---------- first characters ---------- *)
Lemma jv_head o t v m : jv o t v m ->
  exists q y, t = q :: y /\ is_ws (fst q) = false /\ fst q <> 0x5D /\ fst q <> 0x7D.
Proof.
  intros H. destruct H as [t H|t H|t H|t H|t s H|lb w rb H1 H2 _|lb t rb vs m H1 H2 _
                            |lb w rb H1 H2 _|lb t rb es m H1 H2 _].
  1-3: apply cps_cons_inv in H; destruct H as (l & t' & -> & _); eexists _, _;
       (split; [reflexivity|]); cbn; repeat split; congruence.
  - destruct (jnum_head _ H) as (x & n' & E & Hx).
    apply cps_cons_inv in E. destruct E as (l & t' & -> & _). eexists _, _. split; [reflexivity|].
    cbn [fst]. unfold is_digit in Hx. unfold is_ws. lia.
  - destruct (jstr_inv _ _ _ H) as (l1 & body & l2 & _ & _ & -> & _). eexists _, _.
    split; [reflexivity|]. cbn. repeat split; congruence.
  - eexists _, _. split; [reflexivity|]. rewrite H1. cbn. repeat split; congruence.
  - eexists _, _. split; [reflexivity|]. rewrite H1. cbn. repeat split; congruence.
  - eexists _, _. split; [reflexivity|]. rewrite H1. cbn. repeat split; congruence.
  - eexists _, _. split; [reflexivity|]. rewrite H1. cbn. repeat split; congruence.
Qed.

Lemma jv_len o t v m : jv o t v m -> (1 <= length t)%nat.
Proof. intros H. destruct (jv_head _ _ _ _ H) as (q & y & -> & _). cbn. lia. Qed.

Lemma jitems_head o x vs m : jitems o x vs m ->
  exists w1 q y, x = w1 ++ q :: y /\ ws w1 /\ is_ws (fst q) = false /\ fst q <> 0x5D.
Proof.
  intros H. destruct H as [w1 t w2 v m Hw1 _ Hv|w1 t w2 comma r v m vs ms Hw1 _ _ Hv _];
    destruct (jv_head _ _ _ _ Hv) as (q & y & -> & Hq1 & Hq2 & _);
    exists w1, q; eexists; (split; [cbn [app]; reflexivity|]); auto.
Qed.

Lemma jentry_head o e k v m : jentry o e k v m ->
  exists l y, e = (0x22, l) :: y /\ (2 <= length e)%nat.
Proof.
  intros H. destruct H as [kt w1 colon w2 vt k v m Hk _ _ _ _].
  destruct (jstr_inv _ _ _ Hk) as (l1 & body & l2 & _ & _ & -> & _).
  eexists _, _. split; [cbn [app]; reflexivity|]. cbn [app length]. rewrite !app_length. cbn [length]. lia.
Qed.

Lemma jmembers_head o x es m : jmembers o x es m ->
  exists pre l y, x = pre ++ (0x22, l) :: y /\ ws pre.
Proof.
  intros H. destruct H as [pre e post k v m Hp _ He|pre e post comma r k v m es ms Hp _ _ He _];
    destruct (jentry_head _ _ _ _ _ He) as (l & y & -> & _);
    exists pre, l; eexists; (split; [cbn [app]; reflexivity|]); auto.
Qed.

(* ---------- parse_fragment on each kind of value ---------- *)
Section Frag.
Context (o : opts) (ctx : context).

Lemma frag_null t w r p c :
  cps t = [0x6E; 0x75; 0x6C; 0x6C] -> ws w ->
  parse_fragment o ctx (mk (soks (w ++ t ++ r)) p c)
  = Ok ((FrValue VNull, N.of_nat (length c)),
        mk (soks r) (p + blen w + blen t) (c ++ [(p + blen w, p + blen w + blen t, 1)])).
Proof.
  intros H Hw. pose proof H as H'. apply cps_cons_inv in H'. destruct H' as (l & t' & -> & _).
  cbn [app]. rewrite parse_fragment_ws by auto. rewrite pf_null.
  change ((0x6E, l) :: t' ++ r) with (((0x6E, l) :: t') ++ r).
  rewrite parse_null_ok by assumption. reflexivity.
Qed.

Lemma frag_true t w r p c :
  cps t = [0x74; 0x72; 0x75; 0x65] -> ws w ->
  parse_fragment o ctx (mk (soks (w ++ t ++ r)) p c)
  = Ok ((FrValue (VBool true), N.of_nat (length c)),
        mk (soks r) (p + blen w + blen t) (c ++ [(p + blen w, p + blen w + blen t, 1)])).
Proof.
  intros H Hw. pose proof H as H'. apply cps_cons_inv in H'. destruct H' as (l & t' & -> & _).
  cbn [app]. rewrite parse_fragment_ws by auto. rewrite pf_true.
  change ((0x74, l) :: t' ++ r) with (((0x74, l) :: t') ++ r).
  rewrite parse_bool_true_ok by assumption. reflexivity.
Qed.

Lemma frag_false t w r p c :
  cps t = [0x66; 0x61; 0x6C; 0x73; 0x65] -> ws w ->
  parse_fragment o ctx (mk (soks (w ++ t ++ r)) p c)
  = Ok ((FrValue (VBool false), N.of_nat (length c)),
        mk (soks r) (p + blen w + blen t) (c ++ [(p + blen w, p + blen w + blen t, 1)])).
Proof.
  intros H Hw. pose proof H as H'. apply cps_cons_inv in H'. destruct H' as (l & t' & -> & _).
  cbn [app]. rewrite parse_fragment_ws by auto. rewrite pf_false.
  change ((0x66, l) :: t' ++ r) with (((0x66, l) :: t') ++ r).
  rewrite parse_bool_false_ok by assumption. reflexivity.
Qed.

Lemma frag_num t w r p c :
  jnum (cps t) -> ws w -> folok ctx r ->
  parse_fragment o ctx (mk (soks (w ++ t ++ r)) p c)
  = Ok ((FrValue (VNum (cps t)), N.of_nat (length c)),
        mk (soks r) (p + blen w + blen t) (c ++ [(p + blen w, p + blen w + blen t, 1)])).
Proof.
  intros H Hw Hr. destruct (jnum_head _ H) as (x & n' & E & Hx).
  apply cps_cons_inv in E. destruct E as (l & t' & E & _).
  assert (Hws : is_ws x = false) by (unfold is_digit in Hx; unfold is_ws; lia).
  rewrite E at 1. cbn [app]. rewrite parse_fragment_ws by auto. rewrite pf_number by assumption.
  change ((x, l) :: t' ++ r) with (((x, l) :: t') ++ r). rewrite <- E.
  rewrite parse_number_ok by assumption. reflexivity.
Qed.

Lemma frag_str t s w r p c :
  jstr o (cps t) s -> ws w ->
  parse_fragment o ctx (mk (soks (w ++ t ++ r)) p c)
  = Ok ((FrValue (VStr s), N.of_nat (length c)),
        mk (soks r) (p + blen w + blen t) (c ++ [(p + blen w, p + blen w + blen t, 1)])).
Proof.
  intros H Hw. destruct (jstr_inv _ _ _ H) as (l1 & body & l2 & _ & _ & E & _).
  rewrite E at 1. cbn [app]. rewrite parse_fragment_ws by auto. rewrite pf_string.
  change ((0x22, l1) :: (body ++ [(0x22, l2)]) ++ r) with (((0x22, l1) :: body ++ [(0x22, l2)]) ++ r).
  rewrite <- E. rewrite (parse_string_ok o t s) by assumption. reflexivity.
Qed.

Lemma blen_bracket (lb : item) x (rb : item) : blen (lb :: x ++ [rb]) = snd lb + blen x + snd rb.
Proof. rewrite blen_cons, blen_app, blen_cons. cbn [blen fold_right]. lia. Qed.

Lemma frag_arr0 l1 wi l2 w r p c :
  ws wi -> ws w ->
  parse_fragment o ctx (mk (soks (w ++ ((0x5B, l1) :: wi ++ [(0x5D, l2)]) ++ r)) p c)
  = Ok ((FrValue (VArr []), N.of_nat (length c)),
        mk (soks r) (p + blen w + (l1 + blen wi + l2))
           (c ++ [(p + blen w, p + blen w + (l1 + blen wi + l2), 1)])).
Proof.
  intros Hwi Hw. reassoc. rewrite parse_fragment_ws by auto. rewrite pf_array.
  cbn [app]. rewrite array_start_empty by assumption. cbn [obind].
  apply ok_eq; eq_tac.
Qed.

Lemma frag_obj0 l1 wi l2 w r p c :
  ws wi -> ws w ->
  parse_fragment o ctx (mk (soks (w ++ ((0x7B, l1) :: wi ++ [(0x7D, l2)]) ++ r)) p c)
  = Ok ((FrValue (VObj []), N.of_nat (length c)),
        mk (soks r) (p + blen w + (l1 + blen wi + l2))
           (c ++ [(p + blen w, p + blen w + (l1 + blen wi + l2), 1)])).
Proof.
  intros Hwi Hw. reassoc. rewrite parse_fragment_ws by auto. rewrite pf_object.
  cbn [app]. rewrite object_start_empty by assumption. cbn [obind].
  apply ok_eq; eq_tac.
Qed.

Lemma frag_arr l1 w1 q y w p c :
  ws w1 -> ws w -> is_ws (fst q) = false -> fst q <> 0x5D ->
  parse_fragment o ctx (mk (soks (w ++ (0x5B, l1) :: w1 ++ q :: y)) p c)
  = Ok ((FrBeginArray, N.of_nat (length c)),
        mk (soks (q :: y)) (p + blen w + l1 + blen w1) (c ++ [(p + blen w, p + blen w, 0)])).
Proof.
  intros Hw1 Hw Hq Hq'. rewrite parse_fragment_ws by auto. rewrite pf_array.
  rewrite array_start_nonempty by assumption. reflexivity.
Qed.

Lemma frag_obj l1 w1 q y w p c :
  ws w1 -> ws w -> is_ws (fst q) = false -> fst q <> 0x7D ->
  parse_fragment o ctx (mk (soks (w ++ (0x7B, l1) :: w1 ++ q :: y)) p c)
  = do ((k, e), st3) <- object_key o (mk (soks (q :: y)) (p + blen w + l1 + blen w1)
                                          (c ++ [(p + blen w, p + blen w, 0)]));
    Ok ((FrBeginObject k e, N.of_nat (length c)), st3).
Proof.
  intros Hw1 Hw Hq Hq'. rewrite parse_fragment_ws by auto. rewrite pf_object.
  rewrite object_start_nonempty by assumption.
  destruct (object_key o _) as [[[k e] st3]| | |]; reflexivity.
Qed.
End Frag.

(* white space already skipped makes no difference *)
Lemma parr_items_skip f o a i w q y p c :
  ws w -> is_ws (fst q) = false ->
  parr_items f o a i (mk (soks (w ++ q :: y)) p c)
  = parr_items f o a i (mk (soks (q :: y)) (p + blen w) c).
Proof.
  intros Hw Hq. destruct f as [|f]; [reflexivity|]. rewrite !parr_items_S.
  destruct f as [|f]; [reflexivity|]. rewrite !pvalue_S.
  rewrite parse_fragment_ws by assumption. reflexivity.
Qed.

Lemma object_continue_comma' o i w l y p c :
  ws w ->
  object_continue o i (mk (soks (w ++ (0x2C, l) :: y)) p c)
  = do (_, st3) <- skip_whitespaces (mk (soks y) (p + blen w + l) c);
    do ((k, e), st4) <- object_key o st3;
    Ok (Some (k, e), st4).
Proof.
  intros Hw. unfold object_continue. rewrite skip_ws_ok by (auto; reflexivity). reflexivity.
Qed.

Lemma pobj_cont_comma f o es i w l y p c :
  ws w ->
  pobj_cont (S f) o es i (mk (soks (w ++ (0x2C, l) :: y)) p c)
  = do (_, st2) <- skip_whitespaces (mk (soks y) (p + blen w + l) c);
    do ((k, e), st3) <- object_key o st2;
    pobj_entry f o es i k e st3.
Proof.
  intros Hw. rewrite pobj_cont_S, object_continue_comma' by assumption.
  destruct (skip_whitespaces _) as [[[] st2]| | |]; cbn [obind]; try reflexivity.
  destruct (object_key o st2) as [[[k e] st3]| | |]; reflexivity.
Qed.

(* ---------- the four statements proved by mutual induction ---------- *)
Section Complete.
Context (o : opts).

(* a value with source t, preceded by white space w, followed by r *)
Definition Pv (t : list item) (v : value) (m : list cme) : Prop :=
  forall f ctx w r p c, ws w -> folok ctx r -> (length t <= f)%nat ->
  pvalue f o ctx (mk (soks (w ++ t ++ r)) p c)
  = Ok ((v, N.of_nat (length c)),
        mk (soks r) (p + blen w + blen t) (c ++ shift (p + blen w) m)).

(* the items x of an array whose fragment sits at index |C| of the code map, up to the
   closing bracket *)
Definition Pitems (x : list item) (vs : list value) (m : list cme) : Prop :=
  forall f a l r p C s0 e0 v0 D, (length x + 1 <= f)%nat -> s0 <= p ->
  parr_items f o a (N.of_nat (length C))
             (mk (soks (x ++ (0x5D, l) :: r)) p (C ++ (s0, e0, v0) :: D))
  = Ok ((VArr (a ++ vs), N.of_nat (length C)),
        mk (soks r) (p + blen x + l)
           (C ++ (s0, p + blen x + l, 1 + N.of_nat (length D + length m)) :: D ++ shift p m)).

(* the members x of an object, up to the closing brace *)
Definition Pmembers (x : list item) (es : list (list N * value)) (m : list cme) : Prop :=
  forall f acc l r p C s0 e0 v0 D, (length x <= f)%nat -> s0 <= p ->
  (do (_, st2) <- skip_whitespaces (mk (soks (x ++ (0x7D, l) :: r)) p (C ++ (s0, e0, v0) :: D));
   do ((k, e), st3) <- object_key o st2;
   pobj_entry f o acc (N.of_nat (length C)) k e st3)
  = Ok ((VObj (acc ++ es), N.of_nat (length C)),
        mk (soks r) (p + blen x + l)
           (C ++ (s0, p + blen x + l, 1 + N.of_nat (length D + length m)) :: D ++ shift p m)).

(* one member: key, colon, value, and the completion of the entry fragment *)
Definition Pentry (e : list item) (k : list N) (v : value) (m : list cme) : Prop :=
  forall f r p c, folok CObjectValue r -> (length e <= f + 1)%nat ->
  exists st3, object_key o (mk (soks (e ++ r)) p c) = Ok ((k, N.of_nat (length c)), st3) /\
  exists j st4, pvalue f o CObjectValue st3 = Ok ((v, j), st4) /\
  end_fragment (N.of_nat (length c)) st4
  = Ok (tt, mk (soks r) (p + blen e) (c ++ shift p m)).

Lemma shift_single d b v : shift d [(0, b, v)] = [(d, d + b, v)].
Proof. apply shift_cons0. Qed.

Lemma Pv_scalar t v :
  (1 <= length t)%nat ->
  (forall ctx w r p c, ws w -> folok ctx r ->
     parse_fragment o ctx (mk (soks (w ++ t ++ r)) p c)
     = Ok ((FrValue v, N.of_nat (length c)),
           mk (soks r) (p + blen w + blen t) (c ++ [(p + blen w, p + blen w + blen t, 1)]))) ->
  Pv t v [(0, blen t, 1)].
Proof.
  intros Hl H f ctx w r p c Hw Hr Hf. destruct f as [|f]; [lia|].
  rewrite pvalue_S, H by assumption. cbn [obind]. now rewrite shift_single.
Qed.

Lemma cps_len t cs : cps t = cs -> length t = length cs.
Proof. intros <-. now rewrite cps_length. Qed.

Lemma case_null t : cps t = [0x6E; 0x75; 0x6C; 0x6C] -> Pv t VNull [(0, blen t, 1)].
Proof.
  intros H. apply Pv_scalar; [rewrite (cps_len _ _ H); cbn; lia|].
  intros. now apply frag_null.
Qed.

Lemma case_true t : cps t = [0x74; 0x72; 0x75; 0x65] -> Pv t (VBool true) [(0, blen t, 1)].
Proof.
  intros H. apply Pv_scalar; [rewrite (cps_len _ _ H); cbn; lia|].
  intros. now apply frag_true.
Qed.

Lemma case_false t : cps t = [0x66; 0x61; 0x6C; 0x73; 0x65] -> Pv t (VBool false) [(0, blen t, 1)].
Proof.
  intros H. apply Pv_scalar; [rewrite (cps_len _ _ H); cbn; lia|].
  intros. now apply frag_false.
Qed.

Lemma case_num t : jnum (cps t) -> Pv t (VNum (cps t)) [(0, blen t, 1)].
Proof.
  intros H. apply Pv_scalar.
  - destruct (jnum_head _ H) as (x & n' & E & _). rewrite (cps_len _ _ E). cbn; lia.
  - intros. now apply frag_num.
Qed.

Lemma case_str t s : jstr o (cps t) s -> Pv t (VStr s) [(0, blen t, 1)].
Proof.
  intros H. apply Pv_scalar.
  - destruct (jstr_inv _ _ _ H) as (l1 & body & l2 & _ & _ & -> & _). cbn; lia.
  - intros. now apply frag_str.
Qed.

Lemma case_arr0 lb w rb : fst lb = 0x5B -> fst rb = 0x5D -> ws w ->
  Pv (lb :: w ++ [rb]) (VArr []) [(0, blen (lb :: w ++ [rb]), 1)].
Proof.
  intros H1 H2 Hw. destruct lb as [lc l1], rb as [rc l2]. cbn [fst] in H1, H2. subst lc rc.
  apply Pv_scalar; [cbn; lia|]. intros ctx w0 r p c Hw0 Hr.
  rewrite frag_arr0 by assumption. rewrite blen_bracket. reflexivity.
Qed.

Lemma case_obj0 lb w rb : fst lb = 0x7B -> fst rb = 0x7D -> ws w ->
  Pv (lb :: w ++ [rb]) (VObj []) [(0, blen (lb :: w ++ [rb]), 1)].
Proof.
  intros H1 H2 Hw. destruct lb as [lc l1], rb as [rc l2]. cbn [fst] in H1, H2. subst lc rc.
  apply Pv_scalar; [cbn; lia|]. intros ctx w0 r p c Hw0 Hr.
  rewrite frag_obj0 by assumption. rewrite blen_bracket. reflexivity.
Qed.

(* ---------- arrays ---------- *)
Lemma case_arr lb t rb vs m : fst lb = 0x5B -> fst rb = 0x5D -> jitems o t vs m -> Pitems t vs m ->
  Pv (lb :: t ++ [rb]) (VArr vs) ((0, blen (lb :: t ++ [rb]), 1 + vol m) :: shift (snd lb) m).
Proof.
  intros H1 H2 Hit IH f ctx w r p c Hw Hr Hf.
  destruct lb as [lc l1], rb as [rc l2]. cbn [fst snd] in *. subst lc rc.
  destruct (jitems_head _ _ _ _ Hit) as (w1 & q & y & Hx & Hw1 & Hq1 & Hq2).
  destruct f as [|f]; [cbn in Hf; lia|]. cbn [length] in Hf. rewrite app_length in Hf. cbn [length] in Hf.
  rewrite pvalue_S.
  pose proof (IH f [] l2 r (p + blen w + l1) c (p + blen w) (p + blen w) 0 [] ltac:(lia) ltac:(lia)) as E.
  rewrite blen_bracket, shift_cons0, shift_shift. unfold vol. cbn [snd].
  subst t. reassoc. rewrite <- app_assoc, <- app_comm_cons in E.
  rewrite frag_arr by assumption. cbn [obind].
  rewrite <- (parr_items_skip f o [] _ w1) by assumption.
  step E. cbn [app length]. apply ok_eq; eq_tac.
Qed.

Lemma case_items_one w1 t w2 v m : ws w1 -> ws w2 -> jv o t v m -> Pv t v m ->
  Pitems (w1 ++ t ++ w2) [v] (shift (blen w1) m).
Proof.
  intros Hw1 Hw2 Hv IH f a l r p C s0 e0 v0 D Hf Hs.
  pose proof (jv_len _ _ _ _ Hv) as Hlen. rewrite !app_length in Hf.
  destruct f as [|f]; [lia|]. rewrite parr_items_S. reassoc.
  rewrite (IH f CArray w1 (w2 ++ (0x5D, l) :: r)); [|assumption|now apply folok_app|lia].
  cbn [obind]. destruct f as [|f]; [lia|].
  rewrite parr_cont_S, app_assoc_cons, array_continue_close by (auto; lia). cbn [obind].
  norm_all. apply ok_eq; eq_tac.
Qed.

Lemma case_items_cons w1 t w2 comma r0 v m vs ms :
  ws w1 -> ws w2 -> fst comma = 0x2C -> jv o t v m -> Pv t v m -> Pitems r0 vs ms ->
  Pitems (w1 ++ t ++ w2 ++ comma :: r0) (v :: vs)
         (shift (blen w1) m ++ shift (blen (w1 ++ t ++ w2) + snd comma) ms).
Proof.
  intros Hw1 Hw2 Hc Hv IHv IHr f a l r p C s0 e0 v0 D Hf Hs.
  destruct comma as [cc lc]. cbn [fst snd] in *. subst cc.
  pose proof (jv_len _ _ _ _ Hv) as Hlen. rewrite !app_length in Hf. cbn [length] in Hf.
  destruct f as [|f]; [lia|]. rewrite parr_items_S. reassoc.
  rewrite (IHv f CArray w1 (w2 ++ (0x2C, lc) :: r0 ++ (0x5D, l) :: r)); [|assumption|now apply folok_app|lia].
  cbn [obind]. destruct f as [|f]; [lia|].
  rewrite parr_cont_S, array_continue_comma by assumption. cbn [obind].
  rewrite app_assoc_cons.
  rewrite (IHr f (a ++ [v]) l r _ C s0 e0 v0 (D ++ shift (p + blen w1) m)) by lia.
  norm_all. rewrite <- ?app_assoc. cbn [app]. apply ok_eq; eq_tac.
Qed.

(* ---------- objects ---------- *)
Lemma case_entry kt w1 colon w2 vt k v m :
  jstr o (cps kt) k -> ws w1 -> ws w2 -> fst colon = 0x3A -> jv o vt v m -> Pv vt v m ->
  Pentry (kt ++ w1 ++ colon :: w2 ++ vt) k v
         ((0, blen (kt ++ w1 ++ colon :: w2 ++ vt), 2 + vol m) :: (0, blen kt, 1)
            :: shift (blen (kt ++ w1) + snd colon + blen w2) m).
Proof.
  intros Hk Hw1 Hw2 Hc Hv IH f r p c Hr Hf.
  destruct colon as [cc lc]. cbn [fst snd] in *. subst cc.
  rewrite !app_length in Hf. cbn [length] in Hf. rewrite app_length in Hf.
  reassoc. eexists. split; [apply object_key_ok; assumption|].
  eexists _, _. split; [apply IH; [assumption|assumption|lia]|].
  cbn [length]. rewrite <- app_assoc. cbn [app].
  rewrite end_fragment_ok by lia.
  rewrite !shift_cons0, shift_shift. unfold vol. norm_all.
  apply ok_eq; eq_tac.
Qed.

Lemma case_members_one pre e post k v m :
  ws pre -> ws post -> jentry o e k v m -> Pentry e k v m ->
  Pmembers (pre ++ e ++ post) [(k, v)] (shift (blen pre) m).
Proof.
  intros Hpre Hpost He IH f acc l r p C s0 e0 v0 D Hf Hs.
  destruct (jentry_head _ _ _ _ _ He) as (lq & ye & Ehd & Hle).
  rewrite !app_length in Hf.
  destruct f as [|f]; [lia|].
  destruct (IH f (post ++ (0x7D, l) :: r) (p + blen pre) (C ++ (s0, e0, v0) :: D))
    as (st3 & E1 & j & st4 & E2 & E3); [now apply folok_app|lia|].
  reassoc. rewrite skip_ws_ok; [|assumption|rewrite Ehd; reflexivity]. cbn [obind].
  step E1. rewrite pobj_entry_S. step E2. step E3.
  destruct f as [|f]; [lia|].
  rewrite pobj_cont_S, app_assoc_cons, object_continue_close by (auto; lia). cbn [obind].
  norm_all. rewrite <- ?app_assoc. cbn [app]. apply ok_eq; eq_tac.
Qed.

Lemma case_members_cons pre e post comma r0 k v m es ms :
  ws pre -> ws post -> fst comma = 0x2C -> jentry o e k v m -> Pentry e k v m -> Pmembers r0 es ms ->
  Pmembers (pre ++ e ++ post ++ comma :: r0) ((k, v) :: es)
           (shift (blen pre) m ++ shift (blen (pre ++ e ++ post) + snd comma) ms).
Proof.
  intros Hpre Hpost Hc He IH IHr f acc l r p C s0 e0 v0 D Hf Hs.
  destruct comma as [cc lc]. cbn [fst snd] in *. subst cc.
  destruct (jentry_head _ _ _ _ _ He) as (lq & ye & Ehd & Hle).
  rewrite !app_length in Hf. cbn [length] in Hf.
  destruct f as [|f]; [lia|].
  destruct (IH f (post ++ (0x2C, lc) :: r0 ++ (0x7D, l) :: r) (p + blen pre) (C ++ (s0, e0, v0) :: D))
    as (st3 & E1 & j & st4 & E2 & E3); [now apply folok_app|lia|].
  reassoc. rewrite skip_ws_ok; [|assumption|rewrite Ehd; reflexivity]. cbn [obind].
  step E1. rewrite pobj_entry_S. step E2. step E3.
  destruct f as [|f]; [lia|].
  rewrite pobj_cont_comma by assumption. rewrite app_assoc_cons.
  pose proof (IHr f (acc ++ [(k, v)]) l r (p + blen pre + blen e + blen post + lc)
                  C s0 e0 v0 (D ++ shift (p + blen pre) m) ltac:(lia) ltac:(lia)) as E.
  step E.
  norm_all. rewrite <- ?app_assoc. cbn [app]. apply ok_eq; eq_tac.
Qed.

Lemma case_obj lb t rb es m : fst lb = 0x7B -> fst rb = 0x7D -> jmembers o t es m -> Pmembers t es m ->
  Pv (lb :: t ++ [rb]) (VObj es) ((0, blen (lb :: t ++ [rb]), 1 + vol m) :: shift (snd lb) m).
Proof.
  intros H1 H2 Hm IH f ctx w r p c Hw Hr Hf.
  destruct lb as [lc l1], rb as [rc l2]. cbn [fst snd] in *. subst lc rc.
  destruct (jmembers_head _ _ _ _ Hm) as (pre & lq & y & Hx & Hpre).
  destruct f as [|f]; [cbn in Hf; lia|]. cbn [length] in Hf. rewrite app_length in Hf. cbn [length] in Hf.
  rewrite pvalue_S.
  pose proof (IH f [] l2 r (p + blen w + l1) c (p + blen w) (p + blen w) 0 [] ltac:(lia) ltac:(lia)) as E.
  rewrite blen_bracket, shift_cons0, shift_shift. unfold vol. cbn [snd].
  subst t. reassoc. rewrite <- app_assoc, <- app_comm_cons in E.
  rewrite skip_ws_ok in E; [|assumption|reflexivity]. cbn [obind] in E.
  rewrite frag_obj; [|assumption|assumption|reflexivity|cbn; congruence].
  destruct (object_key o _) as [[[k e] st3]| | |]; cbn [obind] in *; try discriminate E.
  step E. cbn [app length]. apply ok_eq; eq_tac.
Qed.

(* ---------- the mutual induction ---------- *)
Theorem complete_all :
  (forall t v m, jv o t v m -> Pv t v m) /\
  (forall x vs m, jitems o x vs m -> Pitems x vs m) /\
  (forall x es m, jmembers o x es m -> Pmembers x es m) /\
  (forall e k v m, jentry o e k v m -> Pentry e k v m).
Proof.
  apply (jv_mutind o (fun t v m _ => Pv t v m) (fun x vs m _ => Pitems x vs m)
                     (fun x es m _ => Pmembers x es m) (fun e k v m _ => Pentry e k v m)).
  - intros; now apply case_null.
  - intros; now apply case_true.
  - intros; now apply case_false.
  - intros; now apply case_num.
  - intros; now apply case_str.
  - intros; now apply case_arr0.
  - intros; now apply case_arr.
  - intros; now apply case_obj0.
  - intros; now apply case_obj.
  - intros; now apply case_items_one.
  - intros; now apply case_items_cons.
  - intros; now apply case_members_one.
  - intros; now apply case_members_cons.
  - intros; now apply case_entry.
Qed.

Lemma pvalue_complete t v m : jv o t v m -> Pv t v m.
Proof. apply complete_all. Qed.

End Complete.

(* ---------- top level ---------- *)
Theorem rec_complete : forall o s v m,
  stream_ok s -> jtext o (items_of s) v m -> parse_items_rec o s = Ok (v, m).
Proof.
  intros o s v m Hs (pre & mid & post & m0 & Hsplit & Hpre & Hpost & Hv & ->).
  pose proof (stream_ok_length s Hs) as Hlen.
  unfold parse_items_rec, ptop. rewrite (stream_ok_soks s Hs) at 2. rewrite Hsplit.
  rewrite Hsplit, !app_length in Hlen.
  rewrite (pvalue_complete o mid v m0 Hv (rec_fuel s) CNone pre post 0 []);
    [|assumption|now apply folok_ws|unfold rec_fuel; lia].
  cbn [obind].
  rewrite <- (app_nil_r post) at 1. rewrite skip_ws_ok by first [assumption | exact I].
  cbn [obind soks map next_char rest pos cm app]. rewrite N.add_0_l. reflexivity.
Qed.

(* every item list is the item list of an error-free stream *)
Lemma stream_ok_soks_of t : stream_ok (soks t).
Proof.
  unfold stream_ok, soks. apply Forall_forall. intros x Hx.
  apply in_map_iff in Hx. destruct Hx as (i & <- & _). discriminate.
Qed.

Theorem rec_complete_items : forall o t v m,
  jtext o t v m -> parse_items_rec o (soks t) = Ok (v, m).
Proof.
  intros o t v m H. apply rec_complete; [apply stream_ok_soks_of|]. now rewrite items_of_soks.
Qed.

Corollary jtext_functional : forall o t v m v' m',
  jtext o t v m -> jtext o t v' m' -> v = v' /\ m = m'.
Proof.
  intros o t v m v' m' H1 H2.
  apply rec_complete_items in H1. apply rec_complete_items in H2.
  rewrite H1 in H2. inversion H2. auto.
Qed.

(* sanity: the derivation [grammar_example] of Spec/Grammar.v, pushed through the theorem,
   agrees with what the reference parser computes on   { "a": 0 }   *)
Example rec_complete_example :
  parse_items_rec strict (soks (str [0x20; 0x7B; 0x20; 0x22; 0x61; 0x22; 0x3A; 0x20; 0x30; 0x20; 0x7D]))
  = Ok (VObj [([0x61], VNum [0x30])], [(1, 11, 4); (3, 9, 3); (3, 6, 1); (8, 9, 1)]).
Proof. exact (rec_complete_items _ _ _ _ grammar_example). Qed.
Example rec_complete_example_computed :
  parse_items_rec strict (soks (str [0x20; 0x7B; 0x20; 0x22; 0x61; 0x22; 0x3A; 0x20; 0x30; 0x20; 0x7D]))
  = Ok (VObj [([0x61], VNum [0x30])], [(1, 11, 4); (3, 9, 3); (3, 6, 1); (8, 9, 1)]).
Proof. vm_compute. reflexivity. Qed.

Print Assumptions rec_complete.
Print Assumptions jtext_functional.
