(* Proofs/NumberExamples.v -- validation of Base/Float64 and Spec/EcmaNumber by evaluation
   (vm_compute) against the table of RFC 8785 Appendix B and other well-known vectors.
   No axioms are involved: everything here is computation. *)
From Coq Require Import ZArith NArith List Bool SpecFloat String Ascii.
From JsonSyntax Require Import Base.Float64 Spec.EcmaNumber.
Import ListNotations.
Local Open Scope Z_scope.

(* code points of an ASCII string *)
Fixpoint cps (s : string) : list N :=
  match s with
  | EmptyString => []
  | String a r => N_of_ascii a :: cps r
  end.

Definition of_hex (b : Z) : option (list N) := ecma_to_string (sf_of_bits b).
Definition txt (s : string) : option (list N) := Some (cps s).

(* ---- RFC 8785 Appendix B: IEEE-754 bit pattern -> ECMAScript rendering ---- *)
Example rfc8785_B_01 : of_hex 0x0000000000000000 = txt "0".                      Proof. vm_compute. reflexivity. Qed.
Example rfc8785_B_02 : of_hex 0x8000000000000000 = txt "0".                      Proof. vm_compute. reflexivity. Qed.
Example rfc8785_B_03 : of_hex 0x0000000000000001 = txt "5e-324".                 Proof. vm_compute. reflexivity. Qed.
Example rfc8785_B_04 : of_hex 0x8000000000000001 = txt "-5e-324".                Proof. vm_compute. reflexivity. Qed.
Example rfc8785_B_05 : of_hex 0x7fefffffffffffff = txt "1.7976931348623157e+308". Proof. vm_compute. reflexivity. Qed.
Example rfc8785_B_06 : of_hex 0xffefffffffffffff = txt "-1.7976931348623157e+308". Proof. vm_compute. reflexivity. Qed.
Example rfc8785_B_07 : of_hex 0x4340000000000000 = txt "9007199254740992".       Proof. vm_compute. reflexivity. Qed.
Example rfc8785_B_08 : of_hex 0xc340000000000000 = txt "-9007199254740992".      Proof. vm_compute. reflexivity. Qed.
Example rfc8785_B_09 : of_hex 0x4430000000000000 = txt "295147905179352830000".  Proof. vm_compute. reflexivity. Qed.
Example rfc8785_B_10 : of_hex 0x7fffffffffffffff = None.  (* NaN: error *)       Proof. vm_compute. reflexivity. Qed.
Example rfc8785_B_11 : of_hex 0x7ff0000000000000 = None.  (* Infinity: error *)  Proof. vm_compute. reflexivity. Qed.
Example rfc8785_B_12 : of_hex 0x44b52d02c7e14af5 = txt "9.999999999999997e+22".  Proof. vm_compute. reflexivity. Qed.
Example rfc8785_B_13 : of_hex 0x44b52d02c7e14af6 = txt "1e+23".                  Proof. vm_compute. reflexivity. Qed.
Example rfc8785_B_14 : of_hex 0x44b52d02c7e14af7 = txt "1.0000000000000001e+23". Proof. vm_compute. reflexivity. Qed.
Example rfc8785_B_15 : of_hex 0x444b1ae4d6e2ef4e = txt "999999999999999700000".  Proof. vm_compute. reflexivity. Qed.
Example rfc8785_B_16 : of_hex 0x444b1ae4d6e2ef4f = txt "999999999999999900000".  Proof. vm_compute. reflexivity. Qed.
Example rfc8785_B_17 : of_hex 0x444b1ae4d6e2ef50 = txt "1e+21".                  Proof. vm_compute. reflexivity. Qed.
Example rfc8785_B_18 : of_hex 0x3eb0c6f7a0b5ed8c = txt "9.999999999999997e-7".   Proof. vm_compute. reflexivity. Qed.
Example rfc8785_B_19 : of_hex 0x3eb0c6f7a0b5ed8d = txt "0.000001".               Proof. vm_compute. reflexivity. Qed.
Example rfc8785_B_20 : of_hex 0x41b3de4355555553 = txt "333333333.3333332".      Proof. vm_compute. reflexivity. Qed.
Example rfc8785_B_21 : of_hex 0x41b3de4355555554 = txt "333333333.33333325".     Proof. vm_compute. reflexivity. Qed.
Example rfc8785_B_22 : of_hex 0x41b3de4355555555 = txt "333333333.3333333".      Proof. vm_compute. reflexivity. Qed.
Example rfc8785_B_23 : of_hex 0x41b3de4355555556 = txt "333333333.3333334".      Proof. vm_compute. reflexivity. Qed.
Example rfc8785_B_24 : of_hex 0x41b3de4355555557 = txt "333333333.33333343".     Proof. vm_compute. reflexivity. Qed.
Example rfc8785_B_25 : of_hex 0xbecbf647612f3696 = txt "-0.0000033333333333333333". Proof. vm_compute. reflexivity. Qed.
Example rfc8785_B_26 : of_hex 0x43143ff3c1cb0959 = txt "1424953923781206.2".     Proof. vm_compute. reflexivity. Qed.

(* ---- RFC 8785 section 3.2.3 sample: spellings -> canonical spellings ---- *)
Definition canon (s : string) : option (list N) := canon_number (cps s).

Example rfc8785_323_a : canon "333333333.33333329" = txt "333333333.3333333".    Proof. vm_compute. reflexivity. Qed.
Example rfc8785_323_b : canon "1E30" = txt "1e+30".                              Proof. vm_compute. reflexivity. Qed.
Example rfc8785_323_c : canon "4.50" = txt "4.5".                                Proof. vm_compute. reflexivity. Qed.
Example rfc8785_323_d : canon "2e-3" = txt "0.002".                              Proof. vm_compute. reflexivity. Qed.
Example rfc8785_323_e : canon "0.000000000000000000000000001" = txt "1e-27".     Proof. vm_compute. reflexivity. Qed.

(* ---- correctly rounded reading (the witnesses of defect E2 and classic hard cases) ---- *)
Definition bits (s : string) : option Z := option_map (fun d => sf_bits (nearest_double d)) (read_decimal (cps s)).

Example read_E2_witness : canon "4.14673952822385274921803532e91" = txt "4.146739528223853e+91".
Proof. vm_compute. reflexivity. Qed.
Example read_halfway_even : bits "9007199254740993" = Some 0x4340000000000000.   Proof. vm_compute. reflexivity. Qed.
Example read_halfway_up   : bits "9007199254740993.0000000000000000000000000001" = Some 0x4340000000000001.
Proof. vm_compute. reflexivity. Qed.
Example read_min_subnormal : bits "4.9406564584124654e-324" = Some 1.            Proof. vm_compute. reflexivity. Qed.
Example read_half_min_sub  : bits "2.4703282292062327208e-324" = Some 0.         Proof. vm_compute. reflexivity. Qed.
Example read_half_min_sub' : bits "2.4703282292062328e-324" = Some 1.            Proof. vm_compute. reflexivity. Qed.
Example read_max_double    : bits "1.7976931348623157e308" = Some 0x7fefffffffffffff. Proof. vm_compute. reflexivity. Qed.
Example read_overflow_edge : bits "1.7976931348623158e308" = Some 0x7fefffffffffffff. Proof. vm_compute. reflexivity. Qed.
Example read_overflow      : bits "1.7976931348623159e308" = Some 0x7ff0000000000000. Proof. vm_compute. reflexivity. Qed.
Example read_huge_exp      : bits "1e400" = Some 0x7ff0000000000000.             Proof. vm_compute. reflexivity. Qed.
Example read_absurd_exp    : bits "1e99999999999999999999" = Some 0x7ff0000000000000. Proof. vm_compute. reflexivity. Qed.
Example read_absurd_neg    : bits "-1e-99999999999999999999" = Some 0x8000000000000000. Proof. vm_compute. reflexivity. Qed.
Example read_2_2250738585072012e_308 : bits "2.2250738585072012e-308" = Some 0x0010000000000000.
Proof. vm_compute. reflexivity. Qed.
Example read_2_2250738585072011e_308 : bits "2.2250738585072011e-308" = Some 0x000fffffffffffff.
Proof. vm_compute. reflexivity. Qed.
Example read_tenth : bits "0.1" = Some 0x3FB999999999999A.                       Proof. vm_compute. reflexivity. Qed.
Example read_neg_zero : bits "-0.0" = Some 0x8000000000000000.                   Proof. vm_compute. reflexivity. Qed.
Example canon_neg_zero : canon "-0.0e5" = txt "0".                               Proof. vm_compute. reflexivity. Qed.
Example canon_infinite : canon "1e309" = None.                                   Proof. vm_compute. reflexivity. Qed.

Local Open Scope string_scope.
(* ---- respellings of one value render identically (instances of canon_number_spelling) ---- *)
Example respell_1 : map canon ["1500"; "1500.0"; "1.5e3"; "1.5E3"; "1.5e+3"; "1.5E+03"; "15e2";
                               "0.15e4"; "150000e-2"; "1.500e3"; "15000E-1"; "0.0015E+6"]
                  = repeat (txt "1500") 12.
Proof. vm_compute. reflexivity. Qed.
Example respell_2 : map canon ["-0.000001"; "-1e-6"; "-1E-6"; "-1.0e-06"; "-0.1e-5"; "-10E-7"; "-0.0000010"]
                  = repeat (txt "-0.000001") 7.
Proof. vm_compute. reflexivity. Qed.
Example respell_3 : map canon ["1e21"; "1E+21"; "1000000000000000000000"; "10.0e20"; "0.001e24"]
                  = repeat (txt "1e+21") 5.
Proof. vm_compute. reflexivity. Qed.

(* ---- malformed spellings are rejected by read_decimal ---- *)
Example malformed : map (fun s => read_decimal (cps s)) [""; "-"; "."; ".5"; "1e"; "1e+"; "1.5x"; "--1"; "+1"; "1e1.5"; "1 "]
                  = repeat None 11.
Proof. vm_compute. reflexivity. Qed.

Print Assumptions rfc8785_B_26.
Print Assumptions read_E2_witness.
Print Assumptions respell_1.
