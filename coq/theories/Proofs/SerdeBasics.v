(* Proofs/SerdeBasics.v -- C16, part 1: the nested induction principle of [tsd], decimal
   spelling and parsing of integers, generic lemmas about the list combinators. *)
From JsonSyntax Require Import Base.Prelude Base.Value Spec.EcmaNumber Spec.Multimap
  Spec.SerdeTyped Model.Serde.
Local Open Scope Z_scope.

(* ------------------------------------------------------------------------------------ *)
Section SdInd.
  Variable P : tsd -> Prop.
  Hypothesis Hbool : forall b, P (SdBool b).
  Hypothesis Hint : forall k z, P (SdInt k z).
  Hypothesis Hf32 : forall b, P (SdF32 b).
  Hypothesis Hf64 : forall b, P (SdF64 b).
  Hypothesis Hchar : forall c, P (SdChar c).
  Hypothesis Hstr : forall s, P (SdStr s).
  Hypothesis Hunit : P SdUnit.
  Hypothesis Hunitstruct : forall n, P (SdUnitStruct n).
  Hypothesis Hnone : P SdNone.
  Hypothesis Hsome : forall x, P x -> P (SdSome x).
  Hypothesis Hnewtype : forall n x, P x -> P (SdNewtypeStruct n x).
  Hypothesis Hseq : forall l, Forall P l -> P (SdSeq l).
  Hypothesis Htuple : forall l, Forall P l -> P (SdTuple l).
  Hypothesis Htuplestruct : forall n l, Forall P l -> P (SdTupleStruct n l).
  Hypothesis Hmap : forall l, Forall (fun kv => P (fst kv) /\ P (snd kv)) l -> P (SdMap l).
  Hypothesis Hstruct : forall n l, Forall (fun fx => P (snd fx)) l -> P (SdStruct n l).
  Hypothesis Hunitvariant : forall n v, P (SdUnitVariant n v).
  Hypothesis Hnewtypevariant : forall n v x, P x -> P (SdNewtypeVariant n v x).
  Hypothesis Htuplevariant : forall n v l, Forall P l -> P (SdTupleVariant n v l).
  Hypothesis Hstructvariant : forall n v l, Forall (fun fx => P (snd fx)) l -> P (SdStructVariant n v l).

  Fixpoint tsd_ind' (d : tsd) : P d :=
    let go := fix go (l : list tsd) : Forall P l :=
      match l with [] => Forall_nil _ | x :: r => Forall_cons _ (tsd_ind' x) (go r) end in
    let gom := fix gom (l : list (tsd * tsd)) : Forall (fun kv => P (fst kv) /\ P (snd kv)) l :=
      match l with
      | [] => Forall_nil _
      | kv :: r => Forall_cons _ (conj (tsd_ind' (fst kv)) (tsd_ind' (snd kv))) (gom r)
      end in
    let gof := fix gof (l : list (str * tsd)) : Forall (fun fx => P (snd fx)) l :=
      match l with [] => Forall_nil _ | fx :: r => Forall_cons _ (tsd_ind' (snd fx)) (gof r) end in
    match d with
    | SdBool b => Hbool b
    | SdInt k z => Hint k z
    | SdF32 b => Hf32 b
    | SdF64 b => Hf64 b
    | SdChar c => Hchar c
    | SdStr s => Hstr s
    | SdUnit => Hunit
    | SdUnitStruct n => Hunitstruct n
    | SdNone => Hnone
    | SdSome x => Hsome x (tsd_ind' x)
    | SdNewtypeStruct n x => Hnewtype n x (tsd_ind' x)
    | SdSeq l => Hseq l (go l)
    | SdTuple l => Htuple l (go l)
    | SdTupleStruct n l => Htuplestruct n l (go l)
    | SdMap l => Hmap l (gom l)
    | SdStruct n l => Hstruct n l (gof l)
    | SdUnitVariant n v => Hunitvariant n v
    | SdNewtypeVariant n v x => Hnewtypevariant n v x (tsd_ind' x)
    | SdTupleVariant n v l => Htuplevariant n v l (go l)
    | SdStructVariant n v l => Hstructvariant n v l (gof l)
    end.
End SdInd.

(* ------------------------------------------------------------------------------------ *)
(* decimal spelling and parsing *)

Lemma is_dig_digit z : 0 <= z < 10 -> is_dig (Z.to_N (z + 48)) = true /\ dig_val (Z.to_N (z + 48)) = z.
Proof.
  intros H. unfold is_dig, dig_val. split.
  - apply andb_true_iff. split; apply N.leb_le; lia.
  - rewrite Z2N.id by lia. lia.
Qed.

Lemma is_dig_not_sign c : is_dig c = true -> c <> 0x2B%N /\ c <> 0x2D%N.
Proof.
  unfold is_dig. intros H. apply andb_true_iff in H. destruct H as [H1 H2].
  apply N.leb_le in H1. apply N.leb_le in H2. split; lia.
Qed.

Lemma pos_digits_spec : forall f z acc,
  0 <= z < 10 ^ Z.of_nat (S f) ->
  exists ds, pos_digits (S f) z acc = ds ++ acc /\ ds <> [] /\
             Forall (fun c => is_dig c = true) ds /\
             forall rest a, digits_val (ds ++ rest) a = digits_val rest (a * 10 ^ Z.of_nat (length ds) + z).
Proof.
  induction f as [|f IH]; intros z acc Hz.
  - change (10 ^ Z.of_nat 1) with 10 in Hz.
    cbn [pos_digits]. destruct (Z.ltb_spec z 10); [|lia].
    destruct (is_dig_digit z Hz) as [Hd Hv].
    exists [Z.to_N (z + 48)]. repeat split; auto; try discriminate.
    intros rest a. cbn [app digits_val length]. rewrite Hd, Hv.
    change (10 ^ Z.of_nat 1) with 10. reflexivity.
  - cbn [pos_digits]. destruct (Z.ltb_spec z 10) as [Hlt|Hge].
    + destruct (is_dig_digit z (conj (proj1 Hz) Hlt)) as [Hd Hv].
      exists [Z.to_N (z + 48)]. repeat split; auto; try discriminate.
      intros rest a. cbn [app digits_val length]. rewrite Hd, Hv.
      change (10 ^ Z.of_nat 1) with 10. reflexivity.
    + assert (Hq : 0 <= z / 10 < 10 ^ Z.of_nat (S f)).
      { split; [apply Z.div_pos; lia|].
        apply Z.div_lt_upper_bound; [lia|].
        replace (Z.of_nat (S (S f))) with (Z.succ (Z.of_nat (S f))) in Hz by lia.
        rewrite Z.pow_succ_r in Hz by lia. lia. }
      destruct (IH (z / 10) (Z.to_N (z mod 10 + 48) :: acc) Hq) as (ds & Heq & Hne & Hall & Hval).
      assert (Hm : 0 <= z mod 10 < 10) by (apply Z.mod_pos_bound; lia).
      destruct (is_dig_digit _ Hm) as [Hd Hv].
      exists (ds ++ [Z.to_N (z mod 10 + 48)]). split; [|split; [|split]].
      * change (pos_digits (S f) (z / 10) (Z.to_N (z mod 10 + 48) :: acc) = (ds ++ [Z.to_N (z mod 10 + 48)]) ++ acc).
        rewrite Heq, <- app_assoc. reflexivity.
      * destruct ds; discriminate.
      * apply Forall_app. split; auto.
      * intros rest a. rewrite <- app_assoc. rewrite Hval. cbn [app digits_val].
        rewrite Hd, Hv. f_equal. rewrite app_length. cbn [length].
        replace (Z.of_nat (length ds + 1)) with (Z.succ (Z.of_nat (length ds))) by lia.
        rewrite Z.pow_succ_r by lia.
        pose proof (Z.div_mod z 10). lia.
Qed.

Lemma pow2_le_pow10 n : 0 <= n -> 2 ^ n <= 10 ^ n.
Proof. intros. apply Z.pow_le_mono_l. lia. Qed.

Lemma lt_pow10_log2 z : 0 <= z -> z < 10 ^ Z.of_nat (S (Z.to_nat (Z.log2 z))).
Proof.
  intros Hz. pose proof (Z.log2_nonneg z) as Hl.
  replace (Z.of_nat (S (Z.to_nat (Z.log2 z)))) with (Z.succ (Z.log2 z)) by lia.
  destruct (Z.eq_dec z 0) as [->|Hnz].
  - cbn. lia.
  - assert (0 < z) by lia. pose proof (Z.log2_spec z H) as [_ Hu].
    pose proof (pow2_le_pow10 (Z.succ (Z.log2 z))). lia.
Qed.

Lemma z_dec_nonneg z : 0 <= z ->
  exists ds, z_dec z = ds /\ ds <> [] /\ Forall (fun c => is_dig c = true) ds /\ digits_val ds 0 = Some z.
Proof.
  intros Hz. unfold z_dec. destruct (Z.ltb_spec z 0); [lia|].
  destruct (pos_digits_spec (Z.to_nat (Z.log2 z)) z [] (conj Hz (lt_pow10_log2 z Hz)))
    as (ds & Heq & Hne & Hall & Hval).
  exists ds. rewrite Heq, app_nil_r. repeat split; auto.
  specialize (Hval [] 0). rewrite app_nil_r in Hval. rewrite Hval. cbn. reflexivity.
Qed.

Lemma parse_nat_digits ds z : ds <> [] -> digits_val ds 0 = Some z -> parse_unsigned ds = Some z.
Proof. destruct ds; [congruence|]. intros _ H. exact H. Qed.

Lemma parse_int_nonneg k z : 0 <= z -> int_in_range k z = true -> parse_int k (z_dec z) = Some z.
Proof.
  intros Hz Hr. destruct (z_dec_nonneg z Hz) as (ds & -> & Hne & Hall & Hval).
  unfold parse_int. destruct ds as [|c r]; [congruence|].
  inversion Hall as [|? ? Hc Hr']; subst.
  destruct (is_dig_not_sign c Hc) as [H1 H2].
  assert (Hp : parse_unsigned (c :: r) = Some z) by (apply parse_nat_digits; auto; discriminate).
  destruct c as [|p]; [exfalso; cbn in Hc; discriminate|].
  (* the head is neither '+' nor '-' *)
  assert (Hm : match Npos p :: r with
               | 43%N :: r0 => parse_unsigned r0
               | 45%N :: r0 => if is_signed k then option_map Z.opp (parse_unsigned r0) else None
               | _ => parse_unsigned (Npos p :: r)
               end = parse_unsigned (Npos p :: r)).
  { destruct (N.eq_dec (Npos p) 43) as [e|ne]; [congruence|].
    destruct (N.eq_dec (Npos p) 45) as [e|ne']; [congruence|].
    repeat (destruct p as [p|p|]; try reflexivity; try congruence). }
  rewrite Hm, Hp, Hr. reflexivity.
Qed.

Lemma z_dec_neg z : z < 0 -> exists ds, z_dec z = 0x2D%N :: ds /\ parse_unsigned ds = Some (- z).
Proof.
  intros Hz. unfold z_dec. destruct (Z.ltb_spec z 0); [|lia].
  assert (Hz' : 0 <= - z) by lia.
  destruct (pos_digits_spec (Z.to_nat (Z.log2 (- z))) (- z) [] (conj Hz' (lt_pow10_log2 _ Hz')))
    as (ds & Heq & Hne & Hall & Hval).
  exists ds. rewrite Heq, app_nil_r. split; [reflexivity|].
  apply parse_nat_digits; auto. specialize (Hval [] 0). rewrite app_nil_r in Hval. rewrite Hval. cbn. f_equal.
Qed.

Lemma parse_int_neg k z : z < 0 -> int_in_range k z = true -> parse_int k (z_dec z) = Some z.
Proof.
  intros Hz Hr. destruct (z_dec_neg z Hz) as (ds & -> & Hp).
  unfold parse_int. rewrite Hp.
  assert (Hs : is_signed k = true).
  { unfold int_in_range in Hr. apply andb_true_iff in Hr. destruct Hr as [H1 _]. apply Z.leb_le in H1.
    destruct k; try reflexivity; cbn in H1; lia. }
  rewrite Hs. cbn [option_map]. rewrite Z.opp_involutive, Hr. reflexivity.
Qed.

Lemma parse_int_z_dec k z : int_in_range k z = true -> parse_int k (z_dec z) = Some z.
Proof.
  intros Hr. destruct (Z.lt_ge_cases z 0); [apply parse_int_neg|apply parse_int_nonneg]; auto.
Qed.

Lemma parse_unsigned_neg k z : is_signed k = false -> z < 0 -> parse_int k (z_dec z) = None.
Proof.
  intros Hs Hz. destruct (z_dec_neg z Hz) as (ds & -> & Hp).
  unfold parse_int. rewrite Hs. reflexivity.
Qed.

Lemma int_in_range_u64 k z : 0 <= z -> int_in_range k z = true -> int_in_range U64 z = true.
Proof.
  unfold int_in_range. intros Hz H. apply andb_true_iff in H. destruct H as [_ H2]. apply Z.leb_le in H2.
  apply andb_true_iff. split; apply Z.leb_le; cbn; [lia|].
  destruct k; cbn in H2; lia.
Qed.

Lemma int_in_range_i64 k z : z < 0 -> int_in_range k z = true -> int_in_range I64 z = true.
Proof.
  unfold int_in_range. intros Hz H. apply andb_true_iff in H. destruct H as [H1 _]. apply Z.leb_le in H1.
  apply andb_true_iff. split; apply Z.leb_le; cbn; [|lia].
  destruct k; cbn in H1; lia.
Qed.

Lemma num_event_int k z : int_in_range k z = true ->
  num_event (z_dec z) = if 0 <=? z then EvU z else EvI z.
Proof.
  intros Hr. unfold num_event, as_u64, as_i64.
  destruct (Z.leb_spec 0 z) as [Hz|Hz].
  - rewrite (parse_int_z_dec U64 z (int_in_range_u64 k z Hz Hr)). reflexivity.
  - rewrite (parse_unsigned_neg U64 z eq_refl Hz).
    rewrite (parse_int_z_dec I64 z (int_in_range_i64 k z Hz Hr)). reflexivity.
Qed.

Lemma de_int_roundtrip k z : int_in_range k z = true ->
  de_int k (num_event (z_dec z)) = Ok (SdInt k z).
Proof.
  intros Hr. rewrite (num_event_int k z Hr).
  pose proof Hr as Hr'. unfold int_in_range in Hr'. apply andb_true_iff in Hr'. destruct Hr' as [_ H2].
  destruct (0 <=? z); cbn [de_int]; [rewrite H2|rewrite Hr]; reflexivity.
Qed.

(* ------------------------------------------------------------------------------------ *)
(* objects built by inserting fresh keys *)

Lemma positions_from_fresh k : forall (es : list entry) i, mem_str k (map fst es) = false -> positions_from i es k = [].
Proof.
  induction es as [|e es IH]; intros i H; [reflexivity|].
  cbn [map mem_str] in H. apply orb_false_iff in H. destruct H as [H1 H2].
  cbn [positions_from]. unfold has_key. rewrite H1. apply IH; auto.
Qed.

Lemma obj_insert_fresh (es : list entry) k v : mem_str k (map fst es) = false -> obj_insert es k v = es ++ [(k, v)].
Proof.
  intros H. unfold obj_insert, m_insert, m_index_of, m_indexes_of.
  rewrite positions_from_fresh by auto. reflexivity.
Qed.

Lemma mem_str_app k a b : mem_str k (a ++ b) = mem_str k a || mem_str k b.
Proof. induction a as [|x a IH]; [reflexivity|]. cbn [app mem_str]. rewrite IH, orb_assoc. reflexivity. Qed.

Lemma nodup_str_app_cons a k b :
  nodup_str (a ++ k :: b) = true ->
  mem_str k a = false /\ mem_str k b = false /\ nodup_str ((a ++ [k]) ++ b) = true.
Proof.
  induction a as [|x a IH]; cbn [app nodup_str]; intros H.
  - apply andb_true_iff in H. destruct H as [H1 H2]. apply negb_true_iff in H1.
    repeat split; auto. cbn. rewrite H1, H2. reflexivity.
  - apply andb_true_iff in H. destruct H as [H1 H2]. apply negb_true_iff in H1.
    rewrite mem_str_app in H1. apply orb_false_iff in H1. destruct H1 as [H1a H1b].
    cbn [mem_str] in H1b. apply orb_false_iff in H1b. destruct H1b as [H1b H1c].
    destruct (IH H2) as (I1 & I2 & I3). split; [|split; auto].
    + cbn [mem_str]. rewrite I1, orb_false_r.
      (* str_eqb x k = false from str_eqb k x = false *)
      destruct (str_eqb x k) eqn:Exk; auto. apply str_eqb_spec in Exk. subst.
      rewrite str_eqb_refl in H1b. discriminate.
    + apply andb_true_iff. split; auto. apply negb_true_iff.
      rewrite !mem_str_app. cbn [mem_str]. rewrite H1a, H1c, orb_false_r.
      cbn. rewrite H1b. reflexivity.
Qed.

Lemma mem_str_eqb_sym x k : str_eqb x k = str_eqb k x.
Proof.
  destruct (str_eqb x k) eqn:A, (str_eqb k x) eqn:B; auto.
  - apply str_eqb_spec in A. subst. rewrite str_eqb_refl in B. discriminate.
  - apply str_eqb_spec in B. subst. rewrite str_eqb_refl in A. discriminate.
Qed.

Section SerLists.
  Context {E A : Type} (fk : A -> outcome E str) (fv : A -> outcome E value).

  Lemma ser_fields_ok : forall (l : list (str * A)) o vs,
    omap (fun fx => fv (snd fx)) l = Ok vs ->
    nodup_str (map fst o ++ map fst l) = true ->
    ser_fields_g fv l o = Ok (o ++ combine (map fst l) vs).
  Proof.
    induction l as [|[f x] l IH]; intros o vs Hm Hn.
    - cbn in Hm. inversion Hm; subst. cbn. rewrite app_nil_r. reflexivity.
    - cbn [omap snd] in Hm. cbn [ser_fields_g snd fst].
      destruct (fv x) as [v| | |]; cbn [obind] in *; try discriminate.
      destruct (omap (fun fx => fv (snd fx)) l) as [vs'| | |] eqn:El; cbn [obind] in Hm; try discriminate.
      inversion Hm; subst. cbn [map fst] in Hn.
      destruct (nodup_str_app_cons _ _ _ Hn) as (H1 & H2 & H3).
      rewrite obj_insert_fresh by auto.
      etransitivity; [apply (IH (o ++ [(f, v)]) vs' eq_refl); rewrite map_app; exact H3|].
      f_equal. symmetry. apply (app_assoc o [(f, v)]).
  Qed.

  Lemma ser_entries_ok : forall (l : list (A * A)) o ks vs,
    omap (fun kx => fk (fst kx)) l = Ok ks ->
    omap (fun kx => fv (snd kx)) l = Ok vs ->
    nodup_str (map fst o ++ ks) = true ->
    ser_entries_g fk fv l o = Ok (o ++ combine ks vs).
  Proof.
    induction l as [|[k x] l IH]; intros o ks vs Hk Hm Hn.
    - cbn in Hk, Hm. inversion Hk; inversion Hm; subst. cbn. rewrite app_nil_r. reflexivity.
    - cbn [omap snd fst] in Hk, Hm. cbn [ser_entries_g snd fst].
      destruct (fk k) as [ks0| | |]; cbn [obind] in *; try discriminate.
      destruct (fv x) as [v| | |]; cbn [obind] in *; try discriminate.
      destruct (omap (fun kx => fk (fst kx)) l) as [ks'| | |] eqn:Ek; cbn [obind] in Hk; try discriminate.
      destruct (omap (fun kx => fv (snd kx)) l) as [vs'| | |] eqn:El; cbn [obind] in Hm; try discriminate.
      inversion Hk; inversion Hm; subst.
      destruct (nodup_str_app_cons _ _ _ Hn) as (H1 & H2 & H3).
      rewrite obj_insert_fresh by auto.
      etransitivity; [apply (IH (o ++ [(ks0, v)]) ks' vs' eq_refl eq_refl); rewrite map_app; exact H3|].
      f_equal. symmetry. apply (app_assoc o [(ks0, v)]).
  Qed.
End SerLists.

Lemma omap_length {E A B} (f : A -> outcome E B) : forall l vs, omap f l = Ok vs -> length vs = length l.
Proof.
  induction l as [|x l IH]; intros vs H; cbn in H.
  - inversion H. reflexivity.
  - destruct (f x); cbn in H; try discriminate.
    destruct (omap f l); cbn in H; try discriminate. inversion H; subst. cbn. f_equal. auto.
Qed.

(* looking a field up in an object whose keys are distinct *)
Lemma m_get_entries_fresh f : forall (es : list entry), mem_str f (map fst es) = false -> m_get_entries es f = [].
Proof.
  induction es as [|e es IH]; intros H; [reflexivity|].
  cbn [map mem_str] in H. apply orb_false_iff in H. destruct H as [H1 H2].
  unfold m_get_entries in *. cbn [filter]. unfold has_key at 1. rewrite H1. auto.
Qed.

Lemma m_get_entries_unique f v (es1 es2 : list entry) :
  mem_str f (map fst es1) = false -> mem_str f (map fst es2) = false ->
  m_get_entries (es1 ++ (f, v) :: es2) f = [(f, v)].
Proof.
  intros H1 H2. unfold m_get_entries. rewrite filter_app. cbn [filter].
  fold (m_get_entries es1 f). fold (m_get_entries es2 f).
  rewrite !m_get_entries_fresh by auto. unfold has_key. cbn [fst]. rewrite str_eqb_refl. reflexivity.
Qed.

(* ------------------------------------------------------------------------------------ *)
(* maps built by successive inserts: [last_wins] changes nothing when the rendered keys are
   pairwise distinct (every object produced by to_value / serde_json) *)

Lemma key_eqb_key_str a b : key_eqb a b = true ->
  exists s, key_str a = Some s /\ key_str b = Some s.
Proof.
  destruct a, b; cbn [key_eqb key_str]; intros H; try discriminate.
  - apply Z.eqb_eq in H. subst. eauto.
  - apply N.eqb_eq in H. subst. eauto.
  - apply str_eqb_spec in H. subst. eauto.
  - apply str_eqb_spec in H. subst. eauto.
Qed.

Lemma mem_keys_of k x s : forall l : list (tsd * tsd), In (k, x) l -> key_str k = Some s -> mem_str s (keys_of l) = true.
Proof.
  induction l as [|[k' x'] l IH]; intros Hin Hs; [destruct Hin|].
  cbn [keys_of]. destruct Hin as [Heq|Hin].
  - inversion Heq; subst. rewrite Hs. cbn [mem_str]. rewrite str_eqb_refl. reflexivity.
  - destruct (key_str k'); [cbn [mem_str]; rewrite (IH Hin Hs); apply orb_true_r|exact (IH Hin Hs)].
Qed.

Lemma last_wins_nodup : forall l, nodup_str (keys_of l) = true -> last_wins l = l.
Proof.
  induction l as [|[k x] l IH]; intros H; [reflexivity|].
  cbn [last_wins fst]. cbn [keys_of] in H.
  assert (Hl : nodup_str (keys_of l) = true).
  { destruct (key_str k); [cbn [nodup_str] in H; apply andb_true_iff in H; tauto|exact H]. }
  destruct (existsb (fun e : tsd * tsd => key_eqb k (fst e)) l) eqn:Ex.
  - exfalso. apply existsb_exists in Ex. destruct Ex as ([k' x'] & Hin & Heq). cbn [fst] in Heq.
    destruct (key_eqb_key_str _ _ Heq) as (s & Hs & Hs').
    rewrite Hs in H. cbn [nodup_str] in H. apply andb_true_iff in H. destruct H as [H _].
    rewrite (mem_keys_of k' x' s l Hin Hs') in H. discriminate.
  - rewrite (IH Hl). reflexivity.
Qed.

Lemma keys_of_map_snd (g : tsd -> tsd) : forall l : list (tsd * tsd),
  keys_of (map (fun kv => (fst kv, g (snd kv))) l) = keys_of l.
Proof.
  induction l as [|[k x] l IH]; [reflexivity|]. cbn [map keys_of fst snd]. rewrite IH. reflexivity.
Qed.

(* uniform fuel for a list *)
Lemma forall_fuel {A} (Q : nat -> A -> Prop) (l : list A) :
  Forall (fun x => exists n, forall fuel, (n <= fuel)%nat -> Q fuel x) l ->
  exists n, forall fuel, (n <= fuel)%nat -> Forall (Q fuel) l.
Proof.
  induction 1 as [|x l [n Hn] _ [m Hm]].
  - exists O. intros; constructor.
  - exists (Nat.max n m). intros fuel Hf. constructor; [apply Hn|apply Hm]; lia.
Qed.
