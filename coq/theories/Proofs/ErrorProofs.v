(* Proofs/ErrorProofs.v -- C07, "parse errors point at the first offending character":
   assembly of
     ErrorInv.v           every reported offset is an item boundary, an Unexpected error reports
                          the input item at its offset, surrogate errors carry the code units and
                          the exact span of the offending escape(s);
     ErrorDeterminism.v   option independence of Unexpected errors, prefix determinism, and the
                          behaviour on an input followed by a stream error;
     ErrorViable.v        every consumed prefix can be completed to a JSON text;
   with completeness of the parser (RoundTrip.parse_str_complete) into
     unexpected_longest_viable_prefix   (E1)  the offset of an Unexpected error is the length of
                                              the longest viable prefix of the input,
     utf8_error_position                (E3)  ill-formed UTF-8 is reported at the first ill-formed
                                              sequence unless the well-formed prefix already fails,
     surrogate_span_inside              (E4)  spans of surrogate errors lie inside the escapes. *)
From JsonSyntax Require Import Base.Prelude Base.Value Base.Unicode Base.Source
  Model.Parser Model.EntryPoints Spec.Grammar Spec.Utf8Spec
  Proofs.ParserRecDef Proofs.ParserSoundLex Proofs.Utf8Proofs
  Proofs.ErrorInv Proofs.ErrorDeterminism Proofs.ErrorViable.
From JsonSyntax Require Proofs.ParserL1 Proofs.ParserSafety Proofs.ParserSpec Proofs.RoundTrip.

(* ================= small facts ================= *)
Lemma viable_prefix_closed : forall p q, viable (p ++ q) -> viable p.
Proof. intros p q [t H]. exists (q ++ t). rewrite app_assoc. exact H. Qed.

Lemma blen_text_cons c a : blen (text_items (c :: a)) = utf8_len c + blen (text_items a).
Proof. reflexivity. Qed.

(* a prefix of a text is determined by its byte length *)
Lemma prefix_blen_inj : forall a a' b b',
  a ++ b = a' ++ b' -> blen (text_items a) = blen (text_items a') -> a = a'.
Proof.
  induction a as [|x a IH]; intros [|x' a'] b b' H Hb.
  - reflexivity.
  - exfalso. rewrite blen_text_cons in Hb. pose proof (utf8_len_pos x') as Hl.
    change (blen (text_items [])) with 0 in Hb. lia.
  - exfalso. rewrite blen_text_cons in Hb. pose proof (utf8_len_pos x) as Hl.
    change (blen (text_items [])) with 0 in Hb. lia.
  - cbn [app] in H. injection H as -> H. f_equal. eapply IH; [exact H|].
    rewrite !blen_text_cons in Hb. lia.
Qed.

Lemma blen_text_app_le a b : blen (text_items a) <= blen (text_items (a ++ b)).
Proof. rewrite text_items_app, blen_app. lia. Qed.

Lemma good_chars cs : Forall (fun c => c <= 0x10FFFF) cs -> ParserSoundLex.good (chars cs).
Proof.
  intros H. unfold ParserSoundLex.good, chars. apply Forall_map. exact H.
Qed.

Lemma chars_app_cons a c0 r :
  chars (a ++ c0 :: r) = map inj (text_items a) ++ SOk c0 (utf8_len c0) :: chars r.
Proof. unfold chars. rewrite map_app, <- chars_inj. reflexivity. Qed.

Lemma parse_str_items cs : parse_str cs = parse_items strict (chars cs).
Proof. reflexivity. Qed.

(* ================= E1: the longest viable prefix ================= *)
(* (a) an Unexpected error of the strict run is the error of the flexible run *)
Lemma unexpected_flexible cs pos c :
  parse_str cs = Err (EUnexpected pos c) -> parse_items flexible (chars cs) = Err (EUnexpected pos c).
Proof.
  intros H. rewrite parse_str_items in H.
  pose proof (option_independence strict flexible (chars cs) (lenient_flexible strict)) as H'.
  rewrite H in H'. exact H'.
Qed.

(* (d) what was consumed before the error is viable *)
Lemma consumed_viable cs pos c :
  Forall (fun x => x <= 0x10FFFF) cs ->
  parse_items flexible (chars cs) = Err (EUnexpected pos c) ->
  exists a b, cs = a ++ b /\ pos = blen (text_items a) /\ viable a.
Proof.
  intros Hb H. rewrite ParserL1.machine_eq_rec in H.
  destruct (rec_unexpected_completable _ _ _ (good_chars _ Hb) H) as (u & r & w & v & m & Hs & Hq & Hj).
  assert (Hs' : chars cs ++ [] = map inj u ++ r) by (rewrite app_nil_r; exact Hs).
  apply chars_split in Hs' as (a & b & Hcs & Hu & _); [|exact nil_not_ok].
  exists a, b. split; [exact Hcs|]. split; [rewrite Hq, Hu; reflexivity|].
  exists w, v, m. rewrite text_items_app, <- Hu. exact Hj.
Qed.

(* (b)+(c) the offending character cannot be continued *)
Lemma offending_not_viable a c0 r :
  parse_items flexible (chars (a ++ c0 :: r)) = Err (EUnexpected (blen (text_items a)) (Some c0)) ->
  ~ viable (a ++ [c0]).
Proof.
  intros H [t (v & m & Hj)]. rewrite <- app_assoc in Hj. cbn [app] in Hj.
  apply RoundTrip.parse_str_complete in Hj.
  unfold parse_str_with, parse_utf8_with, parse_with in Hj.
  rewrite chars_app_cons in H, Hj.
  pose proof (unexpected_prefix_determinism flexible flexible (text_items a) c0 (utf8_len c0)
                (chars r) (chars t) (lenient_refl _)) as D.
  rewrite D in Hj; [discriminate Hj| |exact H].
  pose proof (utf8_len_pos c0). lia.
Qed.

Theorem unexpected_longest_viable_prefix : forall cs pos c,
  Forall (fun x => x <= 0x10FFFF) cs ->
  parse_str cs = Err (EUnexpected pos c) ->
  exists p r, cs = p ++ r /\ blen (text_items p) = pos /\ viable p /\
    ((r = [] /\ c = None) \/
     (exists c0 r', r = c0 :: r' /\ c = Some c0 /\ ~ viable (p ++ [c0]))).
Proof.
  intros cs pos c Hb H. apply unexpected_flexible in H.
  destruct (consumed_viable _ _ _ Hb H) as (a & b & -> & -> & Hv).
  destruct (str_reported_char flexible (a ++ b) _ _ H) as (a' & b' & Heq & Hlen & Hc).
  assert (Ha : a = a') by (eapply prefix_blen_inj; eassumption). subst a'.
  apply app_inv_head in Heq. subst b'.
  exists a, b. split; [reflexivity|]. split; [reflexivity|]. split; [exact Hv|].
  destruct b as [|c0 r'].
  - left. split; [reflexivity|exact Hc].
  - right. exists c0, r'. split; [reflexivity|]. split; [exact Hc|].
    apply (offending_not_viable a c0 r'). rewrite Hc in H. exact H.
Qed.

(* the same, said with "longest" *)
Theorem unexpected_offset_is_longest_viable : forall cs pos c,
  Forall (fun x => x <= 0x10FFFF) cs ->
  parse_str cs = Err (EUnexpected pos c) ->
  exists p r, cs = p ++ r /\ blen (text_items p) = pos /\ viable p /\ c = hd_error r /\
    forall p' r', cs = p' ++ r' -> viable p' -> (length p' <= length p)%nat.
Proof.
  intros cs pos c Hb H.
  destruct (unexpected_longest_viable_prefix cs pos c Hb H) as (p & r & -> & Hpos & Hv & Hcase).
  exists p, r. split; [reflexivity|]. split; [exact Hpos|]. split; [exact Hv|].
  destruct Hcase as [[-> ->]|(c0 & r' & -> & -> & Hnv)].
  - split; [reflexivity|]. intros p' r' Heq _. rewrite app_nil_r in Heq. subst p.
    rewrite app_length. lia.
  - split; [reflexivity|]. intros p' r'' Heq Hv'.
    apply app_eq_app in Heq as [l [[-> _]|[-> Hl]]].
    + rewrite app_length. lia.
    + destruct l as [|x l]; [rewrite app_nil_r; lia|]. exfalso. apply Hnv.
      cbn [app] in Hl. injection Hl as <- _.
      apply (viable_prefix_closed _ l). rewrite <- app_assoc. exact Hv'.
Qed.

(* ================= E3: ill-formed UTF-8 ================= *)
Theorem utf8_error_position : forall bs e,
  parse_slice bs = Err e ->
  let cs := fst (utf8_decode bs) in
  let k := blen (text_items cs) in
  (snd (utf8_decode bs) = true /\ parse_str cs = Err e) \/
  (snd (utf8_decode bs) = false /\
   ((e = EInvalidUtf8 k /\
     ((exists r, parse_str cs = Ok r) \/ parse_str cs = Err (EUnexpected k None)))
    \/
    (parse_str cs = Err e /\ (forall p, e <> EInvalidUtf8 p) /\
     (forall q, In q (err_offsets e) -> q <= k) /\
     (forall p c, e = EUnexpected p c -> p < k /\ c <> None)))).
Proof.
  intros bs e H cs k. pose proof H as H0.
  unfold parse_slice, parse_slice_with, parse_with, map_err in H. rewrite slice_items_eq in H.
  fold cs in H. rewrite parse_str_items.
  destruct (snd (utf8_decode bs)) eqn:Hok.
  - left. split; [reflexivity|]. rewrite app_nil_r in H.
    destruct (parse_items strict (chars cs)) as [r|e'|n|] eqn:E; try discriminate H.
    injection H as <-. f_equal. destruct e'; try reflexivity.
    exfalso. exact (ParserSpec.stream_ok_no_stream_error _ _ _ (ParserSpec.stream_ok_chars cs) E).
  - right. split; [reflexivity|].
    pose proof (poisoned_mirror strict (text_items cs)) as M. rewrite <- chars_inj in M. fold k in M.
    destruct (parse_items strict (chars cs ++ [SErr])) as [r'|e'|n'|] eqn:EY; try discriminate H.
    injection H as <-.
    destruct (parse_items strict (chars cs)) as [r|ex|n|] eqn:EX.
    + destruct M as [M|M]; [discriminate M|]. injection M as ->.
      left. split; [reflexivity|]. left. exists r. reflexivity.
    + assert (Hne : forall p, ex <> EStream p).
      { intros p ->. exact (ParserSpec.stream_ok_no_stream_error _ _ _ (ParserSpec.stream_ok_chars cs) EX). }
      destruct (M Hne) as [M'|[M' (p & -> & Hp)]]; injection M' as ->.
      * right. assert (Hio : io_into_utf8 ex = ex).
        { destruct ex; try reflexivity. exfalso. eapply Hne. reflexivity. }
        rewrite Hio. split; [reflexivity|]. split.
        { intros p ->. clear -EX. apply ErrorInv.parse_items_err_ok in EX. exact EX. }
        assert (EX' : parse_str_with strict cs = Err ex) by exact EX.
        split.
        { intros q Hq. destruct (str_boundaries _ _ _ _ EX' Hq) as (a & b & Hcs & ->).
          unfold k. rewrite Hcs. apply blen_text_app_le. }
        intros p c ->. rewrite Hio in H0.
        destruct (slice_reported_char strict bs p c H0) as (_ & _ & _ & _ & _ & Hnone).
        assert (Hc : c <> None).
        { intros ->. specialize (Hnone eq_refl). rewrite Hok in Hnone. discriminate Hnone. }
        split; [|exact Hc].
        pose proof (str_reported_none_iff _ _ _ _ EX') as Hiff.
        destruct (str_boundaries _ _ _ p EX' (or_introl eq_refl)) as (a & b & Hcs & Hpa).
        assert (Hle : p <= k) by (unfold k; rewrite Hcs, Hpa; apply blen_text_app_le).
        destruct (N.eq_dec p k) as [Heq|Hneq]; [|lia].
        exfalso. apply Hc. apply Hiff. exact Heq.
      * left. split; [reflexivity|]. right. f_equal.
        assert (EX' : parse_str_with strict cs = Err (EUnexpected p None)) by exact EX.
        pose proof (proj1 (str_reported_none_iff _ _ _ _ EX') eq_refl) as Hpk. fold k in Hpk.
        rewrite Hpk. reflexivity.
    + exfalso. exact (ParserSafety.never_panics _ _ _ EX).
    + exfalso. exact (ParserL1.machine_fuel_suffices _ _ EX).
Qed.

(* where k is: the first ill-formed sequence starts right after the longest well-formed prefix *)
Theorem utf8_first_ill_formed : forall bs,
  snd (utf8_decode bs) = false ->
  let cs := fst (utf8_decode bs) in
  blen (text_items cs) = N.of_nat (length (utf8_encode_all cs)) /\
  (exists rest, bs = utf8_encode_all cs ++ rest /\ rest <> [] /\ utf8_decode1 rest = None) /\
  (forall cs', scalars cs' -> (exists r, bs = utf8_encode_all cs' ++ r) -> exists t, cs = cs' ++ t).
Proof.
  intros bs Hok cs. destruct (utf8_decode bs) as [cs0 ok] eqn:D. cbn [fst snd] in *. subst cs ok.
  destruct (decode_sound _ _ _ D) as (Hs & rest & Hb & _ & Hf). split; [apply blen_text_items; exact Hs|].
  split.
  - exists rest. destruct (Hf eq_refl) as [H1 H2]. auto.
  - intros cs' Hs' Hr. exact (decode_longest_prefix _ _ _ D cs' Hs' Hr).
Qed.

(* ================= E4: surrogate errors ================= *)
Lemma uesc_chars_blen esc cu : uesc_chars esc cu -> 1 <= blen (text_items esc).
Proof.
  intros (h3 & h2 & h1 & h0 & d3 & d2 & d1 & d0 & -> & _). rewrite blen_text_cons.
  pose proof (utf8_len_pos 0x5C). lia.
Qed.

Theorem surrogate_span_inside : forall cs,
  (forall s e hi, parse_str cs = Err (EMissingLow s e hi) ->
     exists p esc r, cs = p ++ esc ++ r /\ uesc_chars esc hi /\ is_high hi = true /\
       blen (text_items p) <= s /\ s <= e /\ e <= blen (text_items (p ++ esc))) /\
  (forall s e hi lo, parse_str cs = Err (EInvalidLow s e hi lo) ->
     exists p esc1 esc2 r, cs = p ++ (esc1 ++ esc2) ++ r /\ uesc_chars esc1 hi /\ uesc_chars esc2 lo /\
       is_high hi = true /\ is_low lo = false /\
       blen (text_items p) <= s /\ s <= e /\ e <= blen (text_items (p ++ esc1 ++ esc2))) /\
  (forall s e cp, parse_str cs = Err (EInvalidCodePoint s e cp) ->
     exists p esc r, cs = p ++ esc ++ r /\ uesc_chars esc cp /\ is_low cp = true /\
       blen (text_items p) <= s /\ s <= e /\ e <= blen (text_items (p ++ esc))).
Proof.
  intros cs. destruct (str_surrogate strict cs) as (H1 & H2 & H3). split; [|split].
  - intros s e hi H. destruct (H1 s e hi H) as (p & esc & r & Hcs & _ & Hu & Hh & -> & ->).
    exists p, esc, r. split; [exact Hcs|]. split; [exact Hu|]. split; [exact Hh|].
    pose proof (uesc_chars_blen _ _ Hu). rewrite text_items_app, blen_app. lia.
  - intros s e hi lo H. destruct (H2 s e hi lo H) as (p & esc1 & esc2 & r & Hcs & Hu1 & Hu2 & Hh & Hl & -> & ->).
    exists p, esc1, esc2, r. split; [rewrite Hcs, <- app_assoc; reflexivity|].
    split; [exact Hu1|]. split; [exact Hu2|]. split; [exact Hh|]. split; [exact Hl|].
    pose proof (uesc_chars_blen _ _ Hu2). rewrite !text_items_app, !blen_app. lia.
  - intros s e cp H. destruct (H3 s e cp H) as (p & esc & r & Hcs & Hu & Hl & -> & ->).
    exists p, esc, r. split; [exact Hcs|]. split; [exact Hu|]. split; [exact Hl|].
    pose proof (uesc_chars_blen _ _ Hu). rewrite text_items_app, blen_app. lia.
Qed.

Print Assumptions unexpected_longest_viable_prefix.
Print Assumptions unexpected_offset_is_longest_viable.
Print Assumptions utf8_error_position.
Print Assumptions utf8_first_ill_formed.
Print Assumptions surrogate_span_inside.
