(* Proofs/NumberMinimal.v -- the digit search of Spec/EcmaNumber implements the selection rule
   of ECMAScript Number::toString (T2):
     (a) no decimal with fewer significant digits than the k found rounds to the double;
     (b) among the k-digit decimals that round to the double, the one chosen is closest to
         the double's value; on a tie the even one is preferred.
   Uses the bridges of Proofs/NumberTotal.v and the monotonicity of rounding. *)
From Coq Require Import ZArith NArith List Bool SpecFloat Reals Lia Lra.
From Flocq Require Import Core BinarySingleNaN.
From JsonSyntax Require Import Base.Float64 Spec.EcmaNumber Proofs.Float64Proofs Proofs.NumberProofs
  Proofs.NumberTotal.
Import ListNotations.
Local Open Scope Z_scope.

Local Instance fexp64_valid_M : Valid_exp fexp64.
Proof. unfold fexp64. apply FLT_exp_valid. reflexivity. Qed.

Lemma round64_le : forall x y, (x <= y)%R -> (round64 x <= round64 y)%R.
Proof. intros x y H. unfold round64. apply round_le; auto with typeclass_instances. Qed.

(* ------------------------------------------------------------------ k-digit decimals *)

(* s * 10^(n-k) with 10^(k-1) <= s < 10^k lies in decade n *)
Lemma kdigit_decade : forall k s n, 1 <= k -> 10 ^ (k - 1) <= s < 10 ^ k ->
  (bpow radix10 (n - 1) <= IZR s * bpow radix10 (n - k) < bpow radix10 n)%R.
Proof.
  intros k s n Hk [H1 H2].
  assert (Hp : (0 < bpow radix10 (n - k))%R) by apply bpow_gt_0.
  split.
  - replace (n - 1) with ((k - 1) + (n - k)) by lia. rewrite bpow_plus.
    apply Rmult_le_compat_r; [lra|]. rewrite <- IZR_pow10 by lia. now apply IZR_le.
  - replace n with (k + (n - k)) at 2 by lia. rewrite bpow_plus.
    apply Rmult_lt_compat_r; [lra|]. rewrite <- IZR_pow10 by lia. now apply IZR_lt.
Qed.

(* the normalised representation of a k-digit decimal is unique *)
Lemma kdigit_unique : forall k s1 n1 s2 n2, 1 <= k ->
  10 ^ (k - 1) <= s1 < 10 ^ k -> 10 ^ (k - 1) <= s2 < 10 ^ k ->
  (IZR s1 * bpow radix10 (n1 - k) = IZR s2 * bpow radix10 (n2 - k))%R ->
  (s1, n1) = (s2, n2).
Proof.
  intros k s1 n1 s2 n2 Hk H1 H2 E.
  pose proof (kdigit_decade k s1 n1 Hk H1) as D1.
  pose proof (kdigit_decade k s2 n2 Hk H2) as D2.
  rewrite E in D1.
  assert (n1 = n2).
  { apply mag_unique_pos in D1. apply mag_unique_pos in D2. congruence. }
  subst n2. f_equal.
  apply eq_IZR. apply Rmult_eq_reg_r with (1 := E). apply Rgt_not_eq, bpow_gt_0.
Qed.

(* ------------------------------------------------------------------ dist, dist_lt, dist_eq *)

Section Dist.
Variables num den : Z.
Hypothesis Hden : 0 < den.
Let v : R := (IZR num / IZR den)%R.

Definition dist_R (s x : Z) : R := Rabs (IZR s * bpow radix10 x - v).

Lemma dist_spec : forall s x,
  0 <= fst (dist s x num den) /\ 0 < snd (dist s x num den) /\
  (IZR (fst (dist s x num den)) / IZR (snd (dist s x num den)))%R = dist_R s x.
Proof.
  intros s x. unfold dist. destruct (scale10 x) as [pn pd] eqn:E.
  destruct (scale10_spec _ _ _ E) as [Hpn [Hpd Hr]]. cbn [fst snd].
  split; [apply Z.abs_nonneg|]. split; [lia|].
  unfold dist_R, v. rewrite <- Hr.
  assert (Hd : (0 < IZR den)%R) by (apply IZR_lt; lia).
  assert (Hp : (0 < IZR pd)%R) by (apply IZR_lt; lia).
  replace (IZR s * (IZR pn / IZR pd) - IZR num / IZR den)%R
    with (IZR (s * pn * den - num * pd) / IZR (den * pd))%R
    by (rewrite minus_IZR, !mult_IZR; field; lra).
  unfold Rdiv. rewrite Rabs_mult, Rabs_inv.
  rewrite <- !abs_IZR. rewrite (Z.abs_eq (den * pd)) by lia. reflexivity.
Qed.

Lemma dist_lt_iff : forall s1 x1 s2 x2,
  dist_lt (dist s1 x1 num den) (dist s2 x2 num den) = true <-> (dist_R s1 x1 < dist_R s2 x2)%R.
Proof.
  intros s1 x1 s2 x2.
  destruct (dist_spec s1 x1) as [_ [Hb E1]]. destruct (dist_spec s2 x2) as [_ [Hd E2]].
  rewrite <- E1, <- E2. unfold dist_lt. rewrite Z.ltb_lt.
  rewrite <- frac_lt by (apply IZR_lt; assumption).
  rewrite <- !mult_IZR. split; [apply IZR_lt|apply lt_IZR].
Qed.

Lemma dist_eq_iff : forall s1 x1 s2 x2,
  dist_eq (dist s1 x1 num den) (dist s2 x2 num den) = true <-> dist_R s1 x1 = dist_R s2 x2.
Proof.
  intros s1 x1 s2 x2.
  destruct (dist_spec s1 x1) as [_ [Hb E1]]. destruct (dist_spec s2 x2) as [_ [Hd E2]].
  rewrite <- E1, <- E2. unfold dist_eq. rewrite Z.eqb_eq.
  set (a := fst (dist s1 x1 num den)) in *. set (b := snd (dist s1 x1 num den)) in *.
  set (c := fst (dist s2 x2 num den)) in *. set (e := snd (dist s2 x2 num den)) in *.
  assert (Hb' : (0 < IZR b)%R) by now apply IZR_lt.
  assert (He' : (0 < IZR e)%R) by now apply IZR_lt.
  pose proof (frac_le (IZR a) (IZR b) (IZR c) (IZR e) Hb' He') as L1.
  pose proof (frac_le (IZR c) (IZR e) (IZR a) (IZR b) He' Hb') as L2.
  rewrite <- !mult_IZR in L1, L2.
  split; intros H.
  - apply Rle_antisym; [apply L1|apply L2]; apply IZR_le; lia.
  - apply Z.le_antisymm; apply le_IZR; [apply L1|apply L2]; lra.
Qed.

End Dist.

(* ------------------------------------------------------------------ best on the two candidates *)

Lemma best_step_eq : forall d num den k acc c,
  best_step d num den k acc c =
  if cand_ok d k c then
    match acc with
    | None => Some c
    | Some (s0, n0) =>
        if dist_lt (dist (fst c) (snd c - k) num den) (dist s0 (n0 - k) num den) then Some c
        else if dist_eq (dist (fst c) (snd c - k) num den) (dist s0 (n0 - k) num den) && Z.even (fst c)
             then Some c else acc
    end
  else acc.
Proof. intros d num den k acc [s n']. reflexivity. Qed.

Lemma best_two : forall d num den k c1 c2 c,
  best d num den k [c1; c2] = Some c ->
  let d1 := dist (fst c1) (snd c1 - k) num den in
  let d2 := dist (fst c2) (snd c2 - k) num den in
  (cand_ok d k c1 = true /\ cand_ok d k c2 = false /\ c = c1) \/
  (cand_ok d k c1 = false /\ cand_ok d k c2 = true /\ c = c2) \/
  (cand_ok d k c1 = true /\ cand_ok d k c2 = true /\
   ((dist_lt d2 d1 = true /\ c = c2) \/
    (dist_lt d2 d1 = false /\ dist_eq d2 d1 = true /\ Z.even (fst c2) = true /\ c = c2) \/
    (dist_lt d2 d1 = false /\ (dist_eq d2 d1 && Z.even (fst c2)) = false /\ c = c1))).
Proof.
  intros d num den k c1 c2 c H. cbv zeta.
  rewrite best_unfold in H. cbn [fold_left] in H. rewrite !best_step_eq in H.
  destruct (cand_ok d k c1) eqn:O1, (cand_ok d k c2) eqn:O2.
  - right. right. split; [reflexivity|]. split; [reflexivity|].
    destruct c1 as [s1 n1]. cbn [fst snd] in *.
    destruct (dist_lt _ _) eqn:L.
    + left. injection H as <-. split; reflexivity.
    + destruct (dist_eq _ _ && Z.even (fst c2)) eqn:Q.
      * right. left. apply andb_true_iff in Q. destruct Q as [Q1 Q2].
        injection H as <-. repeat split; assumption.
      * right. right. injection H as <-. repeat split; reflexivity.
  - left. injection H as <-. repeat split; reflexivity.
  - right. left. injection H as <-. repeat split; reflexivity.
  - discriminate.
Qed.

(* ------------------------------------------------------------------ the double *)

Section Double.
Variable m : positive.
Variable e : Z.
Hypothesis Hvalid : valid_binary 53 1024 (S754_finite false m e) = true.
Let d : spec_float := S754_finite false m e.
Let v : R := dbl_R m e.
Let N : Z := dbl_decade m e.
Let num : Z := nks_num m e.
Let den : Z := nks_den e.

Lemma round64_v : round64 v = v.
Proof. unfold round64. apply round_generic; auto with typeclass_instances. exact (dbl_format m e Hvalid). Qed.

(* Where a k-digit decimal lies relative to the two candidates, and what follows if it
   rounds to the double. *)
Lemma kdigit_vs_cands : forall k, 1 <= k ->
  exists c1 c2,
    cands num den N k = [c1; c2] /\
    10 ^ (k - 1) <= fst c1 < 10 ^ k /\ 10 ^ (k - 1) <= fst c2 < 10 ^ k /\
    (cand_val k c1 <= v < cand_val k c2)%R /\
    (exists fl, c1 = (fl, N) /\
       (c2 = (fl + 1, N) \/ (fl + 1 = 10 ^ k /\ c2 = (10 ^ (k - 1), N + 1)))) /\
    forall s' n', 10 ^ (k - 1) <= s' < 10 ^ k ->
      let y := (IZR s' * bpow radix10 (n' - k))%R in
      ((y <= cand_val k c1)%R \/ (cand_val k c2 <= y)%R) /\
      (round64 y = v ->
         ((y <= cand_val k c1)%R /\ cand_ok d k c1 = true) \/
         ((cand_val k c2 <= y)%R /\ cand_ok d k c2 = true)).
Proof.
  intros k Hk.
  pose proof (dbl_decade_spec m e Hvalid) as HN. fold v N in HN.
  destruct (cands_spec num den (nks_den_pos e) N k Hk) as
    [fl [c1 [c2 [Ec [Hfl [Hv [E1 [Hc2 [Hv2 Hstruct]]]]]]]]].
  { unfold num, den. rewrite nks_ratio. exact HN. }
  unfold num, den in Hv. rewrite nks_ratio in Hv. fold v in Hv.
  exists c1, c2. split; [exact Ec|].
  assert (Ev1 : cand_val k c1 = (IZR fl * bpow radix10 (N - k))%R) by (subst c1; reflexivity).
  assert (Hc1 : 10 ^ (k - 1) <= fst c1 < 10 ^ k) by (subst c1; exact Hfl).
  split; [exact Hc1|]. split; [exact Hc2|].
  rewrite Ev1, Hv2. split; [exact Hv|].
  split; [exists fl; split; assumption|].
  assert (Hpk : 0 < 10 ^ (k - 1)) by (apply Z.pow_pos_nonneg; lia).
  assert (Hpos : forall n', (0 < bpow radix10 (n' - k))%R) by (intros; apply bpow_gt_0).
  assert (Hpos_part : forall s' n', 10 ^ (k - 1) <= s' < 10 ^ k ->
    ((IZR s' * bpow radix10 (n' - k) <= IZR fl * bpow radix10 (N - k))%R \/
     (IZR (fl + 1) * bpow radix10 (N - k) <= IZR s' * bpow radix10 (n' - k))%R)).
  { intros s' n' Hs'.
    pose proof (kdigit_decade k s' n' Hk Hs') as [D1 D2].
    destruct (Z.lt_trichotomy n' N) as [C|[C|C]].
    - (* lower decade *)
      left. apply Rle_trans with (bpow radix10 (N - 1)).
      + apply Rlt_le. apply Rlt_le_trans with (1 := D2). apply bpow_le. lia.
      + apply (kdigit_decade k fl N Hk Hfl).
    - subst n'. destruct (Z_le_gt_dec s' fl) as [C|C].
      + left. apply Rmult_le_compat_r; [apply Rlt_le, Hpos|now apply IZR_le].
      + right. apply Rmult_le_compat_r; [apply Rlt_le, Hpos|apply IZR_le; lia].
    - (* higher decade *)
      right. apply Rle_trans with (bpow radix10 N).
      + replace N with (k + (N - k)) at 2 by lia. rewrite bpow_plus.
        apply Rmult_le_compat_r; [apply Rlt_le, Hpos|].
        rewrite <- IZR_pow10 by lia. apply IZR_le. lia.
      + apply Rle_trans with (2 := D1). apply bpow_le. lia. }
  intros s' n' Hs' y. split; [exact (Hpos_part s' n' Hs')|].
  intros Hy. destruct (Hpos_part s' n' Hs') as [C|C]; fold y in C.
  - left. split; [exact C|].
    apply (cand_ok_iff m e Hvalid); [lia|]. split; [exact Hc1|].
    rewrite Ev1. fold v. apply Rle_antisym.
    + rewrite <- round64_v. apply round64_le. apply Hv.
    + rewrite <- Hy. now apply round64_le.
  - right. split; [exact C|].
    apply (cand_ok_iff m e Hvalid); [lia|]. split; [exact Hc2|].
    rewrite Hv2. fold v. apply Rle_antisym.
    + rewrite <- Hy. now apply round64_le.
    + rewrite <- round64_v. apply round64_le. apply Rlt_le, Hv.
Qed.

End Double.

(* ------------------------------------------------------------------ T2 (a) *)

Theorem nks_shortest : forall m e n k s,
  valid_binary 53 1024 (S754_finite false m e) = true ->
  nks m e = Some (n, k, s) ->
  forall k' s' n', 1 <= k' < k -> 10 ^ (k' - 1) <= s' < 10 ^ k' ->
  nearest_double_pos (Z.to_pos s') (n' - k') <> S754_finite false m e.
Proof.
  intros m e n k s Hvalid H k' s' n' Hk' Hs' Hr.
  assert (Hs0 : 0 < s').
  { assert (0 < 10 ^ (k' - 1)) by (apply Z.pow_pos_nonneg; lia). lia. }
  apply (rounds_to_dbl_iff m e Hvalid s' (n' - k') Hs0) in Hr.
  destruct (kdigit_vs_cands m e Hvalid k' ltac:(lia)) as [c1 [c2 [Ec [_ [_ [_ [_ Hall]]]]]]].
  destruct (Hall s' n' Hs') as [_ Hc]. specialize (Hc Hr).
  pose proof (nks_minimal m e n k s H k') as Hmin.
  rewrite (nks_n0_correct m e Hvalid), Ec in Hmin.
  destruct Hc as [[_ Hc]|[_ Hc]].
  - rewrite (Hmin c1 Hk' (or_introl eq_refl)) in Hc. discriminate.
  - rewrite (Hmin c2 Hk' (or_intror (or_introl eq_refl))) in Hc. discriminate.
Qed.

(* ------------------------------------------------------------------ T2 (b) *)

(* what `best` does on the two candidates, in terms of real distances *)
Lemma best_two_R : forall d num den k c1 c2 c, 0 < den ->
  best d num den k [c1; c2] = Some c ->
  let D c := dist_R num den (fst c) (snd c - k) in
  (cand_ok d k c1 = true /\ cand_ok d k c2 = false /\ c = c1) \/
  (cand_ok d k c1 = false /\ cand_ok d k c2 = true /\ c = c2) \/
  (cand_ok d k c1 = true /\ cand_ok d k c2 = true /\
   (((D c2 < D c1)%R /\ c = c2) \/
    (D c2 = D c1 /\ Z.even (fst c2) = true /\ c = c2) \/
    ((D c1 <= D c2)%R /\ (D c2 = D c1 -> Z.even (fst c2) = false) /\ c = c1))).
Proof.
  intros d num den k c1 c2 c Hden H D.
  destruct (best_two _ _ _ _ _ _ _ H) as [H1|[H1|[O1 [O2 H1]]]]; [now left|now right; left|].
  right. right. split; [exact O1|]. split; [exact O2|].
  destruct H1 as [[L E]|[[L [Q [Ev E]]]|[L [Q E]]]].
  - left. split; [|exact E]. now apply (dist_lt_iff num den Hden) in L.
  - right. left. split; [|split; assumption]. now apply (dist_eq_iff num den Hden) in Q.
  - right. right. split; [|split; [|exact E]].
    + apply Rnot_lt_le. intros C. apply (dist_lt_iff num den Hden) in C.
      unfold D in C. congruence.
    + intros C. apply (dist_eq_iff num den Hden) in C.
      apply andb_false_iff in Q. destruct Q as [Q|Q]; [|exact Q].
      unfold D in C. congruence.
Qed.

(* ------------------------------------------------------------------ no 9 | 10 tie *)

(* The one-digit decimals 9 * 10^j and 10 * 10^j are never equidistant from a binary64 value
   they both round to: the midpoint 19 * 10^j / 2 is not a dyadic rational for j < 0, and for
   j >= 0 the two decimals are 10^j apart, more than one ulp of anything below 10^(j+1)
   (the double is at least 9, hence normal: ulp v <= v * 2^-52 < 10^j). *)

Lemma pow2_52_gt_10 : (10 * bpow radix2 (-52) < 1)%R.
Proof.
  change (-52) with (- (52)). rewrite bpow_opp, <- IZR_pow2 by lia.
  assert (H : (10 < IZR (2 ^ 52))%R) by (apply IZR_lt; vm_compute; reflexivity).
  apply Rmult_lt_reg_r with (IZR (2 ^ 52)); [lra|].
  replace (10 * / IZR (2 ^ 52) * IZR (2 ^ 52))%R with 10%R by (field; lra). lra.
Qed.

Lemma tie_9_10_impossible : forall m e j,
  valid_binary 53 1024 (S754_finite false m e) = true ->
  round64 (9 * bpow radix10 j) = dbl_R m e ->
  round64 (10 * bpow radix10 j) = dbl_R m e ->
  (dbl_R m e - 9 * bpow radix10 j = 10 * bpow radix10 j - dbl_R m e)%R ->
  False.
Proof.
  intros m e j Hvalid Ra Rb T.
  assert (Hv : (2 * dbl_R m e = 19 * bpow radix10 j)%R) by lra.
  assert (Hpj : (0 < bpow radix10 j)%R) by apply bpow_gt_0.
  destruct (Z_lt_le_dec j 0) as [Hj|Hj].
  - (* j < 0: 19 * 10^j / 2 is not dyadic *)
    destruct (valid_bounds _ _ _ Hvalid) as [_ He].
    set (p := - j).
    assert (Hone : (bpow radix10 j * bpow radix10 p = 1)%R).
    { rewrite <- bpow_plus. replace (j + p) with 0 by (unfold p; lia). reflexivity. }
    assert (E : (2 * IZR (Zpos m) * bpow radix2 (e + 1074) * bpow radix10 p = 19 * bpow radix2 1074)%R).
    { rewrite bpow_plus. unfold dbl_R in Hv.
      transitivity ((2 * (IZR (Zpos m) * bpow radix2 e)) * bpow radix2 1074 * bpow radix10 p)%R; [ring|].
      rewrite Hv.
      transitivity (19 * bpow radix2 1074 * (bpow radix10 j * bpow radix10 p))%R; [ring|].
      rewrite Hone. ring. }
    rewrite <- !IZR_pow2, <- IZR_pow10 in E by (unfold p; lia).
    rewrite <- !mult_IZR in E. apply eq_IZR in E.
    replace p with (Z.succ (p - 1)) in E by lia. rewrite Z.pow_succ_r in E by (unfold p; lia).
    assert (C : (19 * 2 ^ 1074) mod 5 = 1) by (vm_compute; reflexivity).
    rewrite <- E in C.
    replace (2 * Z.pos m * 2 ^ (e + 1074) * (10 * 10 ^ (p - 1)))
      with ((2 * Z.pos m * 2 ^ (e + 1074) * 2 * 10 ^ (p - 1)) * 5) in C by ring.
    rewrite Z.mod_mul in C by lia. discriminate C.
  - (* j >= 0: the two decimals are more than an ulp apart *)
    set (v := dbl_R m e) in *.
    assert (H1 : (1 <= bpow radix10 j)%R) by (change 1%R with (bpow radix10 0); now apply bpow_le).
    pose proof (error_le_half_ulp_round radix2 fexp64 (fun x => negb (Z.even x)) (9 * bpow radix10 j)) as Ea.
    pose proof (error_le_half_ulp_round radix2 fexp64 (fun x => negb (Z.even x)) (10 * bpow radix10 j)) as Eb.
    fold (round64 (9 * bpow radix10 j)) in Ea. fold (round64 (10 * bpow radix10 j)) in Eb.
    rewrite Ra in Ea. rewrite Rb in Eb.
    assert (Hvv : (v = 19 / 2 * bpow radix10 j)%R) by lra.
    rewrite Rabs_pos_eq in Ea by lra. rewrite Rabs_left1 in Eb by lra.
    assert (Hu : (ulp radix2 fexp64 v <= Rabs v * bpow radix2 (1 - 53))%R).
    { unfold fexp64. apply ulp_FLT_le.
      rewrite Rabs_pos_eq by lra.
      apply Rle_trans with 1%R; [|lra].
      change 1%R with (bpow radix2 0). apply bpow_le. lia. }
    rewrite Rabs_pos_eq in Hu by lra. change (1 - 53) with (-52) in Hu.
    pose proof pow2_52_gt_10 as P.
    assert (Hb2 : (0 < bpow radix2 (-52))%R) by apply bpow_gt_0.
    assert (bpow radix10 j <= ulp radix2 fexp64 v)%R by lra.
    assert (v * bpow radix2 (-52) < bpow radix10 j)%R; [|lra].
    rewrite Hvv. 
    apply Rle_lt_trans with (bpow radix10 j * (10 * bpow radix2 (-52)))%R; [nra|nra].
Qed.

Theorem nks_closest : forall m e n k s,
  valid_binary 53 1024 (S754_finite false m e) = true ->
  nks m e = Some (n, k, s) ->
  forall s' n', 10 ^ (k - 1) <= s' < 10 ^ k ->
  nearest_double_pos (Z.to_pos s') (n' - k) = S754_finite false m e ->
  let v := dbl_R m e in
  let y := (IZR s * bpow radix10 (n - k))%R in
  let y' := (IZR s' * bpow radix10 (n' - k))%R in
  (Rabs (y - v) <= Rabs (y' - v))%R /\
  (Rabs (y - v) = Rabs (y' - v) ->
     (s', n') = (s, n) \/ Z.even s = true).
Proof.
  intros m e n k s Hvalid H s' n' Hs' Hr v y y'.
  destruct (nks_some _ _ _ _ _ H) as [Hk [Hs _]].
  assert (Hk1 : 1 <= k) by lia.
  assert (Hs0 : 0 < s').
  { assert (0 < 10 ^ (k - 1)) by (apply Z.pow_pos_nonneg; lia). lia. }
  apply (rounds_to_dbl_iff m e Hvalid s' (n' - k) Hs0) in Hr. fold y' in Hr.
  destruct (kdigit_vs_cands m e Hvalid k Hk1) as [c1 [c2 [Ec [Hc1 [Hc2 [Hv [[fl [Efl Hstruct]] Hall]]]]]]].
  destruct (Hall s' n' Hs') as [_ Hc]. specialize (Hc Hr). fold y' in Hc. fold v in Hv.
  (* what best did *)
  pose proof H as Hb. rewrite nks_unfold in Hb.
  apply search_some in Hb. destruct Hb as [_ [Hb _]].
  rewrite (nks_n0_correct m e Hvalid), Ec in Hb.
  apply (best_two_R _ _ _ _ _ _ _ (nks_den_pos e)) in Hb. cbv beta zeta in Hb.
  assert (Hdl : forall c, dist_R (nks_num m e) (nks_den e) (fst c) (snd c - k) = Rabs (cand_val k c - v)).
  { intros c. unfold dist_R. rewrite nks_ratio. reflexivity. }
  rewrite !Hdl in Hb.
  assert (Hy : y = cand_val k (s, n)) by reflexivity.
  set (a := cand_val k c1) in *. set (b := cand_val k c2) in *.
  assert (Ha : Rabs (a - v) = (v - a)%R) by (rewrite Rabs_left1; lra).
  assert (Hbv : Rabs (b - v) = (b - v)%R) by (rewrite Rabs_pos_eq; lra).
  rewrite Ha, Hbv in Hb.
  assert (Huniq : forall c, 10 ^ (k - 1) <= fst c < 10 ^ k -> cand_val k c = y' -> (s', n') = c).
  { intros [s0 n0] Hr0 E. symmetry. apply (kdigit_unique k s0 n0 s' n' Hk1 Hr0 Hs' E). }
  rewrite Hy.
  destruct Hc as [[Hya Hok]|[Hyb Hok]].
  - (* y' is at or below the floor candidate *)
    assert (Hy' : Rabs (y' - v) = (v - y')%R) by (rewrite Rabs_left1; lra).
    rewrite Hy'.
    destruct Hb as [[_ [_ E]]|[[O1 _]|[_ [_ [[L E]|[[L [Ev E]]|[L [Q E]]]]]]]].
    + rewrite E. fold a. rewrite Ha. split; [lra|].
      intros T. left. apply Huniq; [exact Hc1|]. fold a. lra.
    + rewrite Hok in O1. discriminate O1.
    + rewrite E. fold b. rewrite Hbv. split; [lra|]. intros T. exfalso. lra.
    + rewrite E. fold b. rewrite Hbv. split; [lra|]. intros T. right.
      apply (f_equal fst) in E. cbn [fst] in E. rewrite E. exact Ev.
    + rewrite E. fold a. rewrite Ha. split; [lra|].
      intros T. left. apply Huniq; [exact Hc1|]. fold a. lra.
  - (* y' is at or above the ceiling candidate *)
    assert (Hy' : Rabs (y' - v) = (y' - v)%R) by (rewrite Rabs_pos_eq; lra).
    rewrite Hy'.
    destruct Hb as [[_ [O2 _]]|[[_ [_ E]]|[O1 [O2 [[L E]|[[L [Ev E]]|[L [Q E]]]]]]]].
    + rewrite Hok in O2. discriminate O2.
    + rewrite E. fold b. rewrite Hbv. split; [lra|].
      intros T. left. apply Huniq; [exact Hc2|]. fold b. lra.
    + rewrite E. fold b. rewrite Hbv. split; [lra|].
      intros T. left. apply Huniq; [exact Hc2|]. fold b. lra.
    + rewrite E. fold b. rewrite Hbv. split; [lra|].
      intros T. left. apply Huniq; [exact Hc2|]. fold b. lra.
    + (* the floor was chosen although the ceiling also rounds back *)
      rewrite E. fold a. rewrite Ha. split; [lra|].
      intros T. right.
      assert (Ec2 : (s', n') = c2) by (apply Huniq; [exact Hc2|fold b; lra]).
      assert (Q' : Z.even (fst c2) = false) by (apply Q; lra).
      rewrite Efl in E. injection E as Es En.
      destruct Hstruct as [E2|[Hfull E2]]; rewrite E2 in Q', Ec2; cbn [fst] in Q'.
      * rewrite Es. rewrite Z.add_1_r, Z.even_succ in Q'.
        rewrite <- Z.negb_odd, Q'. reflexivity.
      * exfalso.
        destruct (Z.eq_dec k 1) as [->|Hk2].
        { (* k = 1: the floor is 9 * 10^(N-1), the ceiling 10^N, and the double would be their
             midpoint *)
          assert (Hfl9 : fl = 9) by (change (10 ^ 1) with 10 in Hfull; lia).
          assert (Hp1 : 0 < fst c1) by (rewrite Efl; cbn [fst]; lia).
          assert (Hp2 : 0 < fst c2) by (rewrite E2; cbn [fst]; vm_compute; reflexivity).
          apply (cand_ok_iff m e Hvalid 1 c1 Hp1) in O1. destruct O1 as [_ O1].
          apply (cand_ok_iff m e Hvalid 1 c2 Hp2) in O2. destruct O2 as [_ O2].
          assert (Ea : a = (9 * bpow radix10 (dbl_decade m e - 1))%R).
          { unfold a. rewrite Efl. unfold cand_val. cbn [fst snd]. rewrite Hfl9. reflexivity. }
          assert (Eb : b = (10 * bpow radix10 (dbl_decade m e - 1))%R).
          { unfold b. rewrite E2. unfold cand_val. cbn [fst snd].
            change (10 ^ (1 - 1)) with 1. rewrite Rmult_1_l.
            replace (dbl_decade m e + 1 - 1) with (1 + (dbl_decade m e - 1)) by lia.
            rewrite bpow_plus, <- (IZR_pow10 1) by lia. reflexivity. }
          fold a in O1. fold b in O2. rewrite Ea in O1. rewrite Eb in O2.
          apply (tie_9_10_impossible m e (dbl_decade m e - 1) Hvalid O1 O2).
          rewrite <- Ea, <- Eb. fold v. lra. }
        replace (k - 1) with (Z.succ (k - 2)) in Q' by lia.
        rewrite Z.pow_succ_r, Z.even_mul in Q' by lia. discriminate Q'.
Qed.


(* The tie rule on its own: on an exact tie between two distinct k-digit decimals that round to
   the double, the chosen s is even. *)
Corollary nks_tie_even : forall m e n k s,
  valid_binary 53 1024 (S754_finite false m e) = true ->
  nks m e = Some (n, k, s) ->
  forall s' n', 10 ^ (k - 1) <= s' < 10 ^ k ->
  nearest_double_pos (Z.to_pos s') (n' - k) = S754_finite false m e ->
  (s', n') <> (s, n) ->
  Rabs (IZR s * bpow radix10 (n - k) - dbl_R m e) = Rabs (IZR s' * bpow radix10 (n' - k) - dbl_R m e) ->
  Z.even s = true.
Proof.
  intros m e n k s Hvalid H s' n' Hs' Hr Hne T.
  destruct (nks_closest m e n k s Hvalid H s' n' Hs' Hr) as [_ Ht].
  destruct (Ht T) as [E|E]; [contradiction|exact E].
Qed.

(* ------------------------------------------------------------------ ECMA-262 Number::toString, step 5 *)

(* "s * 10^(n-k) is a k-digit decimal whose Number value is the double (m, e)" *)
Definition ecma_repr (m : positive) (e : Z) (n k s : Z) : Prop :=
  1 <= k /\ 10 ^ (k - 1) <= s < 10 ^ k /\
  nearest_double_pos (Z.to_pos s) (n - k) = S754_finite false m e.

(* "let n, k, s be integers such that k >= 1, 10^(k-1) <= s < 10^k, F(s * 10^(n-k)) is x, and
   k is as small as possible; if there are multiple possibilities for s, choose the value of
   s for which s * 10^(n-k) is closest in value to R(x); if there are two such possible
   values of s, choose the one that is even" *)
Theorem nks_ecma : forall m e n k s,
  valid_binary 53 1024 (S754_finite false m e) = true ->
  nks m e = Some (n, k, s) ->
  ecma_repr m e n k s /\ k <= 17 /\
  (forall n' k' s', ecma_repr m e n' k' s' -> k <= k') /\
  (forall n' s', ecma_repr m e n' k s' ->
     (Rabs (IZR s * bpow radix10 (n - k) - dbl_R m e) <=
      Rabs (IZR s' * bpow radix10 (n' - k) - dbl_R m e))%R /\
     (Rabs (IZR s * bpow radix10 (n - k) - dbl_R m e) =
      Rabs (IZR s' * bpow radix10 (n' - k) - dbl_R m e) ->
      (s', n') = (s, n) \/ Z.even s = true)).
Proof.
  intros m e n k s Hvalid H.
  destruct (nks_some _ _ _ _ _ H) as [Hk [Hs Hr]].
  split; [split; [lia|split; assumption]|]. split; [lia|]. split.
  - intros n' k' s' [Hk' [Hs' Hr']].
    destruct (Z_le_gt_dec k k') as [C|C]; [exact C|].
    exfalso. apply (nks_shortest m e n k s Hvalid H k' s' n'); [lia|assumption|assumption].
  - intros n' s' [_ [Hs' Hr']]. exact (nks_closest m e n k s Hvalid H s' n' Hs' Hr').
Qed.

(* and such (n, k, s) always exist for a valid double *)
Theorem nks_ecma_total : forall m e,
  valid_binary 53 1024 (S754_finite false m e) = true ->
  exists n k s, nks m e = Some (n, k, s) /\ ecma_repr m e n k s.
Proof.
  intros m e Hvalid. destruct (nks_total_ex m e Hvalid) as [n [k [s H]]].
  exists n, k, s. split; [exact H|]. now destruct (nks_ecma m e n k s Hvalid H).
Qed.

Print Assumptions nks_shortest.
Print Assumptions nks_closest.
Print Assumptions nks_tie_even.
Print Assumptions nks_ecma.
Print Assumptions nks_ecma_total.
