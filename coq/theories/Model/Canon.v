(* Model/Canon.v -- Value::canonicalize_with (src/lib.rs:427) and
   Object::canonicalize_with (src/object/mod.rs:754): children first, then a stable sort
   of the members by their keys compared as UTF-16 code unit sequences (ties broken by
   value), then the index is rebuilt.  The number conversion (str::parse::<f64>, correctly
   rounded, then ryu-js Buffer::format_finite) lives in dependencies: a section variable
   whose agreement with Spec/EcmaNumber.canon_number is what the correspondence check
   validates.  No proofs here. *)
From JsonSyntax Require Import Base.Prelude Base.Value Base.Unicode Model.Compare Model.Object.

Definition utf16_cmp (a b : list N) : comparison :=
  lex_cmp N.compare (utf16_units a) (utf16_units b).

Definition canon_entry_cmp (a b : entry) : comparison :=
  match utf16_cmp (fst a) (fst b) with
  | Eq => value_cmp (snd a) (snd b)
  | c => c
  end.

Section Canon.
  Variable num_canon : list N -> list N.

  Fixpoint canonicalize (v : value) : value :=
    match v with
    | VNum n => VNum (num_canon n)
    | VArr l => VArr (map canonicalize l)
    | VObj es =>
        VObj (stable_sort canon_entry_cmp
                (map (fun e : list N * value => (fst e, canonicalize (snd e))) es))
    | other => other
    end.
End Canon.
