(* Model/Printer.v -- transcription of src/print/mod.rs: the size pre-pass
   (pre_compute_size, pushing one Size per container in pre-order) and the emission
   (fmt_with_size, consuming `sizes[*index]` in lock-step).  [None] = Rust panic
   (`sizes[*index]` out of bounds).  No proofs here. *)
From JsonSyntax Require Import Base.Prelude Base.Value.

Inductive indent := ISpaces (n : N) | ITabs (n : N).
Inductive limit := LAlways | LItem (i : N) | LWidth (w : N) | LItemOrWidth (i w : N).

Record popts := {
  p_indent : indent;
  array_begin : N; array_end : N; array_empty : N; array_before_comma : N; array_after_comma : N;
  array_limit : option limit;
  object_begin : N; object_end : N; object_empty : N; object_before_comma : N; object_after_comma : N;
  object_before_colon : N; object_after_colon : N;
  object_limit : option limit
}.

Definition pretty : popts := {|
  p_indent := ISpaces 2;
  array_begin := 1; array_end := 1; array_empty := 0; array_before_comma := 0; array_after_comma := 1;
  array_limit := Some (LItemOrWidth 1 16);
  object_begin := 1; object_end := 1; object_empty := 0; object_before_comma := 0; object_after_comma := 1;
  object_before_colon := 0; object_after_colon := 1;
  object_limit := Some (LItemOrWidth 1 16) |}.

Definition compact : popts := {|
  p_indent := ISpaces 0;
  array_begin := 0; array_end := 0; array_empty := 0; array_before_comma := 0; array_after_comma := 0;
  array_limit := None;
  object_begin := 0; object_end := 0; object_empty := 0; object_before_comma := 0; object_after_comma := 0;
  object_before_colon := 0; object_after_colon := 0;
  object_limit := None |}.

Definition inline : popts := {|
  p_indent := ISpaces 0;
  array_begin := 1; array_end := 1; array_empty := 0; array_before_comma := 0; array_after_comma := 1;
  array_limit := None;
  object_begin := 1; object_end := 1; object_empty := 0; object_before_comma := 0; object_after_comma := 1;
  object_before_colon := 0; object_after_colon := 1;
  object_limit := None |}.

Inductive size := Expanded | Width (w : N).

Definition size_add (a b : size) : size :=
  match a, b with
  | Width x, Width y => Width (x + y)
  | _, _ => Expanded
  end.

(* ---- Display helpers ---- *)
Definition spaces (n : N) : list N := repeatN 0x20 (N.to_nat n).
Definition indent_unit (i : indent) : list N :=
  match i with
  | ISpaces n => repeatN 0x20 (N.to_nat n)
  | ITabs n => repeatN 0x09 (N.to_nat n)
  end.
Fixpoint indent_by (i : indent) (n : nat) : list N :=
  match n with O => [] | S k => indent_unit i ++ indent_by i k end.

(* ---- string literals (print/mod.rs:370-439) ---- *)
Definition hex_digit_char (d : N) : N := if d <? 10 then 0x30 + d else 0x61 + (d - 10).

Definition escape_char (c : N) : list N :=
  if c =? 0x5C then [0x5C; 0x5C]
  else if c =? 0x22 then [0x5C; 0x22]
  else if c =? 0x08 then [0x5C; 0x62]
  else if c =? 0x09 then [0x5C; 0x74]
  else if c =? 0x0A then [0x5C; 0x6E]
  else if c =? 0x0C then [0x5C; 0x66]
  else if c =? 0x0D then [0x5C; 0x72]
  else if c <=? 0x1F then
    [0x5C; 0x75; hex_digit_char (c / 4096 mod 16); hex_digit_char (c / 256 mod 16);
     hex_digit_char (c / 16 mod 16); hex_digit_char (c mod 16)]
  else [c].

Definition string_literal (s : list N) : list N := 0x22 :: flat_map escape_char s ++ [0x22].

Definition char_width (c : N) : N :=
  if (c =? 0x5C) || (c =? 0x22) || (c =? 0x08) || (c =? 0x09) || (c =? 0x0A) || (c =? 0x0C) || (c =? 0x0D) then 2
  else if c <=? 0x1F then 6 else 1.

Definition printed_string_size (s : list N) : N := fold_left (fun w c => w + char_width c) s 2.

(* ---- the size pre-pass (print/mod.rs:601-789) ---- *)
Definition apply_limit (l : option limit) (len width : N) : size :=
  match l with
  | None => Width width
  | Some LAlways => Expanded
  | Some (LItem i) => if i <? len then Expanded else Width width
  | Some (LItemOrWidth i w) => if (i <? len) || (w <? width) then Expanded else Width width
  | Some (LWidth w) => if w <? width then Expanded else Width width
  end.

Fixpoint set_nth_size (n : nat) (x : size) (l : list size) : list size :=
  match l, n with
  | [], _ => []
  | _ :: r, O => x :: r
  | y :: r, S k => y :: set_nth_size k x r
  end.

(* returns the size of v and the sizes vector after the pushes made for v *)
Fixpoint pre_compute_size (o : popts) (v : value) (sizes : list size) : size * list size :=
  match v with
  | VNull => (Width 4, sizes)
  | VBool true => (Width 4, sizes)
  | VBool false => (Width 5, sizes)
  | VNum n => (Width (N.of_nat (length n)), sizes)
  | VStr s => (Width (printed_string_size s), sizes)
  | VArr items =>
      let index := length sizes in
      let sizes1 := sizes ++ [Width 0] in
      let '(sz, len, sizes2) :=
        (fix go (items : list value) (first : bool) (sz : size) (len : N) (sizes : list size)
           : size * N * list size :=
           match items with
           | [] => (sz, len, sizes)
           | x :: r =>
               let sz1 := if first then sz
                          else size_add sz (Width (1 + array_before_comma o + array_after_comma o)) in
               let '(sx, sizes') := pre_compute_size o x sizes in
               go r false (size_add sz1 sx) (len + 1) sizes'
           end) items true (Width (2 + array_begin o + array_end o)) 0 sizes1 in
      let sz' := if len =? 0 then Width (2 + array_empty o) else sz in
      let final := match sz' with
                   | Expanded => Expanded
                   | Width w => apply_limit (array_limit o) len w
                   end in
      (final, set_nth_size index final sizes2)
  | VObj entries =>
      let index := length sizes in
      let sizes1 := sizes ++ [Width 0] in
      let '(sz, len, sizes2) :=
        (fix go (es : list (list N * value)) (first : bool) (sz : size) (len : N) (sizes : list size)
           : size * N * list size :=
           match es with
           | [] => (sz, len, sizes)
           | (k, x) :: r =>
               let sz1 := if first then sz
                          else size_add sz (Width (1 + object_before_comma o + object_after_comma o)) in
               let sz2 := size_add sz1 (Width (printed_string_size k + 1 + object_before_colon o
                                                + object_after_colon o)) in
               let '(sx, sizes') := pre_compute_size o x sizes in
               go r false (size_add sz2 sx) (len + 1) sizes'
           end) entries true (Width (2 + object_begin o + object_end o)) 0 sizes1 in
      let sz' := if len =? 0 then Width (2 + object_empty o) else sz in
      let final := match sz' with
                   | Expanded => Expanded
                   | Width w => apply_limit (object_limit o) len w
                   end in
      (final, set_nth_size index final sizes2)
  end.

(* ---- emission (print/mod.rs:441-599, 811-834): returns the text and the new index ---- *)
Fixpoint fmt_with_size (o : popts) (v : value) (ind : nat) (sizes : list size) (index : nat)
  : option (list N * nat) :=
  match v with
  | VNull => Some (s2l "null", index)
  | VBool true => Some (s2l "true", index)
  | VBool false => Some (s2l "false", index)
  | VNum n => Some (n, index)
  | VStr s => Some (string_literal s, index)
  | VArr items =>
      match nth_error sizes index with
      | None => None
      | Some sz =>
          let index1 := S index in
          match items with
          | [] =>
              Some (0x5B :: (match sz with
                             | Expanded => 0x0A :: indent_by (p_indent o) ind
                             | Width _ => spaces (array_empty o)
                             end) ++ [0x5D], index1)
          | _ =>
              match sz with
              | Expanded =>
                  match
                    (fix go (items : list value) (first : bool) (index : nat) : option (list N * nat) :=
                       match items with
                       | [] => Some ([], index)
                       | x :: r =>
                           match fmt_with_size o x (S ind) sizes index with
                           | None => None
                           | Some (tx, index') =>
                               match go r false index' with
                               | None => None
                               | Some (tr, index'') =>
                                   Some ((if first then [] else spaces (array_before_comma o) ++ [0x2C; 0x0A])
                                           ++ indent_by (p_indent o) (S ind) ++ tx ++ tr, index'')
                               end
                           end
                       end) items true index1
                  with
                  | None => None
                  | Some (body, index2) =>
                      Some (0x5B :: 0x0A :: body ++ 0x0A :: indent_by (p_indent o) ind ++ [0x5D], index2)
                  end
              | Width _ =>
                  match
                    (fix go (items : list value) (first : bool) (index : nat) : option (list N * nat) :=
                       match items with
                       | [] => Some ([], index)
                       | x :: r =>
                           match fmt_with_size o x (S ind) sizes index with
                           | None => None
                           | Some (tx, index') =>
                               match go r false index' with
                               | None => None
                               | Some (tr, index'') =>
                                   Some ((if first then []
                                          else spaces (array_before_comma o) ++ [0x2C] ++ spaces (array_after_comma o))
                                           ++ tx ++ tr, index'')
                               end
                           end
                       end) items true index1
                  with
                  | None => None
                  | Some (body, index2) =>
                      Some (0x5B :: spaces (array_begin o) ++ body ++ spaces (array_end o) ++ [0x5D], index2)
                  end
              end
          end
      end
  | VObj entries =>
      match nth_error sizes index with
      | None => None
      | Some sz =>
          let index1 := S index in
          let key_text (k : list N) :=
            string_literal k ++ spaces (object_before_colon o) ++ [0x3A] ++ spaces (object_after_colon o) in
          match entries with
          | [] =>
              Some (0x7B :: (match sz with
                             | Expanded => 0x0A :: indent_by (p_indent o) ind
                             | Width _ => spaces (object_empty o)
                             end) ++ [0x7D], index1)
          | _ =>
              match sz with
              | Expanded =>
                  match
                    (fix go (es : list (list N * value)) (first : bool) (index : nat) : option (list N * nat) :=
                       match es with
                       | [] => Some ([], index)
                       | (k, x) :: r =>
                           match fmt_with_size o x (S ind) sizes index with
                           | None => None
                           | Some (tx, index') =>
                               match go r false index' with
                               | None => None
                               | Some (tr, index'') =>
                                   Some ((if first then [] else spaces (object_before_comma o) ++ [0x2C; 0x0A])
                                           ++ indent_by (p_indent o) (S ind) ++ key_text k ++ tx ++ tr, index'')
                               end
                           end
                       end) entries true index1
                  with
                  | None => None
                  | Some (body, index2) =>
                      Some (0x7B :: 0x0A :: body ++ 0x0A :: indent_by (p_indent o) ind ++ [0x7D], index2)
                  end
              | Width _ =>
                  match
                    (fix go (es : list (list N * value)) (first : bool) (index : nat) : option (list N * nat) :=
                       match es with
                       | [] => Some ([], index)
                       | (k, x) :: r =>
                           match fmt_with_size o x (S ind) sizes index with
                           | None => None
                           | Some (tx, index') =>
                               match go r false index' with
                               | None => None
                               | Some (tr, index'') =>
                                   Some ((if first then []
                                          else spaces (object_before_comma o) ++ [0x2C] ++ spaces (object_after_comma o))
                                           ++ key_text k ++ tx ++ tr, index'')
                               end
                           end
                       end) entries true index1
                  with
                  | None => None
                  | Some (body, index2) =>
                      Some (0x7B :: spaces (object_begin o) ++ body ++ spaces (object_end o) ++ [0x7D], index2)
                  end
              end
          end
      end
  end.

(* Print for Value :: fmt_with, as called by print_with(options) (indent 0) *)
Definition print_with (o : popts) (v : value) : option (list N) :=
  match v with
  | VArr _ | VObj _ =>
      let '(_, sizes) := pre_compute_size o v [] in
      option_map fst (fmt_with_size o v O sizes O)
  | _ => option_map fst (fmt_with_size o v O [] O)
  end.

Definition pretty_print := print_with pretty.
Definition compact_print := print_with compact.
Definition inline_print := print_with inline.
(* Display for Value, to_string, From<Value> for String all delegate to compact_print *)
Definition to_string := compact_print.
