(* Model/Object.v -- transcription of src/object/mod.rs and src/object/index_map.rs.
   An object is its entries vector plus the hashbrown side index.  The index is a
   list of buckets (iteration order of the table is not observable: every use is
   order-independent or goes through [find]); each bucket carries the ghost field
   [hkey]: the key it was last hashed under.  [find k] returns the bucket that was
   hashed under k AND whose representative entry carries k (hash match, then the
   `equivalent_key` closure through entries[rep]).  A rehash recomputes every [hkey]
   from entries[rep], as `make_hasher` does.
   [None] results stand for a Rust panic (slice index out of bounds).
   No proofs here. *)
From JsonSyntax Require Import Base.Prelude Base.Value Model.Compare.

Record bucket := { rep : nat; other : list nat; hkey : key }.
Record obj := { entries : list entry; buckets : list bucket }.

Definition empty_obj : obj := {| entries := []; buckets := [] |}.

Definition key_at (es : list entry) (i : nat) : option key :=
  match nth_error es i with Some (k, _) => Some k | None => None end.

(* ---- Indexes (index_map.rs:34-146) ---- *)
Fixpoint insert_sorted (x : nat) (l : list nat) : list nat :=
  match l with
  | [] => [x]
  | y :: r => if Nat.eqb x y then l else if Nat.ltb x y then x :: l else y :: insert_sorted x r
  end.

Definition indexes_insert (b : bucket) (index : nat) : bucket :=
  if Nat.eqb index (rep b) then b
  else
    let '(index', rep') := if Nat.ltb index (rep b) then (rep b, index) else (index, rep b) in
    {| rep := rep'; other := insert_sorted index' (other b); hkey := hkey b |}.

Fixpoint remove_first (x : nat) (l : list nat) : list nat :=
  match l with
  | [] => []
  | y :: r => if Nat.eqb x y then r else y :: remove_first x r
  end.

(* returns (bucket, false) when `index` was the last remaining index *)
Definition indexes_remove (b : bucket) (index : nat) : bucket * bool :=
  if Nat.eqb (rep b) index then
    match other b with
    | [] => (b, false)
    | x :: r => ({| rep := x; other := r; hkey := hkey b |}, true)
    end
  else ({| rep := rep b; other := remove_first index (other b); hkey := hkey b |}, true).

Definition shift_down_b (index : nat) (b : bucket) : bucket :=
  {| rep := if Nat.ltb index (rep b) then pred (rep b) else rep b;
     other := map (fun i => if Nat.ltb index i then pred i else i) (other b);
     hkey := hkey b |}.

Definition shift_up_b (index : nat) (b : bucket) : bucket :=
  {| rep := if Nat.leb index (rep b) then S (rep b) else rep b;
     other := map (fun i => if Nat.leb index i then S i else i) (other b);
     hkey := hkey b |}.

Definition bucket_indexes (b : bucket) : list nat := rep b :: other b.

(* ---- RawTable as used by IndexMap ---- *)
(* find: position of the matching bucket in the list *)
Fixpoint find_pos (es : list entry) (bs : list bucket) (k : key) : option (option nat) :=
  match bs with
  | [] => Some None
  | b :: r =>
      if str_eqb (hkey b) k then
        match key_at es (rep b) with
        | None => None                              (* entries[rep] out of bounds: panic *)
        | Some k' =>
            if str_eqb k' k then Some (Some O)
            else match find_pos es r k with
                 | Some (Some n) => Some (Some (S n))
                 | other => other
                 end
        end
      else match find_pos es r k with
           | Some (Some n) => Some (Some (S n))
           | other => other
           end
  end.

Definition find (es : list entry) (bs : list bucket) (k : key) : option (option bucket) :=
  match find_pos es bs k with
  | None => None
  | Some None => Some None
  | Some (Some n) => Some (nth_error bs n)
  end.

Fixpoint update_nth {A} (n : nat) (f : A -> A) (l : list A) : list A :=
  match l, n with
  | [], _ => []
  | x :: r, O => f x :: r
  | x :: r, S k => x :: update_nth k f r
  end.

Fixpoint remove_nth {A} (n : nat) (l : list A) : list A :=
  match l, n with
  | [], _ => []
  | _ :: r, O => r
  | x :: r, S k => x :: remove_nth k r
  end.

(* growth of the table re-hashes every bucket through entries[rep] *)
Fixpoint rehash (es : list entry) (bs : list bucket) : option (list bucket) :=
  match bs with
  | [] => Some []
  | b :: r =>
      match key_at es (rep b), rehash es r with
      | Some k, Some r' => Some ({| rep := rep b; other := other b; hkey := k |} :: r')
      | _, _ => None
      end
  end.

(* ---- IndexMap (index_map.rs:183-250) ---- *)
(* insert: Some (buckets, fresh) *)
Definition im_insert (es : list entry) (bs : list bucket) (index : nat) : option (list bucket * bool) :=
  match key_at es index with
  | None => None
  | Some k =>
      match find_pos es bs k with
      | None => None
      | Some (Some n) => Some (update_nth n (fun b => indexes_insert b index) bs, false)
      | Some None =>
          match rehash es bs with
          | None => None
          | Some bs' => Some (bs' ++ [{| rep := index; other := []; hkey := k |}], true)
          end
      end
  end.

Definition im_remove (es : list entry) (bs : list bucket) (index : nat) : option (list bucket) :=
  match key_at es index with
  | None => None
  | Some k =>
      match find_pos es bs k with
      | None => None
      | Some None => Some bs
      | Some (Some n) =>
          match nth_error bs n with
          | None => None
          | Some b =>
              let '(b', kept) := indexes_remove b index in
              if kept then Some (update_nth n (fun _ => b') bs) else Some (remove_nth n bs)
          end
      end
  end.

Definition im_shift_down (bs : list bucket) (index : nat) := map (shift_down_b index) bs.
Definition im_shift_up (bs : list bucket) (index : nat) := map (shift_up_b index) bs.
Definition im_contains_duplicate_keys (bs : list bucket) : bool :=
  existsb (fun b => match other b with [] => false | _ => true end) bs.

(* ---- Object (object/mod.rs) ---- *)
Fixpoint insert_all (es : list entry) (bs : list bucket) (i : nat) (n : nat) : option (list bucket) :=
  match n with
  | O => Some bs
  | S m =>
      match im_insert es bs i with
      | None => None
      | Some (bs', _) => insert_all es bs' (S i) m
      end
  end.

Definition from_vec (es : list entry) : option obj :=
  match insert_all es [] O (length es) with
  | None => None
  | Some bs => Some {| entries := es; buckets := bs |}
  end.

Definition push_entry (o : obj) (e : entry) : option (obj * bool) :=
  let index := length (entries o) in
  let es := entries o ++ [e] in
  match im_insert es (buckets o) index with
  | None => None
  | Some (bs, fresh) => Some ({| entries := es; buckets := bs |}, fresh)
  end.
Definition push (o : obj) (k : key) (v : value) := push_entry o (k, v).

Definition push_entry_front (o : obj) (e : entry) : option (obj * bool) :=
  let es := e :: entries o in
  let bs := im_shift_up (buckets o) O in
  match im_insert es bs O with
  | None => None
  | Some (bs', fresh) => Some ({| entries := es; buckets := bs' |}, fresh)
  end.
Definition push_front (o : obj) (k : key) (v : value) := push_entry_front o (k, v).

Definition remove_at (o : obj) (index : nat) : option (obj * option entry) :=
  if Nat.ltb index (length (entries o)) then
    match im_remove (entries o) (buckets o) index with
    | None => None
    | Some bs =>
        Some ({| entries := remove_nth index (entries o); buckets := im_shift_down bs index |},
              nth_error (entries o) index)
    end
  else Some (o, None).

(* queries *)
Definition lookup (o : obj) (k : key) : option (option bucket) := find (entries o) (buckets o) k.

Definition contains_key (o : obj) (k : key) : option bool :=
  match lookup o k with None => None | Some b => Some (match b with Some _ => true | None => false end) end.
Definition index_of (o : obj) (k : key) : option (option nat) :=
  match lookup o k with None => None | Some b => Some (option_map rep b) end.
Definition redundant_index_of (o : obj) (k : key) : option (option nat) :=
  match lookup o k with
  | None => None
  | Some b => Some (match b with Some b' => hd_error (other b') | None => None end)
  end.
Definition indexes_of (o : obj) (k : key) : option (list nat) :=
  match lookup o k with
  | None => None
  | Some b => Some (match b with Some b' => bucket_indexes b' | None => [] end)
  end.

(* the entries_iter! iterators index `entries[index]`: panic when out of bounds *)
Fixpoint entries_at (es : list entry) (is : list nat) : option (list (nat * entry)) :=
  match is with
  | [] => Some []
  | i :: r =>
      match nth_error es i, entries_at es r with
      | Some e, Some l => Some ((i, e) :: l)
      | _, _ => None
      end
  end.
Definition get_entries_with_index (o : obj) (k : key) : option (list (nat * entry)) :=
  match indexes_of o k with None => None | Some is => entries_at (entries o) is end.
Definition get_entries (o : obj) (k : key) : option (list entry) :=
  option_map (map snd) (get_entries_with_index o k).
Definition get (o : obj) (k : key) : option (list value) :=
  option_map (map (fun p => snd (snd p))) (get_entries_with_index o k).
Definition get_with_index (o : obj) (k : key) : option (list (nat * value)) :=
  option_map (map (fun p => (fst p, snd (snd p)))) (get_entries_with_index o k).

Inductive unique (A : Type) := UNone | UOne (a : A) | UDup (a b : A).
Arguments UNone {A}.
Arguments UOne {A} a.
Arguments UDup {A} a b.
Definition unique_of {A} (l : list A) : unique A :=
  match l with [] => UNone | [a] => UOne a | a :: b :: _ => UDup a b end.
Definition get_unique (o : obj) (k : key) : option (unique value) := option_map unique_of (get o k).
Definition get_unique_entry (o : obj) (k : key) : option (unique entry) := option_map unique_of (get_entries o k).

(* in-place mutation of a value through get_mut / iter_mut *)
Definition set_value_at (o : obj) (i : nat) (v : value) : obj :=
  {| entries := update_nth i (fun e => (fst e, v)) (entries o); buckets := buckets o |}.

(* ---- removal iterators.  Each returns the final object and ALL the entries the
   iterator yields when driven to the end (by the caller or by Drop::drop -> last());
   a caller that pulls n items observes the first n. ---- *)

(* RemovedByInsertion / RemovedByInsertFront::next after `first` is gone:
   redundant_index_of(entries[at].key).and_then(remove_at) *)
Fixpoint purge_redundant (fuel : nat) (o : obj) (at_ : nat) : option (obj * list entry) :=
  match fuel with
  | O => Some (o, [])
  | S f =>
      match key_at (entries o) at_ with
      | None => None
      | Some k =>
          match redundant_index_of o k with
          | None => None
          | Some None => Some (o, [])
          | Some (Some j) =>
              match remove_at o j with
              | None => None
              | Some (o', None) => Some (o', [])
              | Some (o', Some e) =>
                  match purge_redundant f o' at_ with
                  | None => None
                  | Some (o'', l) => Some (o'', e :: l)
                  end
              end
          end
      end
  end.

Fixpoint replace_nth {A} (n : nat) (x : A) (l : list A) : list A :=
  match l, n with
  | [], _ => []
  | _ :: r, O => x :: r
  | y :: r, S k => y :: replace_nth k x r
  end.

(* insert: None = no entry matched (pushed); Some l = the removed entries *)
Definition insert (o : obj) (k : key) (v : value) : option (obj * option (list entry)) :=
  match index_of o k with
  | None => None
  | Some (Some index) =>
      match nth_error (entries o) index with
      | None => None
      | Some old =>
          let o1 := {| entries := replace_nth index (k, v) (entries o); buckets := buckets o |} in
          match purge_redundant (length (entries o)) o1 index with
          | None => None
          | Some (o2, l) => Some (o2, Some (old :: l))
          end
      end
  | Some None =>
      match push o k v with
      | None => None
      | Some (o', _) => Some (o', None)
      end
  end.

Definition insert_front (o : obj) (k : key) (v : value) : option (obj * list entry) :=
  match entries o with
  | (k0, v0) :: r =>
      if str_eqb k0 k then
        let o1 := {| entries := (k, v) :: r; buckets := buckets o |} in
        match purge_redundant (length (entries o)) o1 O with
        | None => None
        | Some (o2, l) => Some (o2, (k0, v0) :: l)
        end
      else
        match push_front o k v with
        | None => None
        | Some (o1, _) => purge_redundant (S (length (entries o))) o1 O
        end
  | [] =>
      match push_front o k v with
      | None => None
      | Some (o1, _) => purge_redundant 1 o1 O
      end
  end.

(* RemovedEntries::next = index_of(key).and_then(remove_at) *)
Fixpoint remove_all (fuel : nat) (o : obj) (k : key) : option (obj * list entry) :=
  match fuel with
  | O => Some (o, [])
  | S f =>
      match index_of o k with
      | None => None
      | Some None => Some (o, [])
      | Some (Some i) =>
          match remove_at o i with
          | None => None
          | Some (o', None) => Some (o', [])
          | Some (o', Some e) =>
              match remove_all f o' k with
              | None => None
              | Some (o'', l) => Some (o'', e :: l)
              end
          end
      end
  end.

Definition remove (o : obj) (k : key) : option (obj * list entry) :=
  remove_all (S (length (entries o))) o k.

(* remove_unique: the iterator is dropped after at most two items; Drop drains it *)
Definition remove_unique (o : obj) (k : key) : option (obj * unique entry) :=
  match remove o k with
  | None => None
  | Some (o', l) => Some (o', unique_of l)
  end.

(* Vec::sort_by is a stable sort: insertion sort is the reference stable sort *)
Fixpoint insert_by {A} (cmp : A -> A -> comparison) (x : A) (l : list A) : list A :=
  match l with
  | [] => [x]
  | y :: r => match cmp x y with
              | Gt => y :: insert_by cmp x r
              | _ => x :: l
              end
  end.
Definition stable_sort {A} (cmp : A -> A -> comparison) (l : list A) : list A :=
  fold_right (fun x acc => insert_by cmp x acc) [] l.

Definition sort_with (cmp : entry -> entry -> comparison) (o : obj) : option obj :=
  from_vec (stable_sort cmp (entries o)).
Definition sort (o : obj) : option obj := sort_with entry_cmp o.

Definition get_or_insert_with (o : obj) (k : key) (v : value) : option (obj * value) :=
  match index_of o k with
  | None => None
  | Some (Some i) =>
      match nth_error (entries o) i with
      | Some e => Some (o, snd e)
      | None => None
      end
  | Some None =>
      match push o k v with
      | None => None
      | Some (o', _) => Some (o', v)
      end
  end.

Fixpoint extend (o : obj) (l : list entry) : option obj :=
  match l with
  | [] => Some o
  | e :: r => match push_entry o e with
              | None => None
              | Some (o', _) => extend o' r
              end
  end.
Definition from_iter (l : list entry) : option obj := extend empty_obj l.

(* the hook's view: each bucket's positions, buckets sorted by representative *)
Definition dump (o : obj) : list (list nat) :=
  stable_sort (fun a b => Nat.compare (hd O a) (hd O b)) (map bucket_indexes (buckets o)).
