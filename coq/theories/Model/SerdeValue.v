(* Model/SerdeValue.v -- Value's own serde impls and the serde_json bridge.
   No proofs here.

   Part 1 (C17)  src/serde/ser.rs, src/serde/de.rs, json-number-0.4.10 src/serde.rs:
     emit       `impl Serialize for Value / Object` + `impl Serialize for Number`
                (the events sent to a serializer)
     ser        `json_syntax::Serializer` with SerializeArray / SerializeMap /
                StringNumberSerializer on those events
     to_value   = ser o emit                       (json_syntax::to_value(&v))
     events     `impl Deserializer for Value` (deserialize_any, visit_number)
     events_sj  serde_json's streaming Deserializer over a text denoting the value
                (only its number classification is modelled; tokenising and unescaping are not)
     de_value   `impl Deserialize for Value`: ValueVisitor over the events
     from_value = de_value o events,  from_text = de_value o events_sj
   Part 2 (C18)  src/convert/serde_json.rs, json-number src/serde_json.rs:
     from_sj    Value::from_serde_json,  into_sj  Value::into_serde_json.

   Decimal -> double conversions are correctly rounded and modelled by the reference
   Spec.NumSpelling.dbl: `str::parse::<f64>` of std (used by json-syntax itself for every
   number that is not a 64-bit integer, src/serde/de.rs visit_number and
   src/convert/serde_json.rs) and serde_json's streaming parser built with its
   `float_roundtrip` feature (the front end of from_text; it reports "number out of range"
   instead of an infinity).  Dependencies that print doubles are modelled, not verified, as
   section variables:
     fmt_lex   NumberBuf::try_from(f64) on a finite double (lexical write, trim_floats)
     fmt_ryu   Display of a serde_json float Number (ryu)
   Object::insert is used through its list specification Spec.Multimap.m_insert, which
   Proofs/ObjectRefine.v proves the indexed object refines.  Panic site:
     1  `.expect("invalid serde_json::Number")`   (json-number src/serde_json.rs:8)
   (into_serde_json has none: a non-finite double becomes serde_json::Value::Null) *)
From Coq Require Import SpecFloat.
From JsonSyntax Require Import Base.Prelude Base.Value Base.Float64 Model.Compare
  Spec.Multimap Spec.NumSpelling Spec.SerdeData Spec.SerdeJsonValue.

Inductive ser_err := ECustom | ENonStringKey | EMalformed.
Inductive de_err := DCustom.

(* state of ser.rs's SerializeMap *)
Inductive map_state :=
| MSObject (es : list entry)
| MSNumber (n : option (list N)).

Section SerdeValue.
  Variable fmt_lex : spec_float -> list N.
  Variable fmt_ryu : spec_float -> list N.

  (* ------------------------------------------------------------------ *)
  (* impl Serialize for Value, Number arm (ser.rs): a number with a decimal point or that is
     an i64 / u64 is delegated to json-number's `impl Serialize for Number` (src/serde.rs:13:
     one-field struct carrying the spelling, serialize_i64, serialize_u64); any other number
     (integer syntax outside 64 bits, exponent without fraction) is sent by json-syntax itself
     as the same one-field struct *)
  Definition emit_number (n : list N) : sd :=
    if has_decimal_point n then SNumStruct n
    else match parse_i64 n with
         | Some z => SI64 z
         | None => match parse_u64 n with
                   | Some z => SU64 z
                   | None => SNumStruct n
                   end
         end.

  (* impl Serialize for Value / Object (ser.rs:8, 34) *)
  Fixpoint emit (v : value) : sd :=
    match v with
    | VNull => SUnit
    | VBool b => SBool b
    | VNum n => emit_number n
    | VStr s => SStr s
    | VArr l => SSeq (map emit l)
    | VObj es => SMap (map (fun e : list N * value => (fst e, emit (snd e))) es)
    end.

  (* Serializer::serialize_f64 / ValueVisitor::visit_f64:
     NumberBuf::try_from(f64).map(Value::Number).unwrap_or(Value::Null) *)
  Definition f64_value (x : spec_float) : value :=
    if sf_is_finite x then VNum (fmt_lex x) else VNull.

  (* StringNumberSerializer (ser.rs:322): only a str that is a valid number *)
  Definition ser_string_number (d : sd) : outcome ser_err (list N) :=
    match d with
    | SStr s => if valid_number s then Ok s else Err EMalformed
    | SFail => Err ECustom
    | _ => Err EMalformed
    end.

  Definition obj_is_empty (es : list entry) : bool := match es with [] => true | _ => false end.

  (* SerializeMap::end (ser.rs:806) *)
  Definition map_end (st : map_state) : outcome ser_err value :=
    match st with
    | MSNumber (Some n) => Ok (VNum n)
    | MSNumber None => Err EMalformed
    | MSObject es => Ok (VObj es)
    end.

  (* json_syntax::Serializer (ser.rs:81) on the events *)
  Fixpoint ser (d : sd) : outcome ser_err value :=
    match d with
    | SUnit => Ok VNull
    | SBool b => Ok (VBool b)
    | SI64 z => Ok (VNum (fmt_int z))
    | SU64 z => Ok (VNum (fmt_int z))
    | SF64 x => Ok (f64_value x)
    | SStr s => Ok (VStr s)
    | SSeq l =>
        obind ((fix go (l : list sd) : outcome ser_err (list value) :=
                  match l with
                  | [] => Ok []
                  | x :: r => obind (ser x) (fun y => obind (go r) (fun ys => Ok (y :: ys)))
                  end) l)
              (fun ys => Ok (VArr ys))
    | SMap es =>
        (* serialize_entry = serialize_key (ser.rs:758) then serialize_value (ser.rs:782) *)
        (fix go (es : list (list N * sd)) (st : map_state) : outcome ser_err value :=
           match es with
           | [] => map_end st
           | (k, x) :: r =>
               match st with
               | MSNumber _ => Err EMalformed
               | MSObject obj =>
                   if obj_is_empty obj && str_eqb k number_token then
                     obind (ser_string_number x) (fun n => go r (MSNumber (Some n)))
                   else
                     obind (ser x) (fun y => go r (MSObject (fst (m_insert obj k y))))
               end
           end) es (MSObject [])
    | SNumStruct s =>
        (* serialize_struct(TOKEN, 1) = serialize_map; the field TOKEN switches the empty
           map to number mode; its value goes through StringNumberSerializer; end *)
        if valid_number s then Ok (VNum s) else Err EMalformed
    | SFail => Err ECustom
    end.

  Definition to_value (v : value) : outcome ser_err value := ser (emit v).

  (* ------------------------------------------------------------------ *)
  (* visit_number (de.rs): u64, else i64, else str::parse::<f64> (correctly rounded) *)
  Definition number_events (n : list N) : sd :=
    match parse_u64 n with
    | Some z => SU64 z
    | None => match parse_i64 n with
              | Some z => SI64 z
              | None => SF64 (dbl n)
              end
    end.

  (* `Value as Deserializer`::deserialize_any (de.rs:302), visit_array, visit_object *)
  Fixpoint events (v : value) : sd :=
    match v with
    | VNull => SUnit
    | VBool b => SBool b
    | VNum n => number_events n
    | VStr s => SStr s
    | VArr l => SSeq (map events l)
    | VObj es => SMap (map (fun e : list N * value => (fst e, events (snd e))) es)
    end.

  (* serde_json::Deserializer::parse_integer / parse_number (de.rs:462-528) on a valid
     number: integer syntax gives U64, or I64 when negative and in range, -0 gives the float
     -0.0; everything else is the nearest double (feature float_roundtrip), or the error
     "number out of range" when that is infinite *)
  Definition sj_number_events (n : list N) : sd :=
    match parse_u64 n with
    | Some z => SU64 z
    | None => match parse_i64 n with
              | Some z => if (z <? 0)%Z then SI64 z else SF64 (S754_zero true)
              | None => let x := dbl n in if sf_is_finite x then SF64 x else SFail
              end
    end.

  Fixpoint events_sj (v : value) : sd :=
    match v with
    | VNull => SUnit
    | VBool b => SBool b
    | VNum n => sj_number_events n
    | VStr s => SStr s
    | VArr l => SSeq (map events_sj l)
    | VObj es => SMap (map (fun e : list N * value => (fst e, events_sj (snd e))) es)
    end.

  (* ValueVisitor (de.rs:53-195).  A map whose first key is the private token is read as
     an arbitrary-precision number: its value must be a string holding a valid number; the
     remaining entries are never pulled, which both front ends then report as an error. *)
  Fixpoint de_value (d : sd) : outcome de_err value :=
    match d with
    | SUnit => Ok VNull
    | SBool b => Ok (VBool b)
    | SI64 z => Ok (VNum (fmt_int z))
    | SU64 z => Ok (VNum (fmt_int z))
    | SF64 x => Ok (f64_value x)
    | SStr s => Ok (VStr s)
    | SSeq l =>
        obind ((fix go (l : list sd) : outcome de_err (list value) :=
                  match l with
                  | [] => Ok []
                  | x :: r => obind (de_value x) (fun y => obind (go r) (fun ys => Ok (y :: ys)))
                  end) l)
              (fun ys => Ok (VArr ys))
    | SMap es =>
        match es with
        | [] => Ok (VObj [])
        | (k, x) :: r =>
            if str_eqb k number_token then
              match x with
              | SStr s =>
                  if valid_number s then
                    match r with [] => Ok (VNum s) | _ :: _ => Err DCustom end
                  else Err DCustom
              | _ => Err DCustom
              end
            else
              obind (de_value x) (fun y =>
                (fix go (r : list (list N * sd)) (obj : list entry) : outcome de_err value :=
                   match r with
                   | [] => Ok (VObj obj)
                   | (k', x') :: r' =>
                       obind (de_value x') (fun y' => go r' (fst (m_insert obj k' y')))
                   end) r (fst (m_insert [] k y)))
        end
    | SNumStruct s => if valid_number s then Ok (VNum s) else Err DCustom
    | SFail => Err DCustom
    end.

  Definition from_value (v : value) : outcome de_err value := de_value (events v).
  Definition from_text (v : value) : outcome de_err value := de_value (events_sj v).

  (* ------------------------------------------------------------------ *)
  (* impl From<serde_json::Number> for NumberBuf (json-number src/serde_json.rs:3) *)
  Definition sjnum_to_string (n : sjnum) : list N :=
    match n with
    | PosInt z => fmt_int z
    | NegInt z => fmt_int z
    | SFloat x => fmt_ryu x
    end.

  Definition number_from_sj (n : sjnum) : outcome unit (list N) :=
    let s := sjnum_to_string n in
    if valid_number s then Ok s else Panic 1.

  (* Value::from_serde_json (convert/serde_json.rs:21): a BTreeMap iterates in key order;
     Object's FromIterator pushes *)
  Fixpoint from_sj (j : sj) : outcome unit value :=
    match j with
    | JNull => Ok VNull
    | JBool b => Ok (VBool b)
    | JNum n => obind (number_from_sj n) (fun s => Ok (VNum s))
    | JStr s => Ok (VStr s)
    | JArr l =>
        obind ((fix go (l : list sj) : outcome unit (list value) :=
                  match l with
                  | [] => Ok []
                  | x :: r => obind (from_sj x) (fun y => obind (go r) (fun ys => Ok (y :: ys)))
                  end) l)
              (fun ys => Ok (VArr ys))
    | JObj es =>
        obind ((fix go (es : list (list N * sj)) : outcome unit (list entry) :=
                  match es with
                  | [] => Ok []
                  | (k, x) :: r => obind (from_sj x) (fun y => obind (go r) (fun ys => Ok ((k, y) :: ys)))
                  end) es)
              (fun ys => Ok (VObj ys))
    end.

  (* into_serde_json, Number arm (convert/serde_json.rs): u64, else i64 (serde_json's
     From<i64> stores a non-negative one as PosInt), else str::parse::<f64> and
     serde_json::Value::from(f64), which is Null for a non-finite float *)
  Definition number_into_sj (n : list N) : sj :=
    match parse_u64 n with
    | Some z => JNum (PosInt z)
    | None =>
        match parse_i64 n with
        | Some z => JNum (if (z <? 0)%Z then NegInt z else PosInt z)
        | None => let x := dbl n in if sf_is_finite x then JNum (SFloat x) else JNull
        end
    end.

  (* BTreeMap insertion: keys ordered as <String as Ord>, an equal key is overwritten *)
  Fixpoint bt_insert (k : list N) (x : sj) (m : list (list N * sj)) : list (list N * sj) :=
    match m with
    | [] => [(k, x)]
    | (k', x') :: r =>
        match str_cmp k k' with
        | Lt => (k, x) :: m
        | Eq => (k, x) :: r
        | Gt => (k', x') :: bt_insert k x r
        end
    end.

  (* Value::into_serde_json (convert/serde_json.rs:56) *)
  Fixpoint into_sj (v : value) : outcome unit sj :=
    match v with
    | VNull => Ok JNull
    | VBool b => Ok (JBool b)
    | VNum n => Ok (number_into_sj n)
    | VStr s => Ok (JStr s)
    | VArr l =>
        obind ((fix go (l : list value) : outcome unit (list sj) :=
                  match l with
                  | [] => Ok []
                  | x :: r => obind (into_sj x) (fun y => obind (go r) (fun ys => Ok (y :: ys)))
                  end) l)
              (fun ys => Ok (JArr ys))
    | VObj es =>
        (fix go (es : list (list N * value)) (m : list (list N * sj)) : outcome unit sj :=
           match es with
           | [] => Ok (JObj m)
           | (k, x) :: r => obind (into_sj x) (fun y => go r (bt_insert k y m))
           end) es []
    end.

  Definition there_and_back (j : sj) : outcome unit sj := obind (from_sj j) into_sj.
  Definition back_and_there (v : value) : outcome unit value := obind (into_sj v) from_sj.
End SerdeValue.
