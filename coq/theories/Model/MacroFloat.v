(* Model/MacroFloat.v -- executable reference for the dependency [fmt_f64] of Model/Macro.v:
   the spelling `NumberBuf::try_from(f64)` (json-number 0.4 through lexical-core's
   `to_string_with_options::<_, JSON>` with `trim_floats(true)`, exponent character `e`)
   gives to the double denoted by an unsigned Rust float literal.  No proofs.

   The literal is read as an exact decimal and rounded to the nearest binary64 (ties to
   even) -- rustc's literal conversion; the digits are the shortest ones that round back,
   closest to the value (Spec/EcmaNumber.nks, the same digit generation as ECMAScript's
   Number::toString, which is what lexical's Dragonbox produces); the layout is lexical's:
   positional notation while the decimal exponent E of d.ddd x 10^E satisfies -5 <= E <= 9
   (an integral value loses its ".0"), scientific notation `d.ddde[-]X` otherwise.
   Validated against the implementation by the C19 correspondence run, which found that
   lexical-write-float 1.0.6 is NOT always shortest (some doubles between about 1e20 and
   1e26: the double 0x44622062a2e7c33e is written 2.6750000000000003e21 although
   2.675e21 denotes it): known finding C19-lexical-not-shortest.  This reference stays the
   principled one (it agrees with std's `{:e}` digits on every generated double). *)
From Coq Require Import ZArith NArith List Bool SpecFloat.
From JsonSyntax Require Import Base.Float64 Spec.EcmaNumber Model.Macro Model.Serde.
Import ListNotations.
Local Open Scope Z_scope.

Definition layout_lexical (n k s : Z) : list N :=
  let ds := dec_digits s in
  let e := n - 1 in
  if (-5 <=? e) && (e <=? 9) then
    if k <=? n then ds ++ zeros (Z.to_nat (n - k))
    else if 0 <? n then firstn (Z.to_nat n) ds ++ [0x2E%N] ++ skipn (Z.to_nat n) ds
    else [0x30%N; 0x2E%N] ++ zeros (Z.to_nat (- n)) ++ ds
  else
    let etxt := (if 0 <=? e then [] else [0x2D%N]) ++ dec_digits (Z.abs e) in
    match ds with
    | [d] => [d; 0x65%N] ++ etxt
    | d :: r => [d; 0x2E%N] ++ r ++ [0x65%N] ++ etxt
    | [] => []
    end.

(* None: not a decimal spelling, or the value overflows to infinity (the literal does not
   compile: overflowing_literals is deny-by-default) *)
Definition lexical_f64 (spelling : list N) : option (list N) :=
  match spelling with
  | 0x2D%N :: _ => None                 (* a literal token carries no sign *)
  | _ =>
    match read_decimal spelling with
    | Some d =>
        match nearest_double d with
        | S754_zero _ => Some [0x30%N]
        | S754_finite _ m e =>
            match nks m e with
            | Some (n, k, s) => Some (layout_lexical n k s)
            | None => None
            end
        | _ => None
        end
    | None => None
    end
  end.

(* the same for an f32 literal: rustc rounds the decimal to the nearest binary32 ([sgl],
   Model/Serde.v); the digits are the shortest that read back as that binary32, of two equally
   close candidates the larger (what lexical does for f32; round trip and totality are proved
   in Proofs/Float32Proofs.v, Proofs/Float32Total.v), in the same layout *)
Definition lexical_f32 (spelling : list N) : option (list N) :=
  match spelling with
  | 0x2D%N :: _ => None
  | _ =>
    match read_decimal spelling with
    | Some _ =>
        match sgl spelling with
        | S754_zero _ => Some [0x30%N]
        | S754_finite _ m e =>
            match fmt_sf chk32 false (S754_finite false m e) with
            | [] => None
            | r => Some r
            end
        | _ => None
        end
    | None => None
    end
  end.

(* the dependency [fmt_float] of Model/Macro.v *)
Definition lexical_float (t : fty) (spelling : list N) : option (list N) :=
  match t with FT64 => lexical_f64 spelling | FT32 => lexical_f32 spelling end.
