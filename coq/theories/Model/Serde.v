(* Model/Serde.v -- json_syntax::to_value / from_value on typed data (src/serde/ser.rs,
   src/serde/de.rs) and the serde_json side of C16.  Executable; NO proofs here.

   [tser]      transcribes `Serializer`, `KeySerializer`, `SerializeArray`, `SerializeMap`
              (with the `$serde_json::private::Number` hand-shake and
              `StringNumberSerializer`), `SerializeTupleVariant`, `SerializeStructVariant`.
   [de]       transcribes `impl Deserializer for Value`, `visit_array`, `visit_object`,
              `MapKeyDeserializer`, `EnumDeserializer`, `VariantDeserializer`, the number
              helper `visit_number` and `deserialize_f32` -- DRIVEN BY A MODELLED CONTRACT of
              what the std / serde-derive generated `Deserialize` impls request.  The
              contract is part of the trusted base and is validated by the correspondence
              run; it is spelled out next to [de] below.
   [ser_sj]   serde_json::to_value (serde_json/src/value/ser.rs, default features: objects
              are BTreeMaps ordered by key), [from_tsj] Value::from_serde_json
              (src/convert/serde_json.rs + json-number/src/serde_json.rs).
   [shape]    the JSON shape of a value: structure, strings and booleans exact, object
              members sorted by key, numbers by VALUE (the exact integer when the number
              denotes one, otherwise the double it reads as).

   Dependencies that live outside the crate are section variables:
     fmt_f64, fmt_f32 : lexical::to_string_with_options (float -> number spelling),
     fmt_sj           : serde_json::Number's Display for a float.
   Reading a spelling is NOT a dependency any more: `str::parse::<f64>` / `::<f32>` of std are
   correctly rounded, i.e. [dbl] (Spec/NumSpelling.v) and [sgl] below.
   Executable reference instances are at the end of the file (extraction, correspondence). *)
From Coq Require Import SpecFloat.
From Flocq Require Import Core BinarySingleNaN.
From JsonSyntax Require Import Base.Prelude Base.Value Base.Float64 Spec.EcmaNumber
  Spec.NumSpelling Spec.Multimap Spec.SerdeTyped.
Local Open Scope Z_scope.

(* ------------------------------------------------------------------------------------ *)
(* binary32 and the integer / float casts of Rust (`as`), all correctly rounded          *)

Definition prec32 : Z := 24.
Definition emax32 : Z := 128.

Definition sf32_bits (x : spec_float) : Z :=
  match x with
  | S754_zero s => if s then 2 ^ 31 else 0
  | S754_infinity s => (if s then 2 ^ 31 else 0) + 255 * 2 ^ 23
  | S754_nan => 255 * 2 ^ 23 + 2 ^ 22
  | S754_finite s m e =>
      (if s then 2 ^ 31 else 0) +
      (if Zpos m <? 2 ^ 23 then Zpos m else (e + 150) * 2 ^ 23 + (Zpos m - 2 ^ 23))
  end.

Definition sf32_of_bits (b : Z) : spec_float :=
  let s := 2 ^ 31 <=? b in
  let b' := b mod 2 ^ 31 in
  let ex := b' / 2 ^ 23 in
  let fr := b' mod 2 ^ 23 in
  if ex =? 255 then (if fr =? 0 then S754_infinity s else S754_nan)
  else if ex =? 0 then (if fr =? 0 then S754_zero s else S754_finite s (Z.to_pos fr) (-149))
  else S754_finite s (Z.to_pos (fr + 2 ^ 23)) (ex - 150).

Definition round32 (x : spec_float) : spec_float :=
  match x with
  | S754_finite s m e => binary_round prec32 emax32 mode_NE s m e
  | other => other
  end.
Definition round64 (x : spec_float) : spec_float :=
  match x with
  | S754_finite s m e => binary_round prec64 emax64 mode_NE s m e
  | other => other
  end.

(* u64 / i64 `as f64`, `as f32` *)
Definition sf_of_Z (z : Z) : spec_float :=
  match z with
  | Z0 => S754_zero false
  | Zpos p => S754_finite false p 0
  | Zneg p => S754_finite true p 0
  end.
Definition f64_of_Z (z : Z) : Z := sf_bits (round64 (sf_of_Z z)).
Definition f32_of_Z (z : Z) : Z := sf32_bits (round32 (sf_of_Z z)).
(* f64 `as f32`, f32 `as f64` *)
Definition f32_of_f64 (b : Z) : Z := sf32_bits (round32 (sf_of_bits b)).
Definition f64_of_f32 (b : Z) : Z := sf_bits (round64 (sf32_of_bits b)).

(* nearest binary32 (ties to even) of m * 10^e10, m > 0: built as Base/Float64.nearest_double_pos
   with prec 24, emax 128.  Magnitudes >= 10^39 (> 2^128) overflow, magnitudes < 10^-46
   (below half the least subnormal 2^-150) round to zero. *)
Definition nearest_single_pos (m : positive) (e10 : Z) : spec_float :=
  let k := digits10 (Zpos m) in
  if 39 <=? k - 1 + e10 then S754_infinity false
  else if k + e10 <=? -46 then S754_zero false
  else if 0 <=? e10 then binary_round prec32 emax32 mode_NE false (m * Z.to_pos (10 ^ e10)) 0
  else let '(mz, ez, lz) := SFdiv_core_binary prec32 emax32 (Zpos m) 0 (10 ^ (- e10)) 0 in
       binary_round_aux prec32 emax32 mode_NE false mz ez lz.

Definition nearest_single (d : decimal) : spec_float :=
  match d_mant d with
  | Zpos m => let x := nearest_single_pos m (d_exp d) in if d_neg d then sf_neg x else x
  | _ => S754_zero (d_neg d)
  end.

(* the binary32 a spelling denotes (str::parse::<f32>) *)
Definition sgl (l : list N) : spec_float :=
  match read_decimal l with
  | Some d => nearest_single d
  | None => S754_nan
  end.

(* ------------------------------------------------------------------------------------ *)
(* <iN/uN as FromStr>::from_str (std): optional sign ('+' always, '-' for signed types
   only), at least one ASCII digit, nothing else, range check.                          *)

Fixpoint digits_val (l : list N) (acc : Z) : option Z :=
  match l with
  | [] => Some acc
  | c :: r => if is_dig c then digits_val r (acc * 10 + dig_val c) else None
  end.
Definition parse_unsigned (l : list N) : option Z :=
  match l with [] => None | _ => digits_val l 0 end.

Definition is_signed (k : ikind) : bool :=
  match k with I8 | I16 | I32 | I64 => true | _ => false end.

Definition parse_int (k : ikind) (s : list N) : option Z :=
  let r :=
    match s with
    | 0x2B%N :: r => parse_unsigned r
    | 0x2D%N :: r => if is_signed k then option_map Z.opp (parse_unsigned r) else None
    | _ => parse_unsigned s
    end in
  match r with
  | Some z => if int_in_range k z then Some z else None
  | None => None
  end.

(* Number::as_u64 / as_i64 = str::parse *)
Definition as_u64 (n : list N) : option Z := parse_int U64 n.
Definition as_i64 (n : list N) : option Z := parse_int I64 n.

(* NumberBuf::new: the JSON number grammar: optional minus; 0 or a non-zero digit followed by
   digits; optionally a dot and one or more digits; optionally e/E, an optional sign, one or more digits *)
Fixpoint skip_digits (l : list N) : list N :=
  match l with c :: r => if is_dig c then skip_digits r else l | [] => [] end.
Definition digits1_then (l : list N) : option (list N) :=
  match l with c :: r => if is_dig c then Some (skip_digits r) else None | [] => None end.
Definition is_json_number (n : list N) : bool :=
  let l0 := match n with 0x2D%N :: r => r | _ => n end in
  match (match l0 with
         | 0x30%N :: r => Some r
         | c :: r => if is_dig c then Some (skip_digits r) else None
         | [] => None
         end) with
  | None => false
  | Some l1 =>
      match (match l1 with 0x2E%N :: r => digits1_then r | _ => Some l1 end) with
      | None => false
      | Some l2 =>
          match l2 with
          | [] => true
          | e :: r =>
              if (N.eqb e 0x65 || N.eqb e 0x45)%bool then
                let r' := match r with
                          | 0x2B%N :: x => x | 0x2D%N :: x => x | _ => r
                          end in
                match digits1_then r' with Some [] => true | _ => false end
              else false
          end
      end
  end.

(* ------------------------------------------------------------------------------------ *)
(* to_value                                                                              *)

Inductive serr := SNonStringKey | SMalformed | SCustom.

(* KeySerializer *)
Fixpoint ser_key (k : tsd) : outcome serr str :=
  match k with
  | SdStr s => Ok s
  | SdChar c => Ok [c]
  | SdInt _ z => Ok (z_dec z)                    (* value.to_string() *)
  | SdUnitVariant _ v => Ok v
  | SdNewtypeStruct _ x => ser_key x
  | _ => Err SNonStringKey                     (* bool, floats, unit, option, compound *)
  end.

(* StringNumberSerializer: only a string holding a JSON number *)
Definition ser_strnum (x : tsd) : outcome serr (list N) :=
  match x with
  | SdStr s => if is_json_number s then Ok s else Err SMalformed
  | _ => Err SMalformed
  end.

Definition obj_insert (o : list entry) (k : key) (v : value) : list entry := fst (m_insert o k v).

(* generic combinators (the functions are section variables, i.e. outside the fix) *)
Section OutcomeLists.
  Context {E A B : Type} (f : A -> outcome E B).
  Fixpoint omap (l : list A) {struct l} : outcome E (list B) :=
    match l with
    | [] => Ok []
    | x :: r => obind (f x) (fun v => obind (omap r) (fun vs => Ok (v :: vs)))
    end.
End OutcomeLists.

Section SerEntries.
  Context {E A : Type} (fk : A -> outcome E str) (fv : A -> outcome E value).
  (* SerializeMap::serialize_key / serialize_value in the Object state, the object being
     non-empty or the key not the token *)
  Fixpoint ser_entries_g (l : list (A * A)) (o : list entry) {struct l} : outcome E (list entry) :=
    match l with
    | [] => Ok o
    | kx :: r =>
        obind (fk (fst kx)) (fun k =>
        obind (fv (snd kx)) (fun v => ser_entries_g r (obj_insert o k v)))
    end.

  Fixpoint ser_fields_g (l : list (str * A)) (o : list entry) {struct l} : outcome E (list entry) :=
    match l with
    | [] => Ok o
    | fx :: r => obind (fv (snd fx)) (fun v => ser_fields_g r (obj_insert o (fst fx) v))
    end.
End SerEntries.

Section Ser.
  Variable fmt_f64 : Z -> list N.
  Variable fmt_f32 : Z -> list N.

  Fixpoint tser (d : tsd) {struct d} : outcome serr value :=
    match d with
    | SdBool b => Ok (VBool b)
    | SdInt _ z => Ok (VNum (z_dec z))            (* NumberBuf::from(i64/u64): lexical::to_string *)
    | SdF32 b => if f32_finite b then Ok (VNum (fmt_f32 b)) else Ok VNull
    | SdF64 b => if f64_finite b then Ok (VNum (fmt_f64 b)) else Ok VNull
    | SdChar c => Ok (VStr [c])
    | SdStr s => Ok (VStr s)
    | SdUnit | SdUnitStruct _ | SdNone => Ok VNull
    | SdSome x => tser x
    | SdNewtypeStruct _ x => tser x
    | SdSeq l | SdTuple l | SdTupleStruct _ l => obind (omap (fun x => tser x) l) (fun vs => Ok (VArr vs))
    | SdMap l =>
        match l with
        | [] => Ok (VObj [])
        | kx :: r =>
            obind (ser_key (fst kx)) (fun k =>
            if str_eqb k num_token then
              (* SerializeMap::Number *)
              obind (ser_strnum (snd kx)) (fun n =>
              match r with [] => Ok (VNum n) | _ => Err SMalformed end)
            else
              obind (tser (snd kx)) (fun v =>
              obind (ser_entries_g ser_key (fun x => tser x) r (obj_insert [] k v)) (fun o => Ok (VObj o))))
        end
    | SdStruct _ l =>
        match l with
        | [] => Ok (VObj [])
        | fx :: r =>
            if str_eqb (fst fx) num_token then
              obind (ser_strnum (snd fx)) (fun n =>
              match r with [] => Ok (VNum n) | _ => Err SMalformed end)
            else
              obind (tser (snd fx)) (fun v =>
              obind (ser_fields_g (fun x => tser x) r (obj_insert [] (fst fx) v)) (fun o => Ok (VObj o)))
        end
    | SdUnitVariant _ v => Ok (VStr v)
    | SdNewtypeVariant _ v x => obind (tser x) (fun y => Ok (VObj [(v, y)]))
    | SdTupleVariant _ v l => obind (omap (fun x => tser x) l) (fun vs => Ok (VObj [(v, VArr vs)]))
    | SdStructVariant _ v l => obind (ser_fields_g (fun x => tser x) l []) (fun o => Ok (VObj [(v, VObj o)]))
    end.
End Ser.

(* ------------------------------------------------------------------------------------ *)
(* from_value.

   THE MODELLED CONTRACT (what `T::deserialize` asks of the deserializer, serde 1.0.2xx,
   serde_derive without attributes):
   * bool            deserialize_bool, accepts visit_bool.
   * iN / uN         deserialize_iN/uN; the visitor accepts visit_u64(u) iff u <= MAX and
                     visit_i64(i) iff MIN <= i <= MAX (0 <= i for unsigned); visit_f64 is
                     rejected.
   * f64 (f32)       deserialize_f64 (f32); accepts visit_f64(x) -> x (x as f32),
                     visit_f32(x) -> x (f32), visit_u64(u) -> u as f64 (as f32),
                     visit_i64(i) -> i as f64 (as f32).
   * char            deserialize_char; accepts a string of exactly one char.
   * String          deserialize_string; accepts visit_string.
   * ()              deserialize_unit; unit struct: deserialize_unit_struct; accept visit_unit.
   * Option<T>       deserialize_option; visit_none -> None, visit_some(d) -> T::deserialize(d).
   * Vec<T>          deserialize_seq; visit_seq reads next_element::<T> until None.
   * (T1..Tn), tuple struct (n <> 1): deserialize_tuple / deserialize_tuple_struct;
                     visit_seq reads exactly n elements, None before that is invalid_length.
   * newtype struct  deserialize_newtype_struct; visit_newtype_struct(d) -> T::deserialize(d).
   * BTreeMap<K,V> / HashMap<K,V>
                     deserialize_map; visit_map reads next_entry::<K,V> until None and
                     `insert`s each pair: every entry of the object is deserialized (a
                     failure anywhere is the failure of the whole), and of several entries
                     whose keys deserialize to EQUAL K the LAST value is kept ([last_wins];
                     equal K covers a repeated JSON key and, for integer keys, spellings
                     such as "1" / "+1" / "01").
     keys: String -> deserialize_string; iN/uN -> deserialize_iN/uN accepting visit_iN of
     its own type only; char -> deserialize_char; enum -> deserialize_enum.
   * struct          deserialize_struct; visit_seq positional as a tuple; visit_map: every
                     key is read as a field identifier (deserialize_identifier, visit_str),
                     unknown keys are skipped with IgnoredAny, a repeated field is an error,
                     a field absent at the end is None if its type is Option<_> and an
                     error otherwise (serde::__private::de::missing_field).
   * enum            deserialize_enum; the variant identifier is read with visit_str;
                     unit variant -> VariantAccess::unit_variant, newtype ->
                     newtype_variant::<T>, tuple (n <> 1) -> tuple_variant(n, v) with v
                     accepting visit_seq only, struct -> struct_variant(fields, v) with v
                     accepting visit_map (and visit_seq, unreachable from this crate).
   Every failure is DeserializeError::Custom: one error value.                            *)

Inductive nev := EvU (u : Z) | EvI (i : Z) | EvF (bits : Z).

Definition dres := outcome unit tsd.

(* visit_number (src/serde/de.rs): u64, else i64, else visit_f64 of the correctly rounded
   double of the spelling (str::parse::<f64>) *)
Definition num_event (n : list N) : nev :=
  match as_u64 n with
  | Some u => EvU u
  | None => match as_i64 n with Some i => EvI i | None => EvF (sf_bits (dbl n)) end
  end.

Section De.
  Variable E : env.

  Definition de_int (k : ikind) (e : nev) : dres :=
    match e with
    | EvU u => if u <=? imax k then Ok (SdInt k u) else Err tt
    | EvI i => if int_in_range k i then Ok (SdInt k i) else Err tt
    | EvF _ => Err tt
    end.
  Definition de_f64 (e : nev) : Z :=
    match e with EvU u => f64_of_Z u | EvI i => f64_of_Z i | EvF b => b end.
  (* Value::deserialize_f32: integer spellings as integers (`as f32` in the visitor),
     otherwise visit_f32 of the correctly rounded binary32 of the spelling *)
  Definition de_f32 (n : list N) : Z :=
    match as_u64 n with
    | Some u => f32_of_Z u
    | None => match as_i64 n with Some i => f32_of_Z i | None => sf32_bits (sgl n) end
    end.

  (* MapKeyDeserializer *)
  Definition de_key (kt : kty) (k : key) : dres :=
    match kt with
    | KStr => Ok (SdStr k)
    | KInt ik => match parse_int ik k with Some z => Ok (SdInt ik z) | None => Err tt end
    | KChar => match k with [c] => Ok (SdChar c) | _ => Err tt end
    | KEnum n =>
        match assoc n E with
        | Some (DefEnum vs) => match assoc k vs with Some VUnit => Ok (SdUnitVariant n k) | _ => Err tt end
        | _ => Err tt
        end
    end.

  Section Lists.
    Variable rec : ty -> value -> dres.

    (* visit_array + Vec's visitor *)
    Fixpoint de_seq (t : ty) (l : list value) : outcome unit (list tsd) :=
      match l with
      | [] => Ok []
      | v :: r => obind (rec t v) (fun x => obind (de_seq t r) (fun xs => Ok (x :: xs)))
      end.

    (* visit_array + a fixed-arity visitor: too short is invalid_length from the visitor,
       too long is "fewer elements in array" from visit_array *)
    Fixpoint de_tuple (ts : list ty) (l : list value) : outcome unit (list tsd) :=
      match ts, l with
      | [], [] => Ok []
      | t :: ts', v :: r => obind (rec t v) (fun x => obind (de_tuple ts' r) (fun xs => Ok (x :: xs)))
      | _, _ => Err tt
      end.

    (* visit_object + a map visitor *)
    Fixpoint de_entries (kt : kty) (t : ty) (es : list entry) : outcome unit (list (tsd * tsd)) :=
      match es with
      | [] => Ok []
      | e :: r =>
          obind (de_key kt (fst e)) (fun k =>
          obind (rec t (snd e)) (fun x =>
          obind (de_entries kt t r) (fun xs => Ok ((k, x) :: xs))))
      end.

    (* visit_object + a derived struct visitor, in closed form: per declared field, the
       entries carrying its name *)
    Fixpoint de_fields (fts : list (str * ty)) (es : list entry) : outcome unit (list (str * tsd)) :=
      match fts with
      | [] => Ok []
      | ft :: r =>
          obind (match m_get_entries es (fst ft) with
                 | [] => match snd ft with TyOption _ => Ok SdNone | _ => Err tt end
                 | [e] => rec (snd ft) (snd e)
                 | _ => Err tt
                 end) (fun x =>
          obind (de_fields r es) (fun xs => Ok ((fst ft, x) :: xs)))
      end.

    Definition de_fields_seq (fts : list (str * ty)) (l : list value) : outcome unit (list (str * tsd)) :=
      obind (de_tuple (map snd fts) l) (fun xs => Ok (combine (map fst fts) xs)).
  End Lists.

  (* equality of deserialized map keys (the four key kinds of MapKeyDeserializer's clients:
     String, iN/uN, char, unit-variant enum; Ord-equal = identical for all of them) *)
  Definition key_eqb (a b : tsd) : bool :=
    match a, b with
    | SdStr x, SdStr y => str_eqb x y
    | SdInt _ x, SdInt _ y => x =? y
    | SdChar x, SdChar y => N.eqb x y
    | SdUnitVariant _ x, SdUnitVariant _ y => str_eqb x y
    | _, _ => false
    end.

  (* BTreeMap / HashMap built by successive `insert`s: an entry is kept iff no later entry has
     an equal key (as a map: the last value of every key; the order of the kept entries is
     immaterial for a Rust map and is the order of last occurrences here) *)
  Fixpoint last_wins (l : list (tsd * tsd)) : list (tsd * tsd) :=
    match l with
    | [] => []
    | kx :: r =>
        if existsb (fun e : tsd * tsd => key_eqb (fst kx) (fst e)) r then last_wins r
        else kx :: last_wins r
    end.

  Fixpoint de (fuel : nat) (t : ty) (v : value) {struct fuel} : dres :=
    match fuel with
    | O => OutOfFuel
    | S f =>
        match t with
        | TyBool => match v with VBool b => Ok (SdBool b) | _ => Err tt end
        | TyInt k => match v with VNum n => de_int k (num_event n) | _ => Err tt end
        | TyF32 => match v with VNum n => Ok (SdF32 (de_f32 n)) | _ => Err tt end
        | TyF64 => match v with VNum n => Ok (SdF64 (de_f64 (num_event n))) | _ => Err tt end
        | TyChar => match v with VStr [c] => Ok (SdChar c) | _ => Err tt end
        | TyStr => match v with VStr s => Ok (SdStr s) | _ => Err tt end
        | TyUnit => match v with VNull => Ok SdUnit | _ => Err tt end
        | TyOption t' =>
            match v with
            | VNull => Ok SdNone
            | _ => obind (de f t' v) (fun x => Ok (SdSome x))
            end
        | TySeq t' =>
            match v with
            | VArr l => obind (de_seq (de f) t' l) (fun xs => Ok (SdSeq xs))
            | _ => Err tt
            end
        | TyTuple ts =>
            match v with
            | VArr l => obind (de_tuple (de f) ts l) (fun xs => Ok (SdTuple xs))
            | _ => Err tt
            end
        | TyMap kt t' =>
            match v with
            | VObj es => obind (de_entries (de f) kt t' es) (fun xs => Ok (SdMap (last_wins xs)))
            | _ => Err tt
            end
        | TyNamed n =>
            match assoc n E with
            | None => Err tt
            | Some DefUnit => match v with VNull => Ok (SdUnitStruct n) | _ => Err tt end
            | Some (DefNewtype t') => obind (de f t' v) (fun x => Ok (SdNewtypeStruct n x))
            | Some (DefTuple ts) =>
                match v with
                | VArr l => obind (de_tuple (de f) ts l) (fun xs => Ok (SdTupleStruct n xs))
                | _ => Err tt
                end
            | Some (DefStruct fts) =>
                match v with
                | VArr l => obind (de_fields_seq (de f) fts l) (fun xs => Ok (SdStruct n xs))
                | VObj es => obind (de_fields (de f) fts es) (fun xs => Ok (SdStruct n xs))
                | _ => Err tt
                end
            | Some (DefEnum vs) =>
                (* Value::deserialize_enum: a string, or an object with exactly one entry *)
                match (match v with
                       | VStr s => Some (s, None)
                       | VObj [e] => Some (fst e, Some (snd e))
                       | _ => None
                       end) with
                | None => Err tt
                | Some (vn, payload) =>
                    match assoc vn vs with
                    | None => Err tt                                   (* unknown variant *)
                    | Some VUnit =>
                        match payload with
                        | None | Some VNull => Ok (SdUnitVariant n vn)
                        | Some _ => Err tt
                        end
                    | Some (VNewtype t') =>
                        match payload with
                        | Some x => obind (de f t' x) (fun y => Ok (SdNewtypeVariant n vn y))
                        | None => Err tt
                        end
                    | Some (VTuple ts) =>
                        match payload with
                        | Some (VArr l) => obind (de_tuple (de f) ts l) (fun xs => Ok (SdTupleVariant n vn xs))
                        | _ => Err tt
                        end
                    | Some (VStruct fts) =>
                        match payload with
                        | Some (VObj es) => obind (de_fields (de f) fts es) (fun xs => Ok (SdStructVariant n vn xs))
                        | _ => Err tt
                        end
                    end
                end
            end
        end
    end.
End De.

(* ------------------------------------------------------------------------------------ *)
(* serde_json                                                                            *)

Inductive tsjnum := SJPos (z : Z) | SJNeg (z : Z) | SJFloat (bits : Z).

Inductive tsj : Type :=
| TjNull
| TjBool (b : bool)
| TjNum (n : tsjnum)
| TjStr (s : str)
| TjArr (l : list tsj)
| TjObj (l : list (str * tsj)).

(* order of String keys in a BTreeMap: UTF-8 byte order = code point order *)
Fixpoint str_ltb (a b : str) : bool :=
  match a, b with
  | [], [] => false
  | [], _ :: _ => true
  | _ :: _, [] => false
  | x :: a', y :: b' => if N.ltb x y then true else if N.eqb x y then str_ltb a' b' else false
  end.

(* BTreeMap::insert on the sorted association list: a present key is overwritten *)
Fixpoint sj_insert {A} (k : str) (v : A) (l : list (str * A)) : list (str * A) :=
  match l with
  | [] => [(k, v)]
  | e :: r =>
      if str_eqb (fst e) k then (k, v) :: r
      else if str_ltb k (fst e) then (k, v) :: l
      else e :: sj_insert k v r
  end.

(* BTreeMap built by successive inserts *)
Definition isort {A} (l : list (str * A)) : list (str * A) :=
  fold_left (fun acc e => sj_insert (fst e) (snd e) acc) l [].

Section SjEntries.
  Context {E A B : Type} (fk : A -> outcome E str) (fv : A -> outcome E B).
  Fixpoint sj_entries_g (l : list (A * A)) (o : list (str * B)) {struct l} : outcome E (list (str * B)) :=
    match l with
    | [] => Ok o
    | kx :: r =>
        obind (fk (fst kx)) (fun k =>
        obind (fv (snd kx)) (fun v => sj_entries_g r (sj_insert k v o)))
    end.

  Fixpoint sj_fields_g (l : list (str * A)) (o : list (str * B)) {struct l} : outcome E (list (str * B)) :=
    match l with
    | [] => Ok o
    | fx :: r => obind (fv (snd fx)) (fun v => sj_fields_g r (sj_insert (fst fx) v o))
    end.
End SjEntries.

Definition sj_int (z : Z) : tsjnum := if z <? 0 then SJNeg z else SJPos z.

(* serde_json's MapKeySerializer on the key kinds of the property's domain (it also
   renders bool and finite float keys; those are outside the domain and not modelled) *)
Fixpoint ser_sj_key (k : tsd) : outcome unit str :=
  match k with
  | SdStr s => Ok s
  | SdChar c => Ok [c]
  | SdInt _ z => Ok (z_dec z)
  | SdUnitVariant _ v => Ok v
  | SdNewtypeStruct _ x => ser_sj_key x
  | _ => Err tt
  end.

Fixpoint ser_sj (d : tsd) {struct d} : outcome unit tsj :=
  match d with
  | SdBool b => Ok (TjBool b)
  | SdInt _ z => Ok (TjNum (sj_int z))
  | SdF32 b => if f32_finite b then Ok (TjNum (SJFloat (f64_of_f32 b))) else Ok TjNull   (* Number::from_f32: f as f64 *)
  | SdF64 b => if f64_finite b then Ok (TjNum (SJFloat b)) else Ok TjNull
  | SdChar c => Ok (TjStr [c])
  | SdStr s => Ok (TjStr s)
  | SdUnit | SdUnitStruct _ | SdNone => Ok TjNull
  | SdSome x => ser_sj x
  | SdNewtypeStruct _ x => ser_sj x
  | SdSeq l | SdTuple l | SdTupleStruct _ l => obind (omap (fun x => ser_sj x) l) (fun vs => Ok (TjArr vs))
  | SdMap l => obind (sj_entries_g ser_sj_key (fun x => ser_sj x) l []) (fun o => Ok (TjObj o))
  | SdStruct _ l => obind (sj_fields_g (fun x => ser_sj x) l []) (fun o => Ok (TjObj o))
  | SdUnitVariant _ v => Ok (TjStr v)
  | SdNewtypeVariant _ v x => obind (ser_sj x) (fun y => Ok (TjObj [(v, y)]))
  | SdTupleVariant _ v l => obind (omap (fun x => ser_sj x) l) (fun vs => Ok (TjObj [(v, TjArr vs)]))
  | SdStructVariant _ v l => obind (sj_fields_g (fun x => ser_sj x) l []) (fun o => Ok (TjObj [(v, TjObj o)]))
  end.

Section FromSj.
  Variable fmt_sj : Z -> list N.

  (* NumberBuf::from(serde_json::Number): n.to_string() *)
  Definition sjnum_text (n : tsjnum) : list N :=
    match n with SJPos z | SJNeg z => z_dec z | SJFloat b => fmt_sj b end.

  Fixpoint from_tsj (j : tsj) : value :=
    match j with
    | TjNull => VNull
    | TjBool b => VBool b
    | TjNum n => VNum (sjnum_text n)
    | TjStr s => VStr s
    | TjArr l => VArr (map from_tsj l)
    | TjObj l => VObj (map (fun e : str * tsj => (fst e, from_tsj (snd e))) l)
    end.
End FromSj.

(* ------------------------------------------------------------------------------------ *)
(* JSON shape                                                                            *)

(* the value of a number: the exact integer if it denotes one, else the double (bits) *)
Inductive nkey := KZ (z : Z) | KF (bits : Z).

Definition sf_int_value (x : spec_float) : option Z :=
  match x with
  | S754_zero _ => Some 0
  | S754_finite s m e =>
      if 0 <=? e then Some ((if s then -1 else 1) * Zpos m * 2 ^ e)
      else if (Zpos m) mod 2 ^ (- e) =? 0 then Some ((if s then -1 else 1) * (Zpos m / 2 ^ (- e)))
      else None
  | _ => None
  end.
Definition key_of_f64 (b : Z) : nkey :=
  match sf_int_value (sf_of_bits b) with Some z => KZ z | None => KF b end.

Inductive shape : Type :=
| ShNull
| ShBool (b : bool)
| ShNumber (k : nkey)
| ShString (s : str)
| ShArray (l : list shape)
| ShObject (l : list (str * shape)).

Section Shape.
  (* p32: read every number at binary32 precision (for data with f32 leaves:
     json-syntax spells the f32, serde_json widens it to f64 first) *)
  Variable p32 : bool.

  Definition key32 (b32 : Z) : nkey := key_of_f64 (f64_of_f32 b32).
  Definition key_of_float (b : Z) : nkey :=
    if p32 then key32 (f32_of_f64 b) else key_of_f64 b.
  Definition key_of_int (z : Z) : nkey :=
    if p32 then key32 (f32_of_Z z) else KZ z.

  (* at binary32 precision the spelling itself is read as a binary32 (as deserialize_f32
     does), not the double it reads as: that would round twice *)
  Definition num_key (n : list N) : nkey :=
    if p32 then key32 (de_f32 n)
    else match num_event n with
         | EvU u => KZ u
         | EvI i => KZ i
         | EvF b => key_of_f64 b
         end.

  Definition sort_shape_entries (l : list (str * shape)) : list (str * shape) := isort l.

  Fixpoint shape_of (v : value) : shape :=
    match v with
    | VNull => ShNull
    | VBool b => ShBool b
    | VNum n => ShNumber (num_key n)
    | VStr s => ShString s
    | VArr l => ShArray (map shape_of l)
    | VObj l => ShObject (sort_shape_entries (map (fun e : key * value => (fst e, shape_of (snd e))) l))
    end.

  Definition sjnum_key (n : tsjnum) : nkey :=
    match n with SJPos z | SJNeg z => key_of_int z | SJFloat b => key_of_float b end.

  Fixpoint shape_of_sj (j : tsj) : shape :=
    match j with
    | TjNull => ShNull
    | TjBool b => ShBool b
    | TjNum n => ShNumber (sjnum_key n)
    | TjStr s => ShString s
    | TjArr l => ShArray (map shape_of_sj l)
    | TjObj l => ShObject (map (fun e : str * tsj => (fst e, shape_of_sj (snd e))) l)   (* a BTreeMap is in key order *)
    end.
End Shape.

Definition nkey_eqb (a b : nkey) : bool :=
  match a, b with KZ x, KZ y => x =? y | KF x, KF y => x =? y | _, _ => false end.

Fixpoint shape_eqb (a b : shape) {struct a} : bool :=
  let fix list_eq (x y : list shape) {struct x} : bool :=
    match x, y with
    | [], [] => true
    | p :: x', q :: y' => shape_eqb p q && list_eq x' y'
    | _, _ => false
    end in
  let fix ents_eq (x y : list (str * shape)) {struct x} : bool :=
    match x, y with
    | [], [] => true
    | (k, p) :: x', (k', q) :: y' => str_eqb k k' && shape_eqb p q && ents_eq x' y'
    | _, _ => false
    end in
  match a, b with
  | ShNull, ShNull => true
  | ShBool x, ShBool y => Bool.eqb x y
  | ShNumber x, ShNumber y => nkey_eqb x y
  | ShString x, ShString y => str_eqb x y
  | ShArray x, ShArray y => list_eq x y
  | ShObject x, ShObject y => ents_eq x y
  | _, _ => false
  end.

(* the datum with every map's entries in the order of their rendered keys (what a
   BTreeMap-backed serde_json object hands back); struct fields are untouched *)
Definition keyed (kx : tsd * tsd) : str * (tsd * tsd) :=
  (match key_str (fst kx) with Some s => s | None => [] end, kx).

Definition sort_map_entries (l : list (tsd * tsd)) : list (tsd * tsd) :=
  map snd (isort (map keyed l)).

Fixpoint sort_maps (d : tsd) : tsd :=
  match d with
  | SdSome x => SdSome (sort_maps x)
  | SdNewtypeStruct n x => SdNewtypeStruct n (sort_maps x)
  | SdNewtypeVariant n v x => SdNewtypeVariant n v (sort_maps x)
  | SdSeq l => SdSeq (map sort_maps l)
  | SdTuple l => SdTuple (map sort_maps l)
  | SdTupleStruct n l => SdTupleStruct n (map sort_maps l)
  | SdTupleVariant n v l => SdTupleVariant n v (map sort_maps l)
  | SdMap l => SdMap (sort_map_entries (map (fun kv => (fst kv, sort_maps (snd kv))) l))
  | SdStruct n l => SdStruct n (map (fun fx => (fst fx, sort_maps (snd fx))) l)
  | SdStructVariant n v l => SdStructVariant n v (map (fun fx => (fst fx, sort_maps (snd fx))) l)
  | other => other
  end.

(* ------------------------------------------------------------------------------------ *)
(* Executable reference instances of the dependencies                                     *)

(* shortest digits (n, k, s) of a positive finite m*2^e accepted by [chk s x] (meaning
   "s * 10^x reads back as the float"), closest to the value; as Spec/EcmaNumber.nks except
   that of two equally close candidates the larger is taken (observed of lexical:
   f32 385121.625 is spelt 385121.63) *)
Section Shortest.
  Variable chk : Z -> Z -> bool.

  Definition best_g (num den k : Z) (cs : list (Z * Z)) : option (Z * Z) :=
    fold_left (fun acc c =>
      let '(s, n') := c in
      if (10 ^ (k - 1) <=? s) && (s <? 10 ^ k) && chk s (n' - k) then
        match acc with
        | None => Some c
        | Some (s0, n0) =>
            let d0 := dist s0 (n0 - k) num den in
            let d1 := dist s (n' - k) num den in
            if dist_lt d1 d0 then Some c else if dist_eq d1 d0 && (s0 <? s) then Some c else acc
        end
      else acc) cs None.

  Fixpoint search_g (fuel : nat) (num den n k : Z) : option (Z * Z * Z) :=
    match fuel with
    | O => None
    | S f => match best_g num den k (cands num den n k) with
             | Some (s, n') => Some (n', k, s)
             | None => search_g f num den n (k + 1)
             end
    end.

  Definition nks_g (m : positive) (e : Z) : option (Z * Z * Z) :=
    let '(sn, sden) := scale2 e in
    let num := Zpos m * sn in
    let den := sden in
    let n := find_n 700 num den ((Z.log2 num - Z.log2 den) * 30103 / 100000 + 1) in
    search_g 17 num den n 1.
End Shortest.

(* lexical's layout (WriteFloatOptions default breaks -5 / 9, trim_floats, 'e'):
   positional when -5 <= n-1 <= 9, else d[.ddd]e[-]x.  [dot0]: keep ".0" (serde_json) *)
Definition layout_lex (dot0 : bool) (n k s : Z) : list N :=
  let ds := dec_digits s in
  let e := n - 1 in
  if (-5 <=? e) && (e <=? 9) then
    if k <=? n then ds ++ zeros (Z.to_nat (n - k)) ++ (if dot0 then [0x2E%N; 0x30%N] else [])
    else if 0 <? n then firstn (Z.to_nat n) ds ++ [0x2E%N] ++ skipn (Z.to_nat n) ds
    else [0x30%N; 0x2E%N] ++ zeros (Z.to_nat (- n)) ++ ds
  else
    let etxt := (if 0 <=? e then [] else [0x2D%N]) ++ dec_digits (Z.abs e) in
    match ds with
    | [d] => [d] ++ (if dot0 then [0x2E%N; 0x30%N] else []) ++ [0x65%N] ++ etxt
    | d :: r => [d; 0x2E%N] ++ r ++ [0x65%N] ++ etxt
    | [] => []
    end.

Definition fmt_sf (chk : spec_float -> Z -> Z -> bool) (dot0 : bool) (x : spec_float) : list N :=
  match x with
  | S754_zero s => (if s then [0x2D%N] else []) ++ [0x30%N] ++ (if dot0 then [0x2E%N; 0x30%N] else [])
  | S754_finite s m e =>
      match nks_g (chk (S754_finite false m e)) m e with
      | Some (n, k, d) => (if s then [0x2D%N] else []) ++ layout_lex dot0 n k d
      | None => []
      end
  | _ => []
  end.

Definition chk64 (x : spec_float) (s x10 : Z) : bool :=
  sf_eqb (nearest_double_pos (Z.to_pos s) x10) x.
Definition chk32 (x : spec_float) (s x10 : Z) : bool :=
  sf_eqb (nearest_single_pos (Z.to_pos s) x10) x.

(* 17 significant digits nearest to m*2^e (ties to even), trailing zeros dropped: always
   reads back as the same double, and is integer-spelled exactly when the shortest
   spelling is.  The implementation prints the shortest digits; the comparison is by value,
   so the (much cheaper) 17-digit spelling serves as the binary64 reference. *)
Fixpoint strip_zeros17 (fuel : nat) (s k : Z) : Z * Z :=
  match fuel with
  | O => (s, k)
  | S f => if (s mod 10 =? 0) && (1 <? k) then strip_zeros17 f (s / 10) (k - 1) else (s, k)
  end.

Definition nks17 (m : positive) (e : Z) : Z * Z * Z :=
  let '(sn, sden) := scale2 e in
  let num := Zpos m * sn in
  let den := sden in
  let n := find_n 700 num den ((Z.log2 num - Z.log2 den) * 30103 / 100000 + 1) in
  let '(pn, pd) := scale10 (17 - n) in
  let a := num * pn in
  let b := den * pd in
  let q := a / b in
  let r := a mod b in
  let s := if 2 * r <? b then q else if 2 * r =? b then (if Z.even q then q else q + 1) else q + 1 in
  let '(s1, n1) := if s =? 10 ^ 17 then (10 ^ 16, n + 1) else (s, n) in
  let '(s2, k2) := strip_zeros17 17 s1 17 in
  (n1, k2, s2).

Definition fmt17 (dot0 : bool) (x : spec_float) : list N :=
  match x with
  | S754_zero s => (if s then [0x2D%N] else []) ++ [0x30%N] ++ (if dot0 then [0x2E%N; 0x30%N] else [])
  | S754_finite s m e =>
      let '(n, k, d) := nks17 m e in (if s then [0x2D%N] else []) ++ layout_lex dot0 n k d
  | _ => []
  end.

Definition fmt_f64_ref (b : Z) : list N := fmt17 false (sf_of_bits b).
Definition fmt_f64_shortest (b : Z) : list N := fmt_sf chk64 false (sf_of_bits b).
Definition fmt_f32_ref (b : Z) : list N := fmt_sf chk32 false (sf32_of_bits b).
Definition fmt_sj_ref (b : Z) : list N := fmt17 true (sf_of_bits b).

(* the instances the driver runs *)
Definition to_value_ref (d : tsd) : outcome serr value := tser fmt_f64_ref fmt_f32_ref d.
Definition from_value_ref (E : env) (fuel : nat) (t : ty) (v : value) : dres := de E fuel t v.
Definition from_sj_ref (j : tsj) : value := from_tsj fmt_sj_ref j.
Definition shape_ref (p32 : bool) (v : value) : shape := shape_of p32 v.
Definition shape_sj_ref (p32 : bool) (j : tsj) : shape := shape_of_sj p32 j.
Definition num_key_ref (n : list N) : nkey := num_key false n.
