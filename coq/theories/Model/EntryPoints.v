(* Model/EntryPoints.v -- the parsing entry points of src/parse/mod.rs:60-149 and
   FromStr (src/lib.rs:525).  Every one of them builds a fresh Parser over a stream of
   Result<DecodedChar, E> and calls Value::parse_in with Context::None. *)
From JsonSyntax Require Import Base.Prelude Base.Value Base.Unicode Model.Parser.

(* DecodedChar::from_utf8 : the character with its UTF-8 length *)
Definition chars (cs : list N) : list sitem := map (fun c => SOk c (utf8_len c)) cs.

Definition map_err {A} (f : perr -> perr) (x : outcome perr A) : outcome perr A :=
  match x with Err e => Err (f e) | other => other end.

Definition io_into_utf8 (e : perr) : perr :=
  match e with EStream p => EInvalidUtf8 p | other => other end.

Definition parse_with (o : opts) (s : list sitem) := parse_items o s.
Definition parse (s : list sitem) := parse_with strict s.
Definition parse_utf8_with (o : opts) (cs : list N) := parse_with o (chars cs).
Definition parse_utf8 (cs : list N) := parse (chars cs).
Definition parse_infallible_utf8 (cs : list N) := parse (chars cs).
Definition parse_utf8_infallible_with (o : opts) (cs : list N) := parse_with o (chars cs).
Definition parse_str_with (o : opts) (cs : list N) := parse_utf8_with o cs.
Definition parse_str (cs : list N) := parse_utf8 cs.
Definition from_str (cs : list N) : outcome perr value :=
  match parse_str cs with
  | Ok (v, _) => Ok v | Err e => Err e | Panic s => Panic s | OutOfFuel => OutOfFuel
  end.

(* parse_slice(_with): the well-formed prefix is decoded lazily and followed by one
   stream error when the input is ill-formed; Stream becomes InvalidUtf8 *)
Definition slice_items (bs : list N) : list sitem :=
  let '(cs, ok) := utf8_decode bs in chars cs ++ (if ok then [] else [SErr]).
Definition parse_slice_with (o : opts) (bs : list N) :=
  map_err io_into_utf8 (parse_with o (slice_items bs)).
Definition parse_slice (bs : list N) := parse_slice_with strict bs.
