(* Model/Macro.v -- the `json!` macro of src/macros.rs as a first-match rewriting system
   over token trees.  No proofs.

   What is modelled.  A `macro_rules!` invocation is a list of token trees; the rules are
   tried IN SOURCE ORDER and the first one whose pattern matches is transcribed (rustc's
   matcher; a modelled contract, validated by compiling and running generated programs).
   The 41 rules of `json!` appear below in the order of src/macros.rs, one function each
   (rA1..rA12 = the `@array` muncher, rO1, rO2, rK1, rK2, rO3..rO18 = the `@object`
   muncher and `@key`, rM1..rM9 = the entry rules).  Every recursive invocation costs one
   unit of fuel.

   Token domain (the JSON-literal domain): identifiers (`null`, the three internal
   markers `array` `object` `key` that follow `@`, and variables), literals (unsuffixed
   integer -- unsuffixed or with one of the suffixes i8..i64, u8..u64 --, float, string,
   `true`/`false`), the punctuation `@ , : -`, the three kinds of
   delimited groups, and interpolated `expr` nonterminals (what `$x:expr`/`$x:literal`
   captures re-emit; they are opaque to token patterns but match `expr`, `literal`, `tt`).
   Fragment classes on that domain:
     literal = one literal token, or `-` followed by one, or an interpolated (negated) literal;
               a `-` followed by anything else is a hard error (rustc commits to the
               fragment as soon as the first token may begin it);
     expr    = literal | `-` literal | variable | interpolated expr | `(` expr `)`, ending at
               a token that cannot continue an expression; anything else that may begin an
               expression is out of the modelled domain and reported as an error;
     tt      = one tree.
   The accumulator `[ ... ]` of the munchers holds expressions; they are represented already
   parsed (`TNt`), `json!(ts)` as [EJson ts] and
   `$crate::object::Entry::new(json!(@key (k)), json!(v))` as [EEntry k v].

   External dependency: the spelling of a float.  A float literal passes through its float
   type: `Value::try_from(f64 / f32)` goes through json-number / lexical-core;
   [fmt_float t s] is the spelling produced for the value of type t (f64, f32) that the Rust
   literal spelt s denotes (None: the literal does not compile, e.g. it overflows the type --
   overflowing_literals is deny-by-default).  The spelling of the negated literal is that
   spelling behind a `-` (also for zero: -0.0 is spelt -0).  [fmt_float] is a section
   variable; the executable reference used by the correspondence run is Model/MacroFloat.v. *)
From JsonSyntax Require Import Base.Prelude Base.Value.

Inductive punct := PAt | PComma | PColon | PMinus.
Inductive ident := INull | IArray | IObject | IKey | IVar (x : list N).
Inductive delim := Paren | Bracket | Brace.
(* the integer types T for which `impl From<T> for Value` exists (src/lib.rs, from_integer!);
   a literal with any other suffix (usize, isize, i128, u128) does not compile here *)
Inductive ity := TI8 | TI16 | TI32 | TI64 | TU8 | TU16 | TU32 | TU64.
(* an integer literal: its value and its optional type suffix (`255u8`, `7`) *)
(* the float types: a float literal is an f64 unless it carries the suffix f32 *)
Inductive fty := FT32 | FT64.
(* a float literal: its decimal spelling as written (`1.50`, `1e5`, `0.0`, `123456792`) and its
   optional suffix (`f32`, `f64`; digits without fraction or exponent are a float literal only
   with a suffix) *)
Inductive lit :=
| LInt (n : N) (sfx : option ity)
| LFloat (s : list N) (sfx : option fty)
| LStr (s : list N)
| LBool (b : bool).

Inductive tt : Type :=
| TIdent (i : ident)
| TLit (l : lit)
| TPunct (p : punct)
| TGroup (d : delim) (ts : list tt)
| TNt (e : expr)
with expr : Type :=
| ELit (l : lit)
| ENeg (l : lit)
| EVar (x : list N)
| EParen (e : expr)
| EJson (ts : list tt)
| EEntry (k : list tt) (v : list tt).

(* ---------- fragment matchers ---------- *)
Inductive frag (A : Type) : Type := FNo | FErr | FOk (a : A).
Arguments FNo {A}.
Arguments FErr {A}.
Arguments FOk {A} a.

(* `$x:literal` at the head of [ts] *)
Definition lit_frag (ts : list tt) : frag (expr * list tt) :=
  match ts with
  | TLit l :: r => FOk (ELit l, r)
  | TPunct PMinus :: TLit l :: r => FOk (ENeg l, r)
  | TPunct PMinus :: _ => FErr
  | TNt (ELit l) :: r => FOk (ELit l, r)
  | TNt (ENeg l) :: r => FOk (ENeg l, r)
  | _ => FNo
  end.

(* one-tree primary expressions *)
Fixpoint prim (t : tt) : option expr :=
  match t with
  | TLit l => Some (ELit l)
  | TIdent (IVar x) => Some (EVar x)
  | TNt e => Some e
  | TGroup Paren ts =>
      match ts with
      | [t'] => match prim t' with Some e => Some (EParen e) | None => None end
      | [TPunct PMinus; TLit l] => Some (EParen (ENeg l))
      | _ => None
      end
  | _ => None
  end.

Definition begins_expr (t : tt) : bool :=
  match t with
  | TPunct PMinus => true
  | TPunct _ => false
  | _ => true
  end.

(* would rustc's expression parser go on after a primary (binary minus, call, index)? *)
Definition continues_expr (r : list tt) : bool :=
  match r with
  | TPunct PMinus :: _ => true
  | TGroup _ _ :: _ => true
  | _ => false
  end.

(* `$x:expr` at the head of [ts] *)
Definition expr_frag (ts : list tt) : frag (expr * list tt) :=
  match ts with
  | [] => FNo
  | t :: r =>
      if begins_expr t then
        match t with
        | TPunct PMinus =>
            match r with
            | TLit l :: r' => if continues_expr r' then FErr else FOk (ENeg l, r')
            | _ => FErr
            end
        | _ => match prim t with
               | Some e => if continues_expr r then FErr else FOk (e, r)
               | None => FErr
               end
        end
      else FNo
  end.

(* `$($elems:expr,)*` against the whole accumulator *)
Fixpoint elems_trail (acc : list tt) : option (list expr) :=
  match acc with
  | [] => Some []
  | TNt e :: TPunct PComma :: r =>
      match elems_trail r with Some es => Some (e :: es) | None => None end
  | _ => None
  end.

(* `$($elems:expr),*` against the whole accumulator *)
Fixpoint elems_sep (acc : list tt) : option (list expr) :=
  match acc with
  | [] => Some []
  | TNt e :: r0 =>
      match r0 with
      | [] => Some [e]
      | TPunct PComma :: r =>
          match r with
          | [] => None
          | _ => match elems_sep r with Some es => Some (e :: es) | None => None end
          end
      | _ => None
      end
  | _ => None
  end.

(* `$($elems,)*` *)
Definition emit_trail (es : list expr) : list tt :=
  flat_map (fun e => [TNt e; TPunct PComma]) es.

(* ---------- invocations and expansions ---------- *)
Definition arr_inv (acc rest : list tt) : list tt :=
  TPunct PAt :: TIdent IArray :: TGroup Bracket acc :: rest.
Definition obj_inv (acc key rest copy : list tt) : list tt :=
  [TPunct PAt; TIdent IObject; TGroup Bracket acc; TGroup Paren key; TGroup Paren rest; TGroup Paren copy].
Definition key_inv (k : list tt) : list tt := [TPunct PAt; TIdent IKey; TGroup Paren k].

Definition is_arr (inv : list tt) : option (list tt * list tt) :=
  match inv with
  | TPunct PAt :: TIdent IArray :: TGroup Bracket acc :: rest => Some (acc, rest)
  | _ => None
  end.
Definition is_obj (inv : list tt) : option (list tt * list tt * list tt * tt) :=
  match inv with
  | [TPunct PAt; TIdent IObject; TGroup Bracket acc; TGroup Paren key; TGroup Paren rest; copy] =>
      Some (acc, key, rest, copy)
  | _ => None
  end.

(* the right-hand sides *)
Inductive out :=
| OError                              (* json_unexpected!(..), json!(), json_expect_expr_comma!(..), or a fragment parse error *)
| OInvoke (inv : list tt)             (* json!(inv) *)
| OVec (es : list expr)               (* json_vec![es] *)
| OFromVec (es : list expr)           (* $crate::Object::from_vec(json_vec![es]) *)
| OKeyInto (e : expr)                 (* e.into() *)
| ONull
| OBool (b : bool)
| OTryFrom (e : expr)                 (* $crate::Value::try_from(e).unwrap() *)
| OFrom (e : expr)                    (* $crate::Value::from(e) *)
| OArray (inv : option (list tt))     (* Value::Array(json_vec![]) | Value::Array(json!(inv)) *)
| OObject (inv : option (list tt)).   (* Value::Object(Object::new()) | Value::Object(json!(inv)) *)

Inductive mres := NoMatch | Match (o : out).

Definition arr_push (es : list expr) (arg rest : list tt) : out :=
  OInvoke (arr_inv (emit_trail es ++ [TNt (EJson arg)]) rest).
Definition obj_push (es : list expr) (key arg rest : list tt) : out :=
  OInvoke (obj_inv (emit_trail es ++ [TNt (EEntry key arg)]) [] rest rest).

(* ---------- @array ---------- *)
(* (@array [$($elems:expr,)*]) => json_vec![$($elems,)*] *)
Definition rA1 (inv : list tt) : mres :=
  match is_arr inv with
  | Some (acc, []) => match elems_trail acc with Some es => Match (OVec es) | None => NoMatch end
  | _ => NoMatch
  end.
(* (@array [$($elems:expr),*]) => json_vec![$($elems),*] *)
Definition rA2 (inv : list tt) : mres :=
  match is_arr inv with
  | Some (acc, []) => match elems_sep acc with Some es => Match (OVec es) | None => NoMatch end
  | _ => NoMatch
  end.
(* shared head `(@array [$($elems:expr,)*] ...` of rA3..rA10 *)
Definition arr_trail (inv : list tt) (k : list expr -> list tt -> mres) : mres :=
  match is_arr inv with
  | Some (acc, rest) => match elems_trail acc with Some es => k es rest | None => NoMatch end
  | None => NoMatch
  end.
(* (@array [$($elems:expr,)*] null $($rest:tt)* ) => json!(@array [$($elems,)* json!(null)] $($rest)* ) *)
Definition rA3 (inv : list tt) : mres :=
  arr_trail inv (fun es rest =>
    match rest with TIdent INull :: r => Match (arr_push es [TIdent INull] r) | _ => NoMatch end).
(* ... true ... *)
Definition rA4 (inv : list tt) : mres :=
  arr_trail inv (fun es rest =>
    match rest with TLit (LBool true) :: r => Match (arr_push es [TLit (LBool true)] r) | _ => NoMatch end).
(* ... false ... *)
Definition rA5 (inv : list tt) : mres :=
  arr_trail inv (fun es rest =>
    match rest with TLit (LBool false) :: r => Match (arr_push es [TLit (LBool false)] r) | _ => NoMatch end).
(* (@array [$($elems:expr,)*] $lit:literal $($rest:tt)* ) => json!(@array [$($elems,)* json!($lit)] $($rest)* ) *)
Definition rA6 (inv : list tt) : mres :=
  arr_trail inv (fun es rest =>
    match lit_frag rest with
    | FOk (e, r) => Match (arr_push es [TNt e] r)
    | FErr => Match OError
    | FNo => NoMatch
    end).
(* (@array [$($elems:expr,)*] [$($array:tt)*] $($rest:tt)* ) => json!(@array [$($elems,)* json!([$($array)*])] $($rest)* ) *)
Definition rA7 (inv : list tt) : mres :=
  arr_trail inv (fun es rest =>
    match rest with TGroup Bracket a :: r => Match (arr_push es [TGroup Bracket a] r) | _ => NoMatch end).
(* (@array [$($elems:expr,)*] {$($map:tt)*} $($rest:tt)* ) => json!(@array [$($elems,)* json!({$($map)*})] $($rest)* ) *)
Definition rA8 (inv : list tt) : mres :=
  arr_trail inv (fun es rest =>
    match rest with TGroup Brace a :: r => Match (arr_push es [TGroup Brace a] r) | _ => NoMatch end).
(* (@array [$($elems:expr,)*] $next:expr, $($rest:tt)* ) => json!(@array [$($elems,)* json!($next),] $($rest)* ) *)
Definition rA9 (inv : list tt) : mres :=
  arr_trail inv (fun es rest =>
    match expr_frag rest with
    | FOk (e, TPunct PComma :: r) =>
        Match (OInvoke (arr_inv (emit_trail es ++ [TNt (EJson [TNt e]); TPunct PComma]) r))
    | FOk _ => NoMatch
    | FErr => Match OError
    | FNo => NoMatch
    end).
(* (@array [$($elems:expr,)*] $last:expr) => json!(@array [$($elems,)* json!($last)]) *)
Definition rA10 (inv : list tt) : mres :=
  arr_trail inv (fun es rest =>
    match expr_frag rest with
    | FOk (e, []) => Match (arr_push es [TNt e] [])
    | FOk _ => NoMatch
    | FErr => Match OError
    | FNo => NoMatch
    end).
(* (@array [$($elems:expr),*] , $($rest:tt)* ) => json!(@array [$($elems,)*] $($rest)* ) *)
Definition rA11 (inv : list tt) : mres :=
  match is_arr inv with
  | Some (acc, TPunct PComma :: r) =>
      match elems_sep acc with Some es => Match (OInvoke (arr_inv (emit_trail es) r)) | None => NoMatch end
  | _ => NoMatch
  end.
(* (@array [$($elems:expr),*] $unexpected:tt $($rest:tt)* ) => json_unexpected!($unexpected) *)
Definition rA12 (inv : list tt) : mres :=
  match is_arr inv with
  | Some (acc, _ :: _) => match elems_sep acc with Some _ => Match OError | None => NoMatch end
  | _ => NoMatch
  end.

(* ---------- @object, @key ---------- *)
(* (@object [$($elems:expr,)*] () () ()) => $crate::Object::from_vec(json_vec![$($elems,)*]) *)
Definition rO1 (inv : list tt) : mres :=
  match is_obj inv with
  | Some (acc, [], [], TGroup Paren []) =>
      match elems_trail acc with Some es => Match (OFromVec es) | None => NoMatch end
  | _ => NoMatch
  end.
(* (@object [$($elems:expr),*] () () ()) => $crate::Object::from_vec(json_vec![$($elems),*]) *)
Definition rO2 (inv : list tt) : mres :=
  match is_obj inv with
  | Some (acc, [], [], TGroup Paren []) =>
      match elems_sep acc with Some es => Match (OFromVec es) | None => NoMatch end
  | _ => NoMatch
  end.
(* (@key ($key:literal)) => $key.into() *)
Definition rK1 (inv : list tt) : mres :=
  match inv with
  | [TPunct PAt; TIdent IKey; TGroup Paren k] =>
      match lit_frag k with
      | FOk (e, []) => Match (OKeyInto e)
      | FOk _ => NoMatch
      | FErr => Match OError
      | FNo => NoMatch
      end
  | _ => NoMatch
  end.
(* (@key ($key:expr)) => $key.into() *)
Definition rK2 (inv : list tt) : mres :=
  match inv with
  | [TPunct PAt; TIdent IKey; TGroup Paren k] =>
      match expr_frag k with
      | FOk (e, []) => Match (OKeyInto e)
      | FOk _ => NoMatch
      | FErr => Match OError
      | FNo => NoMatch
      end
  | _ => NoMatch
  end.
(* shared head `(@object [$($elems:expr,)*] (key) (rest) copy` *)
Definition obj_trail (inv : list tt) (k : list expr -> list tt -> list tt -> tt -> mres) : mres :=
  match is_obj inv with
  | Some (acc, key, rest, copy) =>
      match elems_trail acc with Some es => k es key rest copy | None => NoMatch end
  | None => NoMatch
  end.
(* shared head of rO3..rO10: `($($key:tt)+) (: ...) $copy:tt` *)
Definition obj_value (inv : list tt) (k : list expr -> list tt -> list tt -> mres) : mres :=
  obj_trail inv (fun es key rest _ =>
    match key with
    | [] => NoMatch
    | _ :: _ => match rest with TPunct PColon :: r => k es key r | _ => NoMatch end
    end).
(* (@object [$($elems:expr,)*] ($($key:tt)+) (: null $($rest:tt)* ) $copy:tt) =>
     json!(@object [$($elems,)* $crate::object::Entry::new(json!(@key ($($key)+)), json!(null))] () ($($rest)* ) ($($rest)* )) *)
Definition rO3 (inv : list tt) : mres :=
  obj_value inv (fun es key r0 =>
    match r0 with TIdent INull :: r => Match (obj_push es key [TIdent INull] r) | _ => NoMatch end).
Definition rO4 (inv : list tt) : mres :=
  obj_value inv (fun es key r0 =>
    match r0 with TLit (LBool true) :: r => Match (obj_push es key [TLit (LBool true)] r) | _ => NoMatch end).
Definition rO5 (inv : list tt) : mres :=
  obj_value inv (fun es key r0 =>
    match r0 with TLit (LBool false) :: r => Match (obj_push es key [TLit (LBool false)] r) | _ => NoMatch end).
(* ... (: $lit:literal $($rest:tt)* ) ... json!($lit) ... *)
Definition rO6 (inv : list tt) : mres :=
  obj_value inv (fun es key r0 =>
    match lit_frag r0 with
    | FOk (e, r) => Match (obj_push es key [TNt e] r)
    | FErr => Match OError
    | FNo => NoMatch
    end).
(* ... (: [$($array:tt)*] $($rest:tt)* ) ... *)
Definition rO7 (inv : list tt) : mres :=
  obj_value inv (fun es key r0 =>
    match r0 with TGroup Bracket a :: r => Match (obj_push es key [TGroup Bracket a] r) | _ => NoMatch end).
(* ... (: {$($map:tt)*} $($rest:tt)* ) ... *)
Definition rO8 (inv : list tt) : mres :=
  obj_value inv (fun es key r0 =>
    match r0 with TGroup Brace a :: r => Match (obj_push es key [TGroup Brace a] r) | _ => NoMatch end).
(* ... (: $next:expr, $($rest:tt)* ) ... => json!(@object [$($elems,)* Entry::new(.., json!($next)),] () ($($rest)* ) ($($rest)* )) *)
Definition rO9 (inv : list tt) : mres :=
  obj_value inv (fun es key r0 =>
    match expr_frag r0 with
    | FOk (e, TPunct PComma :: r) =>
        Match (OInvoke (obj_inv (emit_trail es ++ [TNt (EEntry key [TNt e]); TPunct PComma]) [] r r))
    | FOk _ => NoMatch
    | FErr => Match OError
    | FNo => NoMatch
    end).
(* ... (: $last:expr) ... => json!(@object [$($elems,)* Entry::new(.., json!($last))] () () ()) *)
Definition rO10 (inv : list tt) : mres :=
  obj_value inv (fun es key r0 =>
    match expr_frag r0 with
    | FOk (e, []) => Match (obj_push es key [TNt e] [])
    | FOk _ => NoMatch
    | FErr => Match OError
    | FNo => NoMatch
    end).
(* (@object [$($elems:expr),*] () (, $($rest:tt)* ) $copy:tt) => json!(@object [$($elems,)*] () ($($rest)* ) ($($rest)* )) *)
Definition rO11 (inv : list tt) : mres :=
  match is_obj inv with
  | Some (acc, [], TPunct PComma :: r, _) =>
      match elems_sep acc with Some es => Match (OInvoke (obj_inv (emit_trail es) [] r r)) | None => NoMatch end
  | _ => NoMatch
  end.
(* (@object [$($elems:expr,)*] ($($key:tt)+) (:) $copy:tt) => json!() *)
Definition rO12 (inv : list tt) : mres :=
  obj_trail inv (fun _ key rest _ =>
    match key, rest with _ :: _, [TPunct PColon] => Match OError | _, _ => NoMatch end).
(* (@object [$($elems:expr,)*] ($($key:tt)+) () $copy:tt) => json!() *)
Definition rO13 (inv : list tt) : mres :=
  obj_trail inv (fun _ key rest _ =>
    match key, rest with _ :: _, [] => Match OError | _, _ => NoMatch end).
(* (@object [$($elems:expr,)*] () (: $($rest:tt)* ) ($colon:tt $($copy:tt)* )) => json_unexpected!($colon) *)
Definition rO14 (inv : list tt) : mres :=
  obj_trail inv (fun _ key rest copy =>
    match key, rest, copy with
    | [], TPunct PColon :: _, TGroup Paren (_ :: _) => Match OError
    | _, _, _ => NoMatch
    end).
(* (@object [$($elems:expr,)*] ($($key:tt)* ) (, $($rest:tt)* ) ($comma:tt $($copy:tt)* )) => json_unexpected!($comma) *)
Definition rO15 (inv : list tt) : mres :=
  obj_trail inv (fun _ _ rest copy =>
    match rest, copy with
    | TPunct PComma :: _, TGroup Paren (_ :: _) => Match OError
    | _, _ => NoMatch
    end).
(* (@object [$($elems:expr,)*] () (($key:expr) : $($rest:tt)* ) $copy:tt) =>
     json!(@object [$($elems,)*] ($key) (: $($rest)* ) (: $($rest)* )) *)
Definition rO16 (inv : list tt) : mres :=
  obj_trail inv (fun es key rest _ =>
    match key, rest with
    | [], TGroup Paren k :: r1 =>
        match expr_frag k with
        | FOk (e, []) =>
            match r1 with
            | TPunct PColon :: r =>
                Match (OInvoke (obj_inv (emit_trail es) [TNt e] (TPunct PColon :: r) (TPunct PColon :: r)))
            | _ => NoMatch
            end
        | FOk _ => NoMatch
        | FErr => Match OError
        | FNo => NoMatch
        end
    | _, _ => NoMatch
    end).
(* (@object [$($elems:expr,)*] ($($key:tt)* ) (: $($unexpected:tt)+) $copy:tt) => json_expect_expr_comma!($($unexpected)+) *)
Definition rO17 (inv : list tt) : mres :=
  obj_trail inv (fun _ _ rest _ =>
    match rest with TPunct PColon :: _ :: _ => Match OError | _ => NoMatch end).
(* (@object [$($elems:expr,)*] ($($key:tt)* ) ($tt:tt $($rest:tt)* ) $copy:tt) =>
     json!(@object [$($elems,)*] ($($key)* $tt) ($($rest)* ) ($($rest)* )) *)
Definition rO18 (inv : list tt) : mres :=
  obj_trail inv (fun es key rest _ =>
    match rest with
    | t :: r => Match (OInvoke (obj_inv (emit_trail es) (key ++ [t]) r r))
    | [] => NoMatch
    end).

(* ---------- the entry rules ---------- *)
Definition rM1 (inv : list tt) : mres :=
  match inv with [TIdent INull] => Match ONull | _ => NoMatch end.
Definition rM2 (inv : list tt) : mres :=
  match inv with [TLit (LBool true)] => Match (OBool true) | _ => NoMatch end.
Definition rM3 (inv : list tt) : mres :=
  match inv with [TLit (LBool false)] => Match (OBool false) | _ => NoMatch end.
(* ($lit:literal) => $crate::Value::try_from($lit).unwrap() *)
Definition rM4 (inv : list tt) : mres :=
  match lit_frag inv with
  | FOk (e, []) => Match (OTryFrom e)
  | FOk _ => NoMatch
  | FErr => Match OError
  | FNo => NoMatch
  end.
Definition rM5 (inv : list tt) : mres :=
  match inv with [TGroup Bracket []] => Match (OArray None) | _ => NoMatch end.
(* ([ $($tt:tt)+ ]) => $crate::Value::Array(json!(@array [] $($tt)+)) *)
Definition rM6 (inv : list tt) : mres :=
  match inv with
  | [TGroup Bracket (t :: ts)] => Match (OArray (Some (arr_inv [] (t :: ts))))
  | _ => NoMatch
  end.
Definition rM7 (inv : list tt) : mres :=
  match inv with [TGroup Brace []] => Match (OObject None) | _ => NoMatch end.
(* ({ $($tt:tt)+ }) => $crate::Value::Object(json!(@object [] () ($($tt)+) ($($tt)+))) *)
Definition rM8 (inv : list tt) : mres :=
  match inv with
  | [TGroup Brace (t :: ts)] => Match (OObject (Some (obj_inv [] [] (t :: ts) (t :: ts))))
  | _ => NoMatch
  end.
(* ($other:expr) => $crate::Value::from($other) *)
Definition rM9 (inv : list tt) : mres :=
  match expr_frag inv with
  | FOk (e, []) => Match (OFrom e)
  | FOk _ => NoMatch
  | FErr => Match OError
  | FNo => NoMatch
  end.

(* the rules, in the order of src/macros.rs *)
Definition rules : list (list tt -> mres) :=
  [rA1; rA2; rA3; rA4; rA5; rA6; rA7; rA8; rA9; rA10; rA11; rA12;
   rO1; rO2; rK1; rK2;
   rO3; rO4; rO5; rO6; rO7; rO8; rO9; rO10; rO11; rO12; rO13; rO14; rO15; rO16; rO17; rO18;
   rM1; rM2; rM3; rM4; rM5; rM6; rM7; rM8; rM9].

(* first matching rule wins; None: "no rules expected this token" *)
Fixpoint first_match (rs : list (list tt -> mres)) (inv : list tt) : option out :=
  match rs with
  | [] => None
  | r :: rs' => match r inv with Match o => Some o | NoMatch => first_match rs' inv end
  end.

(* ---------- leaf conversions ---------- *)
(* lexical::to_string(i32) *)
Fixpoint dec_fuel (fuel : nat) (n : N) (acc : list N) : list N :=
  match fuel with
  | O => acc
  | S f => if n <? 10 then (0x30 + n) :: acc
           else dec_fuel f (n / 10) ((0x30 + n mod 10) :: acc)
  end.
Definition dec_of_N (n : N) : list N := dec_fuel (S (N.to_nat (N.log2 n))) n [].
Definition dec_of_Z (z : Z) : list N :=
  if (z <? 0)%Z then 0x2D :: dec_of_N (Z.abs_N z) else dec_of_N (Z.abs_N z).

(* an unsuffixed integer literal in this position is an i32 (inference falls back to i32
   because eight integer types convert); a suffixed one has the type of its suffix.  A literal
   out of the range of its type does not compile (overflowing_literals is deny-by-default; the
   lint looks at the negated literal as a whole, so `-128i8` is accepted and `128i8` is not),
   and an unsigned literal cannot be negated at all (`-0u8` is a type error). *)
Definition ity_of (sfx : option ity) : ity := match sfx with Some t => t | None => TI32 end.
Definition ity_signed (t : ity) : bool :=
  match t with TI8 | TI16 | TI32 | TI64 => true | _ => false end.
Definition ity_min (t : ity) : Z :=
  match t with
  | TI8 => -128 | TI16 => -32768 | TI32 => -2147483648 | TI64 => -9223372036854775808
  | _ => 0
  end%Z.
Definition ity_max (t : ity) : Z :=
  match t with
  | TI8 => 127 | TI16 => 32767 | TI32 => 2147483647 | TI64 => 9223372036854775807
  | TU8 => 255 | TU16 => 65535 | TU32 => 4294967295 | TU64 => 18446744073709551615
  end%Z.
Definition in_ity (t : ity) (z : Z) : bool := ((ity_min t <=? z) && (z <=? ity_max t))%Z.

Fixpoint map_opt {A B} (f : A -> option B) (l : list A) : option (list B) :=
  match l with
  | [] => Some []
  | x :: r => match f x, map_opt f r with Some y, Some ys => Some (y :: ys) | _, _ => None end
  end.

Inductive rv := RVal (v : value) | RVec (l : list value) | RObj (l : list (key * value)) | RKey (k : key).

Section Run.
  Variable fmt_float : fty -> list N -> option (list N).
  Variable env : list N -> option (list N).       (* variables of type &str in scope *)

  (* Value::try_from / Value::from of a (negated) literal *)
  Definition conv_lit (neg : bool) (l : lit) : option value :=
    match l with
    | LInt n sfx =>
        let t := ity_of sfx in
        let z := if neg then (- Z.of_N n)%Z else Z.of_N n in
        if neg && negb (ity_signed t) then None
        else if in_ity t z then Some (VNum (dec_of_Z z)) else None
    | LFloat s sfx =>
        match fmt_float (match sfx with Some t => t | None => FT64 end) s with
        | Some r => Some (VNum (if neg then 0x2D :: r else r))
        | None => None
        end
    | LStr s => if neg then None else Some (VStr s)
    | LBool b => if neg then None else Some (VBool b)
    end.

  Definition try_from_expr (e : expr) : option value :=
    match e with
    | ELit l => conv_lit false l
    | ENeg l => conv_lit true l
    | _ => None
    end.

  (* Value::from(e): there is no From<f64> *)
  Fixpoint from_expr (e : expr) : option value :=
    match e with
    | ELit (LFloat _ _) => None
    | ENeg (LFloat _ _) => None
    | ELit l => conv_lit false l
    | ENeg l => conv_lit true l
    | EParen e' => from_expr e'
    | _ => None
    end.

  (* e.into() : Key *)
  Fixpoint key_of_expr (e : expr) : option key :=
    match e with
    | ELit (LStr s) => Some s
    | EVar x => env x
    | EParen e' => key_of_expr e'
    | _ => None
    end.

  Definition as_val (r : option rv) : option value :=
    match r with Some (RVal v) => Some v | _ => None end.

  (* an element of json_vec![..] in array position *)
  Definition ev_elem (rec : list tt -> option rv) (e : expr) : option value :=
    match e with EJson ts => as_val (rec ts) | _ => None end.
  (* an element of json_vec![..] in object position *)
  Definition ev_entry (rec : list tt -> option rv) (e : expr) : option (key * value) :=
    match e with
    | EEntry k v =>
        match rec (key_inv k), as_val (rec v) with
        | Some (RKey kk), Some vv => Some (kk, vv)
        | _, _ => None
        end
    | _ => None
    end.

  Fixpoint mrun (fuel : nat) (inv : list tt) : option rv :=
    match fuel with
    | O => None
    | S f =>
        match first_match rules inv with
        | None => None
        | Some OError => None
        | Some (OInvoke inv') => mrun f inv'
        | Some (OVec es) =>
            match map_opt (ev_elem (mrun f)) es with Some l => Some (RVec l) | None => None end
        | Some (OFromVec es) =>
            match map_opt (ev_entry (mrun f)) es with Some l => Some (RObj l) | None => None end
        | Some (OKeyInto e) => match key_of_expr e with Some k => Some (RKey k) | None => None end
        | Some ONull => Some (RVal VNull)
        | Some (OBool b) => Some (RVal (VBool b))
        | Some (OTryFrom e) => match try_from_expr e with Some v => Some (RVal v) | None => None end
        | Some (OFrom e) => match from_expr e with Some v => Some (RVal v) | None => None end
        | Some (OArray None) => Some (RVal (VArr []))
        | Some (OArray (Some inv')) =>
            match mrun f inv' with Some (RVec l) => Some (RVal (VArr l)) | _ => None end
        | Some (OObject None) => Some (RVal (VObj []))
        | Some (OObject (Some inv')) =>
            match mrun f inv' with Some (RObj l) => Some (RVal (VObj l)) | _ => None end
        end
    end.

  (* json!(ts) *)
  Definition expand (fuel : nat) (ts : list tt) : option value := as_val (mrun fuel ts).
End Run.
