(* Model/Compare.v -- derived PartialEq/Eq/PartialOrd/Ord/Hash on Value and Entry
   (src/lib.rs:153, src/object/mod.rs:22), and Object's impls which look at the
   entries vector only (src/object/mod.rs:801-858).  No proofs here.
   Strings (SmallString) and numbers (SmallVec<u8>) compare and hash as byte slices:
   strings through their UTF-8 encoding. *)
From JsonSyntax Require Import Base.Prelude Base.Value Base.Unicode.

Fixpoint lex_cmp {A} (cmp : A -> A -> comparison) (a b : list A) : comparison :=
  match a, b with
  | [], [] => Eq
  | [], _ :: _ => Lt
  | _ :: _, [] => Gt
  | x :: a', y :: b' =>
      match cmp x y with
      | Eq => lex_cmp cmp a' b'
      | c => c
      end
  end.

Definition bytes_cmp := lex_cmp N.compare.
(* <str as Ord>::cmp compares UTF-8 bytes *)
Definition str_cmp (a b : list N) : comparison :=
  bytes_cmp (utf8_encode_all a) (utf8_encode_all b).
(* numbers are ASCII: one byte per character *)
Definition num_cmp (a b : list N) : comparison := bytes_cmp a b.

Definition bool_cmp (a b : bool) : comparison :=
  match a, b with
  | false, true => Lt
  | true, false => Gt
  | _, _ => Eq
  end.

(* discriminant order of the enum *)
Definition variant_index (v : value) : N :=
  match v with
  | VNull => 0 | VBool _ => 1 | VNum _ => 2 | VStr _ => 3 | VArr _ => 4 | VObj _ => 5
  end.

Fixpoint value_cmp (a b : value) : comparison :=
  match a, b with
  | VNull, VNull => Eq
  | VBool x, VBool y => bool_cmp x y
  | VNum x, VNum y => num_cmp x y
  | VStr x, VStr y => str_cmp x y
  | VArr x, VArr y =>
      (fix go (x y : list value) : comparison :=
         match x, y with
         | [], [] => Eq
         | [], _ :: _ => Lt
         | _ :: _, [] => Gt
         | p :: x', q :: y' =>
             match value_cmp p q with Eq => go x' y' | c => c end
         end) x y
  | VObj x, VObj y =>
      (fix go (x y : list (list N * value)) : comparison :=
         match x, y with
         | [], [] => Eq
         | [], _ :: _ => Lt
         | _ :: _, [] => Gt
         | (k, p) :: x', (k', q) :: y' =>
             match str_cmp k k' with
             | Eq => match value_cmp p q with Eq => go x' y' | c => c end
             | c => c
             end
         end) x y
  | _, _ => N.compare (variant_index a) (variant_index b)
  end.

(* derived Ord on Entry: key, then value *)
Definition entry_cmp (a b : entry) : comparison :=
  match str_cmp (fst a) (fst b) with
  | Eq => value_cmp (snd a) (snd b)
  | c => c
  end.

Definition entries_cmp (a b : list entry) : comparison := lex_cmp entry_cmp a b.

(* == is derived structurally; Base.Value.value_eqb is that function *)
Definition value_eq := value_eqb.
Definition partial_cmp (a b : value) : option comparison := Some (value_cmp a b).

(* The sequence of writes the derived Hash makes into a Hasher. *)
Inductive hwrite :=
| HDiscr (d : N)          (* mem::discriminant, written as isize *)
| HLen (n : N)            (* write_length_prefix *)
| HBytes (b : list N)     (* Hasher::write *)
| HU8 (b : N).            (* write_u8 *)

Fixpoint hash_stream (v : value) : list hwrite :=
  match v with
  | VNull => [HDiscr 0]
  | VBool b => [HDiscr 1; HU8 (if b then 1 else 0)]
  | VNum s => [HDiscr 2; HLen (N.of_nat (length s)); HBytes s]
  | VStr s => [HDiscr 3; HBytes (utf8_encode_all s); HU8 0xFF]
  | VArr l => HDiscr 4 :: HLen (N.of_nat (length l)) :: flat_map hash_stream l
  | VObj l =>
      HDiscr 5 :: HLen (N.of_nat (length l))
        :: flat_map (fun e => HBytes (utf8_encode_all (fst e)) :: HU8 0xFF :: hash_stream (snd e)) l
  end.
