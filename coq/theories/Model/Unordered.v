(* Model/Unordered.v -- UnorderedPartialEq for Value, Vec<T> and Object
   (src/lib.rs:449-461, src/unordered.rs:31-35, src/object/mod.rs:809-838).
   Object: equal lengths, then every entry of `self` is matched with a not yet matched
   entry of `other` carrying the same key and an unordered-equal value; candidates are
   visited in the order `other.get_entries_with_index(key)` yields them, i.e. ascending
   positions (C06: a lookup on any reachable object is a linear scan).  No proofs here. *)
From JsonSyntax Require Import Base.Prelude Base.Value.

Fixpoint unordered_eq (a b : value) : bool :=
  match a, b with
  | VNull, VNull => true
  | VBool x, VBool y => Bool.eqb x y
  | VNum x, VNum y => str_eqb x y
  | VStr x, VStr y => str_eqb x y
  | VArr x, VArr y =>
      Nat.eqb (length x) (length y) &&
      (fix all (x y : list value) : bool :=
         match x, y with
         | p :: x', q :: y' => unordered_eq p q && all x' y'
         | _, _ => true                                   (* zip stops at the shorter *)
         end) x y
  | VObj x, VObj y =>
      Nat.eqb (length x) (length y) &&
      (fix all (x : list (list N * value)) (matched : list bool) : bool :=
         match x with
         | [] => true
         | (k, p) :: r =>
             match
               (fix any (y : list (list N * value)) (m : list bool) : option (list bool) :=
                  match y, m with
                  | (k', q) :: y', used :: m' =>
                      if str_eqb k' k && negb used && unordered_eq p q then Some (true :: m')
                      else option_map (cons used) (any y' m')
                  | _, _ => None
                  end) y matched
             with
             | Some matched' => all r matched'
             | None => false
             end
         end) x (repeat false (length y))
  | _, _ => false
  end.

(* Unordered<T>: PartialEq::eq delegates to unordered_eq *)
Definition unordered_wrapper_eq := unordered_eq.
