(* Model/MacroSyntax.v -- a deep embedding of `macro_rules!` definitions, as far as the
   `json!` macro of src/macros.rs needs it.  No proofs.

   A rule is a pair (pattern, template).  lib/macro_translate.py parses the definition
   `macro_rules! json { ... }` of the source and prints it in this embedding
   (Generated/MacroRules.v, `src_rules`); Proofs/MacroRulesTie.v holds the hand-written
   reference `model_rules` -- what the functions rA1 .. rM9 of Model/Macro.v implement --,
   the theorem `rules_tie : src_rules = model_rules`, and an interpreter of the embedding.

   Source tokens are kept by their spelling: an identifier or keyword (`null`, `true`,
   `array`), a punctuation token as rustc lexes it (`@`, `,`, `:`, `::`, `.`, `=>`), a literal.
   Metavariables are numbered in the order of their first occurrence in the pattern, so that
   renaming one in the source regenerates the same term.

   Patterns:   a token, `$x:frag`, a delimited group, a repetition `$( ... ) sep? rep`.
   Templates:  a token, `$x`, a delimited group, a repetition, and the two kinds of nested
   Rust expressions that the templates of this macro are made of:
     [XMac m d ts]    a macro invocation `m!( ts )` (`json!(..)`, `$crate::json!(..)`, the
                      helpers `json_vec![..]`, `json_unexpected!(..)`,
                      `json_expect_expr_comma!(..)`); d is the delimiter written;
     [XBuild b args]  a constructor expression; the builder b names the path and args are the
                      comma-separated arguments (each a template token list):
       BNull            $crate::Value::Null
       BBoolean         $crate::Value::Boolean(a)
       BTryFromUnwrap   $crate::Value::try_from(a).unwrap()
       BFrom            $crate::Value::from(a)
       BArray           $crate::Value::Array(a)
       BObject          $crate::Value::Object(a)
       BObjectNew       $crate::Object::new()
       BFromVec         $crate::Object::from_vec(a)
       BEntryNew        $crate::object::Entry::new(a, b)
       BInto            a.into()                       (a: a metavariable)
       BUnknown p       any other `$crate::p` with its arguments, if any (nothing in the
                        pinned source; a changed source lands here instead of failing) *)
From Coq Require Import List String.
From JsonSyntax Require Import Model.Macro.

Inductive stok :=
| SIdent (s : string)
| SPunct (s : string)
| SLit (s : string).

Inductive fragk := FTt | FExpr | FLiteral | FIdent | FOther (s : string).
Inductive repk := RStar | RPlus | ROpt.

Inductive pat :=
| PTok (k : stok)
| PVar (x : nat) (f : fragk)
| PGroup (d : delim) (ps : list pat)
| PRep (ps : list pat) (sep : option stok) (r : repk).

Inductive mac := MJson | MJsonVec | MUnexpected | MExpectExprComma | MOther (name : string).

Inductive builder :=
| BNull | BBoolean | BTryFromUnwrap | BFrom | BArray | BObject | BObjectNew | BFromVec
| BEntryNew | BInto | BUnknown (path : string).

Inductive tmpl :=
| XTok (k : stok)
| XVar (x : nat)
| XGroup (d : delim) (ts : list tmpl)
| XRep (ts : list tmpl) (sep : option stok) (r : repk)
| XMac (m : mac) (d : delim) (ts : list tmpl)
| XBuild (b : builder) (args : list (list tmpl)).

(* `( pattern ) => { template }`; the outer delimiters carry no meaning and are dropped *)
Inductive rule := Rule (p : list pat) (t : list tmpl).

Definition rule_pat (r : rule) : list pat := match r with Rule p _ => p end.
Definition rule_tmpl (r : rule) : list tmpl := match r with Rule _ t => t end.
