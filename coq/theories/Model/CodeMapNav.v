(* Model/CodeMapNav.v -- navigation with code-map offsets:
   src/array.rs (IterMapped), src/object/mod.rs (IterMapped, mapped_entries_iter!,
   get_fragment), src/lib.rs (get_fragment, Traverse, count, volume),
   src/try_from.rs (TryFromJson for (), bool, String, Option, Vec, BTreeMap).
   [None] = Rust panic (`code_map.get(i).unwrap()` on an index past the end).
   No proofs here. *)
From JsonSyntax Require Import Base.Prelude Base.Value Model.Parser Model.Object.

Definition volume_at (cm : list cme) (i : nat) : option nat :=
  match nth_error cm i with
  | Some (_, _, v) => Some (N.to_nat v)
  | None => None
  end.

(* ---- fragments and traversal (lib.rs:575-698) ---- *)
Inductive fragment :=
| FValue (v : value)
| FEntry (k : key) (v : value)
| FKey (k : key).

Definition sub_fragments (f : fragment) : list fragment :=
  match f with
  | FValue (VArr a) => map FValue a
  | FValue (VObj o) => map (fun e => FEntry (fst e) (snd e)) o
  | FEntry k v => [FKey k; FValue v]
  | _ => []
  end.

(* number of fragments of a value: the fuel of the traversal loop *)
Fixpoint fragment_count (v : value) : nat :=
  match v with
  | VArr l => S (fold_right (fun x a => fragment_count x + a)%nat O l)
  | VObj l => S (fold_right (fun e a => 2 + fragment_count (snd e) + a)%nat O l)
  | _ => 1%nat
  end.

(* Traverse::next : pop, push the sub-fragments reversed (so the first one is on top) *)
Fixpoint traverse_loop (fuel : nat) (stack : list fragment) : list fragment * list fragment :=
  match fuel with
  | O => ([], stack)
  | S f =>
      match stack with
      | [] => ([], [])
      | x :: r =>
          let '(l, rest) := traverse_loop f (sub_fragments x ++ r) in (x :: l, rest)
      end
  end.

(* the yielded fragments (the offset yielded with the i-th one is i) *)
Definition traverse (v : value) : list fragment := fst (traverse_loop (fragment_count v) [FValue v]).
Definition traverse_leftover (v : value) : list fragment := snd (traverse_loop (fragment_count v) [FValue v]).

Definition is_value_fragment (f : fragment) : bool := match f with FValue _ => true | _ => false end.
Definition count_where (p : fragment -> bool) (v : value) : nat := length (filter p (traverse v)).
Definition value_volume (v : value) : nat := count_where is_value_fragment v.

(* ---- get_fragment (lib.rs:162-196, object/mod.rs:73-81,134-143) ---- *)
Fixpoint get_fragment (v : value) (index : nat) : fragment + nat :=
  match index with
  | O => inl (FValue v)
  | S i =>
      match v with
      | VArr a =>
          (fix go (a : list value) (index : nat) : fragment + nat :=
             match a with
             | [] => inr index
             | x :: r => match get_fragment x index with
                         | inl f => inl f
                         | inr j => go r j
                         end
             end) a i
      | VObj o =>
          (fix go (o : list (list N * value)) (index : nat) : fragment + nat :=
             match o with
             | [] => inr index
             | (k, x) :: r =>
                 match index with
                 | O => inl (FEntry k x)
                 | S O => inl (FKey k)
                 | S (S j) => match get_fragment x j with
                              | inl f => inl f
                              | inr j' => go r j'
                              end
                 end
             end) o i
      | _ => inr i
      end
  end.

(* ---- mapped iterators ---- *)
(* JsonArray::iter_mapped: (offset of item, item) *)
Fixpoint array_iter_mapped_from (cm : list cme) (off : nat) (items : list value)
  : option (list (nat * value)) :=
  match items with
  | [] => Some []
  | x :: r =>
      match volume_at cm off with
      | None => None
      | Some vol =>
          match array_iter_mapped_from cm (off + vol) r with
          | None => None
          | Some l => Some ((off, x) :: l)
          end
      end
  end.
Definition array_iter_mapped (cm : list cme) (offset : nat) (items : list value) :=
  array_iter_mapped_from cm (offset + 1) items.

(* Object::iter_mapped: (entry offset, key offset, value offset, entry) *)
Record mapped_entry := { me_offset : nat; me_key_offset : nat; me_value_offset : nat; me_entry : entry }.

Fixpoint object_iter_mapped_from (cm : list cme) (off : nat) (es : list entry)
  : option (list mapped_entry) :=
  match es with
  | [] => Some []
  | e :: r =>
      match volume_at cm (off + 2) with
      | None => None
      | Some vol =>
          match object_iter_mapped_from cm (off + 2 + vol) r with
          | None => None
          | Some l =>
              Some ({| me_offset := off; me_key_offset := off + 1; me_value_offset := off + 2; me_entry := e |} :: l)
          end
      end
  end.
Definition object_iter_mapped (cm : list cme) (offset : nat) (es : list entry) :=
  object_iter_mapped_from cm (offset + 1) es.

(* mapped_entries_iter!: `while last_index < index { last_index += 1; offset += 2 + volume }` *)
Fixpoint advance (cm : list cme) (steps : nat) (off : nat) : option nat :=
  match steps with
  | O => Some off
  | S n =>
      match volume_at cm (off + 2) with
      | None => None
      | Some vol => advance cm n (off + 2 + vol)
      end
  end.

Fixpoint mapped_lookup_loop (cm : list cme) (es : list entry) (is : list nat)
         (off last_index : nat) : option (list (nat * mapped_entry)) :=
  match is with
  | [] => Some []
  | index :: r =>
      match advance cm (index - last_index) off with
      | None => None
      | Some off' =>
          let last' := Nat.max last_index index in
          match nth_error es index, mapped_lookup_loop cm es r off' last' with
          | Some e, Some l =>
              Some ((index, {| me_offset := off'; me_key_offset := off' + 1;
                               me_value_offset := off' + 2; me_entry := e |}) :: l)
          | _, _ => None
          end
      end
  end.

(* get_mapped_entries_with_index (the other seven lookups are projections of it) *)
Definition get_mapped_entries_with_index (cm : list cme) (offset : nat) (o : obj) (k : key)
  : option (list (nat * mapped_entry)) :=
  match indexes_of o k with
  | None => None
  | Some is => mapped_lookup_loop cm (entries o) is (offset + 1) O
  end.

(* ---- TryFromJson (try_from.rs) ---- *)
Inductive jty := TUnit | TBool | TString | TNumber | TOption (t : jty) | TVec (t : jty) | TMap (t : jty).
(* TNumber = f64 (number_from_json!): every JSON number converts, anything else is a kind mismatch *)

(* the error: Mapped<Unexpected> = (offset, expected kind, found kind) *)
Definition conv_err := (nat * kind * kind)%type.

Fixpoint try_from_json_at (t : jty) (cm : list cme) (v : value) (offset : nat)
  : option (option conv_err) :=            (* None = panic; Some None = Ok; Some (Some e) = Err e *)
  match t with
  | TUnit => Some (match v with VNull => None | _ => Some (offset, KNull, kind_of v) end)
  | TBool => Some (match v with VBool _ => None | _ => Some (offset, KBoolean, kind_of v) end)
  | TString => Some (match v with VStr _ => None | _ => Some (offset, KString, kind_of v) end)
  | TNumber => Some (match v with VNum _ => None | _ => Some (offset, KNumber, kind_of v) end)
  | TOption t' => match v with VNull => Some None | _ => try_from_json_at t' cm v offset end
  | TVec t' =>
      match v with
      | VArr items =>
          match array_iter_mapped cm offset items with
          | None => None
          | Some l =>
              (fix go (l : list (nat * value)) : option (option conv_err) :=
                 match l with
                 | [] => Some None
                 | (off, x) :: r =>
                     match try_from_json_at t' cm x off with
                     | Some None => go r
                     | other => other
                     end
                 end) l
          end
      | _ => Some (Some (offset, KArray, kind_of v))
      end
  | TMap t' =>
      match v with
      | VObj es =>
          match object_iter_mapped cm offset es with
          | None => None
          | Some l =>
              (fix go (l : list mapped_entry) : option (option conv_err) :=
                 match l with
                 | [] => Some None
                 | m :: r =>
                     match try_from_json_at t' cm (snd (me_entry m)) (me_value_offset m) with
                     | Some None => go r
                     | other => other
                     end
                 end) l
          end
      | _ => Some (Some (offset, KObject, kind_of v))
      end
  end.
