(* Model/Parser.v -- transcription of src/parse/*.rs.
   One Gallina function per Rust function; the explicit stack of value.rs is kept.
   No proofs here.  Panic sites:
     1 = code_map.get_mut(i).unwrap() in end_fragment (mod.rs:198)
     2 = entry_count - i underflow in end_fragment (mod.rs:200)
     3 = surrogate arithmetic underflow (string.rs:85-86)
   The `pending` look-ahead buffer of Parser is modelled by reading the head of the
   remaining input without removing it. *)
From JsonSyntax Require Import Base.Prelude Base.Value Base.Unicode.
From JsonSyntax Require Export Base.Source.

Inductive perr :=
| EStream (p : N)
| EUnexpected (p : N) (c : option N)
| EInvalidCodePoint (s e : N) (cp : N)
| EMissingLow (s e : N) (hi : N)
| EInvalidLow (s e : N) (hi : N) (cp : N)
| EInvalidUtf8 (p : N).

Record pstate := { rest : list sitem; pos : N; cm : list cme }.

Definition res (A : Type) := outcome perr (A * pstate).

Inductive context := CNone | CArray | CObjectKey | CObjectValue.

(* ---- characters ---- *)
Definition is_ws (c : N) : bool := (c =? 0x20) || (c =? 0x09) || (c =? 0x0D) || (c =? 0x0A).
Definition is_digit (c : N) : bool := (0x30 <=? c) && (c <=? 0x39).
Definition is_onenine (c : N) : bool := (0x31 <=? c) && (c <=? 0x39).
Definition is_control (c : N) : bool := c <=? 0x1F.

Definition follows (ctx : context) (c : N) : bool :=
  match ctx with
  | CNone => is_ws c
  | CArray => is_ws c || (c =? 0x2C) || (c =? 0x5D)
  | CObjectKey => is_ws c || (c =? 0x3A)
  | CObjectValue => is_ws c || (c =? 0x2C) || (c =? 0x7D)
  end.

(* char::to_digit(16) *)
Definition hexval (c : N) : option N :=
  if is_digit c then Some (c - 0x30)
  else if (0x41 <=? c) && (c <=? 0x46) then Some (c - 0x41 + 10)
  else if (0x61 <=? c) && (c <=? 0x66) then Some (c - 0x61 + 10)
  else None.

(* ---- Parser primitives (mod.rs:192-250) ---- *)
Definition span_new (s e : N) : N * N := (s, N.max s e).   (* locspan::Span::new *)

Definition begin_fragment (st : pstate) : N * pstate :=
  (N.of_nat (length (cm st)),
   {| rest := rest st; pos := pos st; cm := cm st ++ [(pos st, pos st, 0)] |}).

Fixpoint set_nth {A} (n : nat) (x : A) (l : list A) : list A :=
  match l, n with
  | [], _ => []
  | _ :: r, O => x :: r
  | y :: r, S k => y :: set_nth k x r
  end.

Definition end_fragment (i : N) (st : pstate) : res unit :=
  let count := N.of_nat (length (cm st)) in
  match nth_error (cm st) (N.to_nat i) with
  | None => Panic 1
  | Some (s, _, _) =>
      if count <? i then Panic 2
      else Ok (tt, {| rest := rest st; pos := pos st;
                      cm := set_nth (N.to_nat i) (s, N.max s (pos st), count - i) (cm st) |})
  end.

Definition peek_char (st : pstate) : outcome perr (option N) :=
  match rest st with
  | [] => Ok None
  | SOk c _ :: _ => Ok (Some c)
  | SErr :: _ => Err (EStream (pos st))
  end.

(* returns (position before, character) *)
Definition next_char (st : pstate) : res (N * option N) :=
  match rest st with
  | [] => Ok ((pos st, None), st)
  | SOk c len :: r => Ok ((pos st, Some c), {| rest := r; pos := pos st + len; cm := cm st |})
  | SErr :: _ => Err (EStream (pos st))
  end.

Fixpoint skip_ws_list (l : list sitem) (p : N) : outcome perr (list sitem * N) :=
  match l with
  | [] => Ok ([], p)
  | SOk c len :: r => if is_ws c then skip_ws_list r (p + len) else Ok (l, p)
  | SErr :: _ => Err (EStream p)
  end.

Definition skip_whitespaces (st : pstate) : res unit :=
  match skip_ws_list (rest st) (pos st) with
  | Ok (l, p) => Ok (tt, {| rest := l; pos := p; cm := cm st |})
  | Err e => Err e
  | Panic s => Panic s
  | OutOfFuel => OutOfFuel
  end.

Notation "'do' x <- e ; f" := (obind e (fun x => f)) (at level 200, x pattern, e at level 100, f at level 200).

(* ---- literals (null.rs, boolean.rs): each further character must be the expected one ---- *)
Fixpoint expect_chars (cs : list N) (st : pstate) : res unit :=
  match cs with
  | [] => Ok (tt, st)
  | c :: r =>
      do ((p, oc), st1) <- next_char st;
      match oc with
      | Some x => if x =? c then expect_chars r st1 else Err (EUnexpected p (Some x))
      | None => Err (EUnexpected p None)
      end
  end.

Definition parse_null (st : pstate) : res N :=
  let '(i, st0) := begin_fragment st in
  do (_, st1) <- expect_chars [0x6E; 0x75; 0x6C; 0x6C] st0;
  do (_, st2) <- end_fragment i st1;
  Ok (i, st2).

Definition parse_bool (st : pstate) : res (bool * N) :=
  let '(i, st0) := begin_fragment st in
  do ((p, oc), st1) <- next_char st0;
  match oc with
  | Some 0x74 =>
      do (_, st2) <- expect_chars [0x72; 0x75; 0x65] st1;
      do (_, st3) <- end_fragment i st2;
      Ok ((true, i), st3)
  | Some 0x66 =>
      do (_, st2) <- expect_chars [0x61; 0x6C; 0x73; 0x65] st1;
      do (_, st3) <- end_fragment i st2;
      Ok ((false, i), st3)
  | other => Err (EUnexpected p other)
  end.

(* ---- numbers (number.rs) ---- *)
Inductive nstate :=
| NInit | NFirstDigit | NZero | NNonZero | NFracFirst | NFracRest | NExpSign | NExpFirst | NExpRest.

Inductive ntrans := NGo (s : nstate) | NBreak | NBad.

Definition num_trans (ctx : context) (s : nstate) (c : N) : ntrans :=
  let follow := if follows ctx c then NBreak else NBad in
  let is_e := (c =? 0x65) || (c =? 0x45) in
  match s with
  | NInit =>
      if c =? 0x2D then NGo NFirstDigit
      else if c =? 0x30 then NGo NZero
      else if is_onenine c then NGo NNonZero else NBad
  | NFirstDigit =>
      if c =? 0x30 then NGo NZero else if is_onenine c then NGo NNonZero else NBad
  | NZero =>
      if c =? 0x2E then NGo NFracFirst else if is_e then NGo NExpSign else follow
  | NNonZero =>
      if is_digit c then NGo NNonZero
      else if c =? 0x2E then NGo NFracFirst else if is_e then NGo NExpSign else follow
  | NFracFirst => if is_digit c then NGo NFracRest else NBad
  | NFracRest =>
      if is_digit c then NGo NFracRest else if is_e then NGo NExpSign else follow
  | NExpSign =>
      if (c =? 0x2B) || (c =? 0x2D) then NGo NExpFirst
      else if is_digit c then NGo NExpRest else NBad
  | NExpFirst => if is_digit c then NGo NExpRest else NBad
  | NExpRest => if is_digit c then NGo NExpRest else follow
  end.

Definition num_final (s : nstate) : bool :=
  match s with NZero | NNonZero | NFracRest | NExpRest => true | _ => false end.

(* the while-let loop; returns the buffer (in order), the final state and the stream *)
Fixpoint num_loop (ctx : context) (s : nstate) (buf : list N) (l : list sitem) (p : N)
  : outcome perr (list N * nstate * list sitem * N) :=
  match l with
  | [] => Ok (buf, s, [], p)
  | SErr :: _ => Err (EStream p)
  | SOk c len :: r =>
      match num_trans ctx s c with
      | NGo s' => num_loop ctx s' (buf ++ [c]) r (p + len)
      | NBreak => Ok (buf, s, l, p)
      | NBad => Err (EUnexpected p (Some c))
      end
  end.

Definition parse_number (ctx : context) (st : pstate) : res (list N * N) :=
  let '(i, st0) := begin_fragment st in
  match num_loop ctx NInit [] (rest st0) (pos st0) with
  | Ok (buf, s, l, p) =>
      let st1 := {| rest := l; pos := p; cm := cm st0 |} in
      if num_final s then
        do (_, st2) <- end_fragment i st1;
        Ok ((buf, i), st2)
      else Err (EUnexpected p None)
  | Err e => Err e
  | Panic x => Panic x
  | OutOfFuel => OutOfFuel
  end.

(* ---- strings (string.rs) ---- *)
Definition hex_digit (st : pstate) : res N :=
  do ((p, oc), st1) <- next_char st;
  match oc with
  | Some c => match hexval c with
              | Some h => Ok (h, st1)
              | None => Err (EUnexpected p (Some c))
              end
  | None => Err (EUnexpected p None)
  end.

Definition parse_hex4 (st : pstate) : res N :=
  do (h3, st1) <- hex_digit st;
  do (h2, st2) <- hex_digit st1;
  do (h1, st3) <- hex_digit st2;
  do (h0, st4) <- hex_digit st3;
  Ok (h3 * 4096 + h2 * 256 + h1 * 16 + h0, st4).     (* h3<<12 | h2<<8 | h1<<4 | h0, disjoint *)

(* char::from_u32 *)
Definition from_u32 (c : N) : option N := if is_scalar c then Some c else None.

(* what one loop iteration does after reading its first character *)
Inductive sstep :=
| SDone (s : list N)                  (* closing quote: break Ok *)
| SPush (c : N)                       (* a character to push (after the pending-high check) *)
| SContinue (hi : N * N)              (* `continue` with a fresh pending high surrogate *)
| SContinuePush (hi : N * N).         (* push U+FFFD, then `continue` with a fresh pending high (repair G) *)

Definition char_or_replace (o : opts) (cp : N) (s e : N) : outcome perr N :=
  match from_u32 cp with
  | Some c => Ok c
  | None => if inval o then Ok 0xFFFD else Err (EInvalidCodePoint s e cp)
  end.

(* The body of the `loop` in SmallString::parse_in.  [acc] is the string so far,
   [high] the pending high surrogate (position, code unit). *)
Fixpoint string_loop (fuel : nat) (o : opts) (i : N) (acc : list N) (high : option (N * N))
         (st : pstate) : res (list N * N) :=
  match fuel with
  | O => OutOfFuel
  | S fuel' =>
      let element_start := pos st in
      do ((p, oc), st1) <- next_char st;
      match oc with
      | Some 0x22 =>
          match high with
          | Some (p_high, hi) =>
              if trunc o then
                do (_, st2) <- end_fragment i st1;
                Ok ((acc ++ [0xFFFD], i), st2)
              else Err (let '(s, e) := span_new p_high p in EMissingLow s e hi)
          | None =>
              do (_, st2) <- end_fragment i st1;
              Ok ((acc, i), st2)
          end
      | Some 0x5C =>
          do ((p2, oc2), st2) <- next_char st1;
          (* after an ordinary character [c] has been produced *)
          let push_plain (c : N) (stn : pstate) :=
            match high with
            | Some (p_high, hi) =>
                if trunc o then string_loop fuel' o i (acc ++ [0xFFFD; c]) None stn
                else Err (let '(s, e) := span_new p_high element_start in EMissingLow s e hi)
            | None => string_loop fuel' o i (acc ++ [c]) None stn
            end in
          match oc2 with
          | Some 0x22 => push_plain 0x22 st2
          | Some 0x5C => push_plain 0x5C st2
          | Some 0x2F => push_plain 0x2F st2
          | Some 0x62 => push_plain 0x08 st2
          | Some 0x74 => push_plain 0x09 st2
          | Some 0x6E => push_plain 0x0A st2
          | Some 0x66 => push_plain 0x0C st2
          | Some 0x72 => push_plain 0x0D st2
          | Some 0x75 =>
              do (cp, st3) <- parse_hex4 st2;
              match high with
              | Some (p_high, hi) =>
                  if is_low cp then
                    if (hi <? 0xD800) || (cp <? 0xDC00) then Panic 3 else
                    let c := (hi - 0xD800) * 1024 + (cp - 0xDC00) + 0x10000 in
                    match (let '(s, e) := span_new p_high (pos st3) in char_or_replace o c s e) with
                    | Ok c' => string_loop fuel' o i (acc ++ [c']) None st3
                    | Err e => Err e
                    | Panic x => Panic x
                    | OutOfFuel => OutOfFuel
                    end
                  else if trunc o then
                    if is_high cp then
                      string_loop fuel' o i (acc ++ [0xFFFD]) (Some (p2, cp)) st3
                    else
                    match (let '(s, e) := span_new p2 (pos st3) in char_or_replace o cp s e) with
                    | Ok c' => string_loop fuel' o i (acc ++ [0xFFFD; c']) None st3
                    | Err e => Err e
                    | Panic x => Panic x
                    | OutOfFuel => OutOfFuel
                    end
                  else Err (let '(s, e) := span_new p2 (pos st3) in EInvalidLow s e hi cp)
              | None =>
                  if is_high cp then string_loop fuel' o i acc (Some (p2, cp)) st3
                  else
                    match (let '(s, e) := span_new p2 (pos st3) in char_or_replace o cp s e) with
                    | Ok c' => string_loop fuel' o i (acc ++ [c']) None st3
                    | Err e => Err e
                    | Panic x => Panic x
                    | OutOfFuel => OutOfFuel
                    end
              end
          | other => Err (EUnexpected p2 other)
          end
      | Some c =>
          if is_control c then Err (EUnexpected p (Some c))
          else
            match high with
            | Some (p_high, hi) =>
                if trunc o then string_loop fuel' o i (acc ++ [0xFFFD; c]) None st1
                else Err (let '(s, e) := span_new p_high element_start in EMissingLow s e hi)
            | None => string_loop fuel' o i (acc ++ [c]) None st1
            end
      | None => Err (EUnexpected p None)
      end
  end.

Definition parse_string (o : opts) (st : pstate) : res (list N * N) :=
  let '(i, st0) := begin_fragment st in
  do ((p, oc), st1) <- next_char st0;
  match oc with
  | Some 0x22 => string_loop (S (length (rest st1))) o i [] None st1
  | other => Err (EUnexpected p other)
  end.

(* ---- arrays and objects (array.rs, object.rs) ---- *)
Inductive frag := FrValue (v : value) | FrBeginArray | FrBeginObject (k : key) (e : N).

Definition array_start (st : pstate) : res (bool * N) :=      (* true = Empty *)
  let '(i, st0) := begin_fragment st in
  do ((p, oc), st1) <- next_char st0;
  match oc with
  | Some 0x5B =>
      do (_, st2) <- skip_whitespaces st1;
      do oc2 <- peek_char st2;
      match oc2 with
      | Some 0x5D =>
          do (_, st3) <- next_char st2;
          do (_, st4) <- end_fragment i st3;
          Ok ((true, i), st4)
      | _ => Ok ((false, i), st2)
      end
  | other => Err (EUnexpected p other)
  end.

Definition array_continue (i : N) (st : pstate) : res bool :=  (* true = Item, false = End *)
  do (_, st1) <- skip_whitespaces st;
  do ((p, oc), st2) <- next_char st1;
  match oc with
  | Some 0x2C => Ok (true, st2)
  | Some 0x5D => do (_, st3) <- end_fragment i st2; Ok (false, st3)
  | other => Err (EUnexpected p other)
  end.

(* `e = begin_fragment; key = Key::parse_in; skip_ws; expect ':'` shared by both object functions *)
Definition object_key (o : opts) (st : pstate) : res (key * N) :=
  let '(e, st0) := begin_fragment st in
  do ((k, _), st1) <- parse_string o st0;
  do (_, st2) <- skip_whitespaces st1;
  do ((p, oc), st3) <- next_char st2;
  match oc with
  | Some 0x3A => Ok ((k, e), st3)
  | other => Err (EUnexpected p other)
  end.

Inductive ostart := OEmpty | ONonEmpty (k : key) (e : N).

Definition object_start (o : opts) (st : pstate) : res (ostart * N) :=
  let '(i, st0) := begin_fragment st in
  do ((p, oc), st1) <- next_char st0;
  match oc with
  | Some 0x7B =>
      do (_, st2) <- skip_whitespaces st1;
      do oc2 <- peek_char st2;
      match oc2 with
      | Some 0x7D =>
          do (_, st3) <- next_char st2;
          do (_, st4) <- end_fragment i st3;
          Ok ((OEmpty, i), st4)
      | _ =>
          do ((k, e), st3) <- object_key o st2;
          Ok ((ONonEmpty k e, i), st3)
      end
  | other => Err (EUnexpected p other)
  end.

Definition object_continue (o : opts) (i : N) (st : pstate) : res (option (key * N)) :=
  do (_, st1) <- skip_whitespaces st;
  do ((p, oc), st2) <- next_char st1;
  match oc with
  | Some 0x2C =>
      do (_, st3) <- skip_whitespaces st2;
      do ((k, e), st4) <- object_key o st3;
      Ok (Some (k, e), st4)
  | Some 0x7D => do (_, st3) <- end_fragment i st2; Ok (None, st3)
  | other => Err (EUnexpected p other)
  end.

(* ---- Fragment::parse_in (value.rs:36-73) ---- *)
Definition parse_fragment (o : opts) (ctx : context) (st : pstate) : res (frag * N) :=
  do (_, st1) <- skip_whitespaces st;
  do oc <- peek_char st1;
  match oc with
  | Some 0x6E => do (i, st2) <- parse_null st1; Ok ((FrValue VNull, i), st2)
  | Some 0x74 | Some 0x66 => do ((b, i), st2) <- parse_bool st1; Ok ((FrValue (VBool b), i), st2)
  | Some 0x22 => do ((s, i), st2) <- parse_string o st1; Ok ((FrValue (VStr s), i), st2)
  | Some 0x5B =>
      do ((empty, i), st2) <- array_start st1;
      if empty then Ok ((FrValue (VArr []), i), st2) else Ok ((FrBeginArray, i), st2)
  | Some 0x7B =>
      do ((s, i), st2) <- object_start o st1;
      match s with
      | OEmpty => Ok ((FrValue (VObj []), i), st2)
      | ONonEmpty k e => Ok ((FrBeginObject k e, i), st2)
      end
  | Some c =>
      if is_digit c || (c =? 0x2D) then
        do ((n, i), st2) <- parse_number ctx st1; Ok ((FrValue (VNum n), i), st2)
      else Err (EUnexpected (pos st1) (Some c))
  | None => Err (EUnexpected (pos st1) None)
  end.

(* ---- Value::parse_in: the explicit stack machine (value.rs:76-174) ---- *)
Inductive frame :=
| FArr (a : list value) (i : N)
| FArrItem (a : list value) (i : N)
| FObj (es : list entry) (i : N)
| FObjEntry (es : list entry) (i : N) (k : key) (e : N).

Definition stack_context (stack : list frame) (root : context) : context :=
  match stack with
  | (FArr _ _ | FArrItem _ _) :: _ => CArray
  | FObj _ _ :: _ => CObjectKey
  | FObjEntry _ _ _ _ :: _ => CObjectValue
  | [] => root
  end.

Definition value_or_parse (o : opts) (v : option (value * N)) (ctx : context) (st : pstate)
  : res (frag * N) :=
  match v with
  | Some (x, i) => Ok ((FrValue x, i), st)
  | None => parse_fragment o ctx st
  end.

Record config := { stack : list frame; pending_value : option (value * N); pst : pstate }.

Inductive step_result :=
| Continue (c : config)
| Finished (v : value) (i : N) (st : pstate).

(* one iteration of the `loop`; the stack is a list with its top at the head *)
Definition step (o : opts) (root : context) (c : config) : outcome perr step_result :=
  match stack c with
  | [] =>
      do ((f, i), st1) <- value_or_parse o (pending_value c) (stack_context [] root) (pst c);
      match f with
      | FrValue v =>
          do (_, st2) <- skip_whitespaces st1;
          do ((p, oc), st3) <- next_char st2;
          match oc with
          | Some ch => Err (EUnexpected p (Some ch))
          | None => Ok (Finished v i st3)
          end
      | FrBeginArray =>
          Ok (Continue {| stack := [FArrItem [] i]; pending_value := None; pst := st1 |})
      | FrBeginObject k e =>
          Ok (Continue {| stack := [FObjEntry [] i k e]; pending_value := None; pst := st1 |})
      end
  | FArr a i :: K =>
      do (item, st1) <- array_continue i (pst c);
      if item then Ok (Continue {| stack := FArrItem a i :: K; pending_value := pending_value c; pst := st1 |})
      else Ok (Continue {| stack := K; pending_value := Some (VArr a, i); pst := st1 |})
  | FArrItem a i :: K =>
      do ((f, j), st1) <- value_or_parse o (pending_value c) CArray (pst c);
      match f with
      | FrValue v =>
          Ok (Continue {| stack := FArr (a ++ [v]) i :: K; pending_value := None; pst := st1 |})
      | FrBeginArray =>
          Ok (Continue {| stack := FArrItem [] j :: FArrItem a i :: K; pending_value := None; pst := st1 |})
      | FrBeginObject k e =>
          Ok (Continue {| stack := FObjEntry [] j k e :: FArrItem a i :: K; pending_value := None; pst := st1 |})
      end
  | FObj es i :: K =>
      do (next, st1) <- object_continue o i (pst c);
      match next with
      | Some (k, e) =>
          Ok (Continue {| stack := FObjEntry es i k e :: K; pending_value := pending_value c; pst := st1 |})
      | None => Ok (Continue {| stack := K; pending_value := Some (VObj es, i); pst := st1 |})
      end
  | FObjEntry es i k e :: K =>
      do ((f, j), st1) <- value_or_parse o (pending_value c) CObjectValue (pst c);
      match f with
      | FrValue v =>
          do (_, st2) <- end_fragment e st1;
          Ok (Continue {| stack := FObj (es ++ [(k, v)]) i :: K; pending_value := None; pst := st2 |})
      | FrBeginArray =>
          Ok (Continue {| stack := FArrItem [] j :: FObjEntry es i k e :: K; pending_value := None; pst := st1 |})
      | FrBeginObject k' e' =>
          Ok (Continue {| stack := FObjEntry [] j k' e' :: FObjEntry es i k e :: K; pending_value := None; pst := st1 |})
      end
  end.

Fixpoint run (fuel : nat) (o : opts) (root : context) (c : config) : outcome perr (value * N * pstate) :=
  match fuel with
  | O => OutOfFuel
  | S f =>
      match step o root c with
      | Ok (Continue c') => run f o root c'
      | Ok (Finished v i st) => Ok (v, i, st)
      | Err e => Err e
      | Panic s => Panic s
      | OutOfFuel => OutOfFuel
      end
  end.

(* every iteration either consumes input or is the delivery of a completed value,
   which is followed by a consuming iteration: 2 * length + 4 iterations suffice *)
Definition parse_fuel (s : list sitem) : nat := (2 * length s + 4)%nat.

(* Parse::parse_with : a fresh parser, Value::parse_in with Context::None *)
Definition parse_items (o : opts) (s : list sitem) : outcome perr (value * list cme) :=
  match run (parse_fuel s) o CNone
            {| stack := []; pending_value := None; pst := {| rest := s; pos := 0; cm := [] |} |} with
  | Ok (v, _, st) => Ok (v, cm st)
  | Err e => Err e
  | Panic x => Panic x
  | OutOfFuel => OutOfFuel
  end.
