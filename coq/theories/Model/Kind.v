(* Model/Kind.v -- transcription of src/kind.rs (KindSet is a u8 bit mask)
   and of Value::kind (src/lib.rs:198).  No proofs here. *)
From JsonSyntax Require Import Base.Prelude Base.Value.

(* kind_set! table, src/kind.rs:179-186 *)
Definition mask (k : kind) : N :=
  match k with
  | KNull => 1 | KBoolean => 2 | KNumber => 4
  | KString => 8 | KArray => 16 | KObject => 32
  end.

(* declaration order of the macro arms = order in which `next` tests the masks *)
Definition all_kinds : list kind := [KNull; KBoolean; KNumber; KString; KArray; KObject].

Definition kindset := N.   (* the u8 *)

Definition ks_none : kindset := 0.
Definition ks_all : kindset :=
  fold_left (fun a k => N.lor a (mask k)) all_kinds 0.      (* $($mask)|* *)

Definition ks_from (k : kind) : kindset := mask k.
Definition ks_or (a b : kindset) : kindset := N.lor a b.
Definition ks_and (a b : kindset) : kindset := N.land a b.
Definition ks_or_kind (a : kindset) (k : kind) : kindset := N.lor a (mask k).
Definition ks_and_kind (a : kindset) (k : kind) : kindset := N.land a (mask k).
Definition kind_or_ks (k : kind) (a : kindset) : kindset := ks_or (ks_from k) a.
Definition kind_and_ks (k : kind) (a : kindset) : kindset := ks_and (ks_from k) a.
Definition kind_or (k1 k2 : kind) : kindset := ks_or (ks_from k1) (ks_from k2).
Definition kind_and (k1 k2 : kind) : kindset := ks_and (ks_from k1) (ks_from k2).

(* u8::count_ones *)
Fixpoint popcount_pos (p : positive) : N :=
  match p with
  | xH => 1
  | xO q => popcount_pos q
  | xI q => 1 + popcount_pos q
  end.
Definition popcount (n : N) : N :=
  match n with N0 => 0 | Npos p => popcount_pos p end.

Definition ks_len (a : kindset) : N := popcount a.
Definition ks_is_empty (a : kindset) : bool := a =? 0.

(* KindSetIter::next : first arm (in declaration order) whose mask is set;
   `self.0 &= !$mask` on a u8 clears exactly those bits *)
Fixpoint next_in (ks : list kind) (s : kindset) : option kind * kindset :=
  match ks with
  | [] => (None, s)
  | k :: r =>
      if negb (N.land s (mask k) =? 0) then (Some k, N.ldiff s (mask k))
      else next_in r s
  end.
Definition iter_next (s : kindset) : option kind * kindset := next_in all_kinds s.

(* KindSetIter::next_back : every arm overwrites `result`; the last set one wins *)
Definition iter_next_back (s : kindset) : option kind * kindset :=
  let result :=
    fold_left (fun r k => if negb (N.land s (mask k) =? 0) then Some k else r)
              all_kinds None in
  match result with
  | Some k => (Some k, N.ldiff s (mask k))
  | None => (None, s)
  end.

Definition size_hint (s : kindset) : N := popcount s.

(* iterating to exhaustion; 8 >= number of bits of a u8 *)
Fixpoint iter_all (fuel : nat) (s : kindset) : list kind :=
  match fuel with
  | O => []
  | S f => match iter_next s with
           | (Some k, s') => k :: iter_all f s'
           | (None, _) => []
           end
  end.
Definition ks_iter (s : kindset) : list kind := iter_all 8 s.

Fixpoint iter_all_back (fuel : nat) (s : kindset) : list kind :=
  match fuel with
  | O => []
  | S f => match iter_next_back s with
           | (Some k, s') => k :: iter_all_back f s'
           | (None, _) => []
           end
  end.
Definition ks_iter_rev (s : kindset) : list kind := iter_all_back 8 s.

(* a front/back step script: true = next, false = next_back.
   Observed after each step: the item yielded and size_hint. *)
Fixpoint run_steps (steps : list bool) (s : kindset) : list (option kind * N) * kindset :=
  match steps with
  | [] => ([], s)
  | b :: r =>
      let '(y, s') := if b then iter_next s else iter_next_back s in
      let '(ys, s'') := run_steps r s' in
      ((y, size_hint s') :: ys, s'')
  end.

(* Display for Kind *)
Definition kind_name (k : kind) : list N :=
  match k with
  | KNull => s2l "null" | KBoolean => s2l "boolean" | KNumber => s2l "number"
  | KString => s2l "string" | KArray => s2l "array" | KObject => s2l "object"
  end.

(* Display for KindSet: members separated by ", " *)
Fixpoint join_names (sep : list N) (l : list kind) : list N :=
  match l with
  | [] => []
  | [k] => kind_name k
  | k :: r => kind_name k ++ sep ++ join_names sep r
  end.
Definition ks_display (s : kindset) : list N := join_names (s2l ", ") (ks_iter s).

(* KindSetDisjunction / KindSetConjunction :: fmt, src/kind.rs:298-350 *)
Definition ks_render (word : list N) (s : kindset) : list N :=
  if s =? ks_all then s2l "anything"
  else
    match iter_next_back s with
    | (Some last, s1) =>
        match iter_next s1 with
        | (Some first, s2) =>
            kind_name first
              ++ flat_map (fun k => s2l ", " ++ kind_name k) (ks_iter s2)
              ++ s2l " " ++ word ++ s2l " " ++ kind_name last
        | (None, _) => kind_name last
        end
    | (None, _) => s2l "nothing"
    end.
Definition ks_disjunction := ks_render (s2l "or").
Definition ks_conjunction := ks_render (s2l "and").

(* Value::kind is Base.Value.kind_of; is_kind compares *)
Definition kind_eqb (a b : kind) : bool := mask a =? mask b.
Definition is_kind (v : value) (k : kind) : bool := kind_eqb (kind_of v) k.
