(* Props/C06.v -- objects are insertion-ordered multimaps whose key index never goes stale.
   Statements only.  Model: Model/Object.v (entries + hash index with ghost keys);
   specification: Spec/Multimap.v (plain list, linear scans). *)
From JsonSyntax Require Import Base.Prelude Base.Value Model.Compare Model.Object Spec.Multimap
  Proofs.ObjectInv Proofs.ObjectRefine Proofs.CompareProofs.
From Coq Require Import Sorting.Permutation.

(* For EVERY finite history of operations starting from the empty object: no operation
   panics, the invariant holds, the entries and every operation result (fresh-key flags,
   removed entries in order, duplicate errors) are those of the list specification. *)
Theorem C06_history_refines : forall ops,
  exists o outs, run ops empty_obj = Some (o, outs) /\ Inv o /\
                 entries o = fst (spec_run ops []) /\ outs = snd (spec_run ops []).
Proof. exact history_refines. Qed.

(* every key-based query on an object satisfying the invariant is a linear scan *)
Theorem C06_queries_scan : forall o k, Inv o ->
  contains_key o k = Some (m_contains (entries o) k) /\
  index_of o k = Some (m_index_of (entries o) k) /\
  redundant_index_of o k = Some (m_redundant_index_of (entries o) k) /\
  indexes_of o k = Some (m_indexes_of (entries o) k) /\
  get o k = Some (m_get (entries o) k) /\
  get_entries o k = Some (m_get_entries (entries o) k) /\
  get_entries_with_index o k = Some (m_get_entries_with_index (entries o) k) /\
  option_map conv_unique (get_unique o k) = Some (m_get_unique (entries o) k) /\
  option_map conv_unique (get_unique_entry o k) = Some (m_get_unique_entry (entries o) k).
Proof. exact queries_scan. Qed.

Theorem C06_history_invariant : forall ops o outs, run ops empty_obj = Some (o, outs) -> Inv o.
Proof. exact history_inv. Qed.

(* bulk construction *)
Theorem C06_from_vec : forall l, exists o, from_vec l = Some o /\ Inv o /\ entries o = m_from_vec l.
Proof. exact from_vec_refines. Qed.
Theorem C06_from_iter : forall l, exists o, from_iter l = Some o /\ Inv o /\ entries o = l.
Proof. exact from_iter_refines. Qed.

(* sort: the history specification uses insertion sort; it IS a sort of the entries for the
   entry order (key, then value), whose order laws are proved in CompareProofs *)
Theorem C06_sort_is_sort : forall es, m_is_sort_of entry_cmp es (fst (spec_step es OpSort)).
Proof. exact (spec_sort_is_sort entry_cmp_total entry_cmp_le_trans). Qed.

(* in-place mutation of a value keeps the index valid *)
Theorem C06_set_value : forall o i v, Inv o ->
  Inv (set_value_at o i v) /\ entries (set_value_at o i v) = m_set_value_at (entries o) i v.
Proof. exact set_value_at_refines. Qed.

(* duplicate detection over index buckets (used by unordered comparison before repair D) *)
Theorem C06_contains_duplicate_keys : forall o, Inv o ->
  (im_contains_duplicate_keys (buckets o) = true <-> exists k, (2 <= length (m_indexes_of (entries o) k))%nat).
Proof. exact contains_duplicate_keys_refines. Qed.

(* non-vacuity: a concrete history with duplicate keys, front insertion, purge and sort *)
Example C06_example :
  let a := [0x61] in let b := [0x62] in let n i := VNum [i] in
  exists o outs,
    run [OpPush a (n 0x31); OpPush b (n 0x32); OpPush a (n 0x33); OpPushFront b (n 0x34);
         OpInsert a (n 0x35); OpRemoveAt 0; OpSort] empty_obj = Some (o, outs)
    /\ entries o = [(a, n 0x35); (b, n 0x32)]
    /\ dump o = [[0]; [1]]%nat.
Proof. vm_compute. repeat eexists. Qed.

Print Assumptions C06_history_refines.
Print Assumptions C06_queries_scan.
Print Assumptions C06_history_invariant.
Print Assumptions C06_from_vec.
Print Assumptions C06_from_iter.
Print Assumptions C06_sort_is_sort.
Print Assumptions C06_set_value.
Print Assumptions C06_contains_duplicate_keys.
Print Assumptions C06_example.
