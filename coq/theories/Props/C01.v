(* Props/C01.v -- strict acceptance: a text parses iff it is valid RFC 8259 JSON
   (byte input: iff it is the UTF-8 encoding of such a text).  Statements only.
   Specification: Spec/Grammar.v (`Strict cs` = the scalar sequence cs is  ws value ws  in
   the annotated RFC 8259 grammar with strict surrogate decoding; nothing there mentions the
   parser) and Spec/Utf8Spec.v (well-formed UTF-8 = the encoding of some scalar sequence:
   no overlong form, no encoded surrogate, nothing above U+10FFFF). *)
From JsonSyntax Require Import Base.Prelude Base.Value Base.Unicode Base.Source Model.Parser Model.EntryPoints
  Spec.Grammar Spec.Utf8Spec Proofs.ParserSpec Proofs.ParserCorollaries Proofs.Utf8Proofs
  Base.ConstSyntax Generated.Consts Proofs.ConstsTie Proofs.ParserSoundLex Proofs.LengthIndependence.

(* text input: accepted iff Strict, for EVERY character sequence *)
Theorem C01_str : forall cs, Forall (fun c => c <= 0x10FFFF) cs ->
  ((exists r, parse_str cs = Ok r) <-> Strict cs).
Proof. exact ParserCorollaries.C01_str. Qed.

(* byte input: accepted iff the bytes are the UTF-8 encoding of a Strict scalar sequence *)
Theorem C01_slice : forall bs,
  (exists r, parse_slice bs = Ok r) <-> (exists cs, scalars cs /\ bs = utf8_encode_all cs /\ Strict cs).
Proof. exact ParserCorollaries.C01_slice. Qed.

(* the model's byte decoder accepts exactly well-formed UTF-8 *)
Theorem C01_utf8_wellformed : forall bs, snd (utf8_decode bs) = true <-> valid_utf8 bs.
Proof. exact decode_valid_iff. Qed.

(* on well-formed bytes the byte-slice and the string entry points return the same result,
   under every option record *)
Theorem C01_slice_is_str : forall o cs, scalars cs ->
  parse_slice_with o (utf8_encode_all cs) = parse_str_with o cs.
Proof. exact ParserCorollaries.C01_slice_is_str. Qed.

(* all text entry points are the same function *)
Theorem C01_entry_points_text : forall cs,
  parse_str cs = parse_str_with strict cs /\
  parse_str cs = parse_utf8 cs /\
  parse_str cs = parse_utf8_with strict cs /\
  parse_str cs = parse_infallible_utf8 cs /\
  parse_str cs = parse_utf8_infallible_with strict cs /\
  parse_str cs = parse (chars cs) /\
  parse_str cs = parse_with strict (chars cs).
Proof. exact (fun cs => conj eq_refl (conj eq_refl (conj eq_refl (conj eq_refl (conj eq_refl (conj eq_refl eq_refl)))))). Qed.

(* the general statement behind them: on any error-free stream, under any options, the
   machine returns (v, m) iff the stream's characters denote v with code map m *)
Theorem C01_parse_spec : forall o s v m,
  stream_ok s -> Forall (fun it : item => fst it <= 0x10FFFF) (items_of s) ->
  (parse_items o s = Ok (v, m) <-> jtext o (items_of s) v m).
Proof. exact parse_spec. Qed.

(* a byte-order mark is rejected; white space is exactly space, tab, LF, CR *)
Theorem C01_bom_rejected : forall cs, ~ Strict (0xFEFF :: cs).
Proof. exact ParserCorollaries.C01_bom_rejected. Qed.
Theorem C01_whitespace_exact : forall c,
  ws_char c = true <-> (c = 0x20 \/ c = 0x09 \/ c = 0x0A \/ c = 0x0D).
Proof. exact ParserCorollaries.C01_whitespace_exact. Qed.

Example C01_slice_rejects_bom : ~ exists r, parse_slice [0xEF; 0xBB; 0xBF; 0x31] = Ok r.
Proof. exact ParserCorollaries.C01_slice_rejects_bom. Qed.
Example C01_accepts_somewhere :
  (exists r, parse_str (s2l " [1, {""a"": null}] ") = Ok r) /\ parse_slice [0x22; 0xC0; 0xAF; 0x22] = Err (EInvalidUtf8 1).
Proof. vm_compute. split; [eexists; reflexivity|reflexivity]. Qed.


(* the verdict does not depend on the lengths the characters of a source declare (`Parse::parse*` over
   `DecodedChar`s: UTF-8 lengths, the byte lengths of a UTF-16 or UTF-32 buffer, 0, 2^32 ..): two error-free
   sources with the same characters are accepted together, under every option record *)
Theorem C01_verdict_independent_of_declared_lengths : forall o (t t' : list item),
  Forall (fun it => fst it <= 0x10FFFF) t -> cps t' = cps t ->
  ((exists v m, parse_with o (map inj t) = Ok (v, m)) <-> (exists v m, parse_with o (map inj t') = Ok (v, m))).
Proof. exact parse_verdict_independent_of_lengths. Qed.
Example C01_declared_lengths_example :
  parse_with strict (map inj [(0x5B, 2); (0x31, 0); (0x5D, 4294967296)]) = Ok (VArr [VNum [0x31]], [(0, 4294967298, 2); (2, 2, 1)])
  /\ parse_with strict (map inj [(0x5B, 1); (0x31, 1); (0x5D, 1)]) = Ok (VArr [VNum [0x31]], [(0, 3, 2); (1, 2, 1)]).
Proof. vm_compute. split; reflexivity. Qed.

(* ---- static tie of the constant tables (DESIGN.md section 4, "Translator tie for constant tables"):
   `src_..` (Generated/Consts.v) is what lib/const_translate.py evaluates the named function / constant of
   the Rust source to -- regenerated from the tree under check at the start of every `bin/check` of this
   property --, the right-hand side is the same data computed from the model's own function
   (Base/ConstSyntax.v: set_of = the maximal runs of domain points where a predicate holds) ---- *)
Theorem C01_whitespace_from_source :
  src_is_whitespace = set_of Parser.is_ws char_domain /\ (forall c, 256 <= c -> Parser.is_ws c = false).
Proof. exact ConstsTie.whitespace_from_source. Qed.
Theorem C01_follows_from_source :
  src_follows = map (fun ctx => (ct_ctx_name ctx, set_of (Parser.follows ctx) char_domain)) ct_contexts
  /\ (forall ctx c, 256 <= c -> Parser.follows ctx c = false).
Proof. exact ConstsTie.follows_from_source. Qed.
Theorem C01_control_from_source :
  src_is_control = set_of Parser.is_control char_domain /\ (forall c, 256 <= c -> Parser.is_control c = false).
Proof. exact ConstsTie.control_from_source. Qed.
Theorem C01_surrogates_from_source :
  src_surrogate_tests = [set_of is_low unit_domain; set_of is_high unit_domain; set_of is_high unit_domain]
  /\ (forall u, u < 0xD700 \/ 0xE100 <= u -> is_high u = false /\ is_low u = false).
Proof. exact ConstsTie.surrogates_from_source. Qed.
Theorem C01_surrogate_pair_from_source :
  src_surrogate_combine = map (fun p => (fst p, snd p, ct_pair_char (fst p) (snd p))) pair_domain.
Proof. exact ConstsTie.surrogate_pair_from_source. Qed.
(* the number automaton of number.rs: for every context, state and character of char_domain the outcome of the
   arm the source selects (next state / leave the loop / error) is the one Parser.num_trans yields; the initial state
   and the accepting states of the final `matches!` are NInit and Parser.num_final; beyond char_domain every
   character is an error in the model, and the naming of states loses nothing *)
Theorem C01_number_automaton_from_source :
  src_number_automaton = ct_number_automaton
  /\ (forall ctx s c, 256 <= c -> num_trans ctx s c = NBad)
  /\ (forall s, In s ct_nstates)
  /\ (forall a b, ct_nstate_name a = ct_nstate_name b -> a = b).
Proof. exact ConstsTie.number_automaton_from_source. Qed.
(* the leaf parsers of null.rs, boolean.rs, string.rs (parse_hex4) and array.rs, EXECUTED by the translator on short
   inputs against a stub of `Parser`, return what the model's leaf functions return on the same inputs: result,
   fragment index, position and the whole code map (DESIGN.md section 4) *)
Theorem C01_leaf_parsers_from_source :
  src_leaf_null = ct_on (fun i => (0, i)) parse_null src_leaf_null
  /\ src_leaf_bool = ct_on (fun x => (ct_b (fst x), snd x)) parse_bool src_leaf_bool
  /\ src_leaf_hex4 = ct_on (fun h => (h, 0)) parse_hex4 src_leaf_hex4
  /\ src_leaf_array_start = ct_on (fun x => (ct_b (fst x), snd x)) array_start src_leaf_array_start
  /\ src_leaf_array_continue = ct_on (fun b => (ct_b b, 0)) (array_continue 0) src_leaf_array_continue
  /\ ((30 <=? length src_leaf_null)%nat = true /\ (60 <=? length src_leaf_bool)%nat = true /\ (100 <=? length src_leaf_hex4)%nat = true
      /\ (300 <=? length src_leaf_array_start)%nat = true /\ (200 <=? length src_leaf_array_continue)%nat = true).
Proof. exact ConstsTie.leaf_parsers_from_source. Qed.
(* ... and so does the whole number parser NumberBuf::parse_in (the loop around the automaton, the buffer, the final
   check), executed in each of the four contexts *)
Theorem C01_number_parser_from_source :
  src_leaf_number = ct_number_on src_leaf_number /\ (5000 <=? length src_leaf_number)%nat = true.
Proof. exact ConstsTie.number_parser_from_source. Qed.

Print Assumptions C01_str.
Print Assumptions C01_slice.
Print Assumptions C01_utf8_wellformed.
Print Assumptions C01_slice_is_str.
Print Assumptions C01_entry_points_text.
Print Assumptions C01_parse_spec.
Print Assumptions C01_bom_rejected.
Print Assumptions C01_whitespace_exact.
Print Assumptions C01_slice_rejects_bom.
Print Assumptions C01_accepts_somewhere.
Print Assumptions C01_verdict_independent_of_declared_lengths.
Print Assumptions C01_declared_lengths_example.
Print Assumptions C01_whitespace_from_source.
Print Assumptions C01_follows_from_source.
Print Assumptions C01_control_from_source.
Print Assumptions C01_surrogates_from_source.
Print Assumptions C01_surrogate_pair_from_source.
Print Assumptions C01_number_automaton_from_source.
Print Assumptions C01_leaf_parsers_from_source.
Print Assumptions C01_number_parser_from_source.
