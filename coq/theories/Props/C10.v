(* Props/C10.v -- the canonical form: idempotent, blind to member order, changes nothing but
   member order and number spelling, leaves every object queryable, depends on a number's
   spelling only through its nearest double.  Statements only.  Structural half; the number
   conversion of the implementation is the parameter [num_canon]. *)
From JsonSyntax Require Import Base.Prelude Base.Value Base.Unicode Model.Compare Model.Object
  Model.Canon Spec.EcmaNumber Spec.Jcs Spec.PermEq Spec.Multimap Spec.CanonSpec
  Proofs.CompareProofs Proofs.ObjectInv Proofs.CanonProofs
  Base.Float64 Proofs.Float64Proofs Proofs.NumberProofs Proofs.CanonNumber.
From JsonSyntax Require Proofs.PrintGrammar.
From JsonSyntax Require Import Model.Parser Model.EntryPoints Model.Unordered Spec.Minimal Proofs.CrossProps.
From Coq Require Import Sorting.Permutation.

(* T2: idempotent, given that the number conversion is *)
Theorem C10_canon_idem : forall (num_canon : list N -> list N),
  (forall n, num_canon (num_canon n) = num_canon n) ->
  forall v, canonicalize num_canon (canonicalize num_canon v) = canonicalize num_canon v.
Proof. exact canon_idem. Qed.

(* T3: values equal up to member order (at any depth) have the same canonical form.
   [keys_scalar]: member names are scalar sequences (true of every Rust String; needed in
   the model, see C10_scalar_keys_needed) *)
Theorem C10_canon_perm : forall (num_canon : list N -> list N) v w,
  keys_scalar v -> PermEq v w -> canonicalize num_canon v = canonicalize num_canon w.
Proof. exact canon_perm. Qed.
Theorem C10_canon_perm_wfv : forall (num_canon : list N -> list N) v w,
  wfv v -> PermEq v w -> canonicalize num_canon v = canonicalize num_canon w.
Proof. exact canon_perm_wfv. Qed.
Example C10_scalar_keys_needed :
  let v := VObj [(bad_key1, VNull); (bad_key2, VNull)] in
  let w := VObj [(bad_key2, VNull); (bad_key1, VNull)] in
  PermEq v w /\ nodup_keys v /\
  canonicalize (fun n => n) v <> canonicalize (fun n => n) w.
Proof. exact canon_perm_needs_scalar_keys. Qed.

(* T4: up to member order the canonical form is the value with its numbers respelt;
   structure, strings, booleans, nulls, array order are untouched *)
Theorem C10_canon_preserves : forall (num_canon : list N -> list N) v,
  PermEq (canonicalize num_canon v) (map_numbers num_canon v).
Proof. exact canon_preserves. Qed.
(* the I-JSON side conditions survive *)
Theorem C10_canon_nodup_keys : forall (num_canon : list N -> list N) v,
  nodup_keys v -> nodup_keys (canonicalize num_canon v).
Proof. exact canon_nodup_keys. Qed.
Theorem C10_canon_keys_scalar : forall (num_canon : list N -> list N) v,
  keys_scalar v -> keys_scalar (canonicalize num_canon v).
Proof. exact canon_keys_scalar. Qed.

(* T6: rebuilding the index over the sorted entries (`indexes.clear(); insert each`, i.e.
   Model.Object.from_vec / sort_with) cannot panic, yields the C06 invariant, and every
   query answers as a linear scan of the sorted entries *)
Theorem C10_canon_queryable : forall es : list entry,
  exists ob, from_vec (stable_sort canon_entry_cmp es) = Some ob /\
             sort_with canon_entry_cmp {| entries := es; buckets := [] |} = Some ob /\
             Inv ob /\
             entries ob = stable_sort canon_entry_cmp es /\
             Permutation es (entries ob) /\
             entries_sorted (entries ob) /\
             forall k,
               contains_key ob k = Some (m_contains (entries ob) k) /\
               index_of ob k = Some (m_index_of (entries ob) k) /\
               redundant_index_of ob k = Some (m_redundant_index_of (entries ob) k) /\
               indexes_of ob k = Some (m_indexes_of (entries ob) k) /\
               get ob k = Some (m_get (entries ob) k) /\
               get_entries ob k = Some (m_get_entries (entries ob) k) /\
               get_entries_with_index ob k = Some (m_get_entries_with_index (entries ob) k) /\
               option_map conv_unique (get_unique ob k) = Some (m_get_unique (entries ob) k) /\
               option_map conv_unique (get_unique_entry ob k) = Some (m_get_unique_entry (entries ob) k).
Proof. exact canon_queryable. Qed.

(* T7: the RFC 8785 rendering of a number depends on its spelling only through the nearest
   double of the decimal it denotes *)
Theorem C10_canon_spelling : forall n n' d d',
  read_decimal n = Some d -> read_decimal n' = Some d' ->
  nearest_double d = nearest_double d' -> canon_number n = canon_number n'.
Proof. exact canon_spelling. Qed.

(* the premises are satisfiable, on a reshuffled pair and on sample spellings *)
Example C10_example_perm :
  canonicalize ref_num_canon ex_value = canonicalize ref_num_canon ex_shuffled.
Proof. exact ex_canon_perm. Qed.
Example C10_example_num_idem :
  Forall (fun n => ref_num_canon (ref_num_canon n) = ref_num_canon n)
         [s2l "1.0"; s2l "0.50"; s2l "10e20"; s2l "1e21"; s2l "-0"; s2l "1E-7"; s2l "123456789012345678901234567890"].
Proof. exact ex_num_idem. Qed.

(* ---------------------------------------------------------------------------------------
   NUMBER HALF (depends on Flocq's theorems, i.e. on the four standard-library axioms)
   --------------------------------------------------------------------------------------- *)

(* idempotence, unconditionally, for the reference conversion *)
Theorem C10_idempotent : forall v,
  canonicalize ref_num_canon (canonicalize ref_num_canon v) = canonicalize ref_num_canon v.
Proof. exact canon_ref_idem. Qed.
Theorem C10_number_idempotent : forall n t, canon_number n = Some t -> canon_number t = Some t.
Proof. exact canon_number_idempotent. Qed.

(* each number keeps its double value (a negative zero is rendered "0") *)
Theorem C10_number_keeps_double : forall n t, canon_number n = Some t ->
  exists d d', read_decimal n = Some d /\ read_decimal t = Some d' /\
               nearest_double d' = drop_zero_sign (nearest_double d).
Proof. exact canon_number_keeps_double. Qed.

(* numerically equal spellings (same sign, same exact decimal value) canonicalize alike *)
Theorem C10_number_spelling : forall n n' d d',
  read_decimal n = Some d -> read_decimal n' = Some d' -> dec_equiv d d' ->
  canon_number n = canon_number n'.
Proof. exact canon_number_spelling. Qed.
(* the nearest double depends only on the exact value m * 10^e *)
Theorem C10_nearest_double_value : forall m1 e1 m2 e2,
  dec_R m1 e1 = dec_R m2 e2 -> nearest_double_pos m1 e1 = nearest_double_pos m2 e2.
Proof. exact nearest_double_pos_value. Qed.
(* reading any well-formed spelling (sign, digits, optional fraction, optional exponent with
   E/e, optional sign, digits) in closed form; two spellings of equal value agree *)
Theorem C10_read_spelling : forall sp, spelling_wf sp ->
  read_decimal (render sp) = Some (spelling_decimal sp).
Proof. exact read_render. Qed.
Theorem C10_equal_spellings : forall sp sp', spelling_wf sp -> spelling_wf sp' ->
  dec_equiv (spelling_decimal sp) (spelling_decimal sp') ->
  canon_number (render sp) = canon_number (render sp').
Proof. exact canon_render_equiv. Qed.

(* member order at any depth does not change the canonical text *)
Theorem C10_order_blind : forall v w, keys_scalar v -> PermEq v w ->
  Spec.Minimal.ser_min (canonicalize ref_num_canon v) = Spec.Minimal.ser_min (canonicalize ref_num_canon w).
Proof. exact canon_ref_perm_text. Qed.

(* across properties: what the implementation's unordered equality (C15) identifies has the same
   canonical bytes; the canonical text is strict JSON that parses back (C04, C08) to the
   canonicalized value, a fixed point of canonicalization *)
Theorem C10_unordered_eq_same_canonical_text : forall v w, keys_scalar v -> unordered_eq v w = true ->
  Spec.Minimal.ser_min (canonicalize ref_num_canon v) = Spec.Minimal.ser_min (canonicalize ref_num_canon w).
Proof. exact canon_unordered_text. Qed.
Theorem C10_canonical_text_reparses : forall num_canon v, PrintGrammar.wfv (canonicalize num_canon v) ->
  exists m, parse_str (Spec.Minimal.ser_min (canonicalize num_canon v)) = Ok (canonicalize num_canon v, m).
Proof. exact canonical_text_reparses. Qed.
Theorem C10_canonical_text_fixed_point : forall v, PrintGrammar.wfv (canonicalize ref_num_canon v) ->
  exists m w, parse_str (Spec.Minimal.ser_min (canonicalize ref_num_canon v)) = Ok (w, m) /\
    canonicalize ref_num_canon w = w.
Proof. exact canonical_text_fixed_point. Qed.

Print Assumptions C10_unordered_eq_same_canonical_text.
Print Assumptions C10_canonical_text_reparses.
Print Assumptions C10_canonical_text_fixed_point.
Print Assumptions C10_canon_idem.
Print Assumptions C10_canon_perm.
Print Assumptions C10_canon_perm_wfv.
Print Assumptions C10_scalar_keys_needed.
Print Assumptions C10_canon_preserves.
Print Assumptions C10_canon_nodup_keys.
Print Assumptions C10_canon_keys_scalar.
Print Assumptions C10_canon_queryable.
Print Assumptions C10_canon_spelling.
Print Assumptions C10_example_perm.
Print Assumptions C10_example_num_idem.
Print Assumptions C10_idempotent.
Print Assumptions C10_number_idempotent.
Print Assumptions C10_number_keeps_double.
Print Assumptions C10_number_spelling.
Print Assumptions C10_nearest_double_value.
Print Assumptions C10_read_spelling.
Print Assumptions C10_equal_spellings.
Print Assumptions C10_order_blind.
