(* Props/C10.v -- placeholder until the parser proofs land: entry points agree definitionally. *)
From JsonSyntax Require Import Base.Prelude Base.Value Base.Unicode Model.Parser Model.EntryPoints.

Theorem C10_entry_points_text : forall cs,
  parse_str cs = parse_str_with strict cs /\
  parse_str cs = parse_utf8 cs /\
  parse_str cs = parse_utf8_with strict cs /\
  parse_str cs = parse_infallible_utf8 cs /\
  parse_str cs = parse_utf8_infallible_with strict cs /\
  parse_str cs = parse (chars cs) /\
  parse_str cs = parse_with strict (chars cs).
Proof. exact (fun cs => conj eq_refl (conj eq_refl (conj eq_refl (conj eq_refl (conj eq_refl (conj eq_refl eq_refl)))))). Qed.

Print Assumptions C10_entry_points_text.
