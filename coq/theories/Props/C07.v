(* Props/C07.v -- parse errors point at the first offending character.  Statements only.

   Vocabulary (Spec/Grammar.v): [text_items cs] pairs every code point of a text with its UTF-8
   length, [blen] adds these lengths up (a byte offset), [abnf_text cs] says that cs is a JSON
   text of the RFC 8259 grammar in which every \uXXXX escape is allowed, and
   [viable p := exists t, abnf_text (p ++ t)] that p can still be extended to such a text.
   Errors (Model/Parser.v): EUnexpected offset (Some c | None), EMissingLow start end high,
   EInvalidLow start end high low, EInvalidCodePoint start end unit, EInvalidUtf8 offset.
   Proofs: Proofs/ErrorInv.v, ErrorDeterminism.v, ErrorViable.v, ErrorProofs.v. *)
From JsonSyntax Require Import Base.Prelude Base.Value Base.Unicode Base.Source Model.Parser Model.EntryPoints
  Spec.Grammar Spec.Utf8Spec Proofs.ErrorInv Proofs.ErrorDeterminism Proofs.ErrorProofs.

(* esc is one escape \uXXXX whose four hexadecimal digits denote the UTF-16 code unit cu *)
Definition escape_of (esc : list N) (cu : N) : Prop :=
  exists h3 h2 h1 h0 d3 d2 d1 d0, esc = [0x5C; 0x75; h3; h2; h1; h0] /\
    hexdig h3 = Some d3 /\ hexdig h2 = Some d2 /\ hexdig h1 = Some d1 /\ hexdig h0 = Some d0 /\
    cu = d3 * 4096 + d2 * 256 + d1 * 16 + d0.

(* every offset an error carries *)
Definition offsets_of (e : perr) : list N :=
  match e with
  | EStream p | EUnexpected p _ | EInvalidUtf8 p => [p]
  | EInvalidCodePoint a b _ | EMissingLow a b _ | EInvalidLow a b _ _ => [a; b]
  end.

(* ---------- E1: the offset of an unexpected-character error ---------- *)
(* The reported offset is the byte length of a viable prefix p of the input; either p is the
   whole input and no character is reported, or the reported character c0 is the one following
   p and p ++ [c0] is no longer viable. *)
Theorem C07_unexpected : forall cs pos c,
  Forall (fun x => x <= 0x10FFFF) cs ->
  parse_str cs = Err (EUnexpected pos c) ->
  exists p r, cs = p ++ r /\ blen (text_items p) = pos /\ viable p /\
    ((r = [] /\ c = None) \/
     (exists c0 r', r = c0 :: r' /\ c = Some c0 /\ ~ viable (p ++ [c0]))).
Proof. exact unexpected_longest_viable_prefix. Qed.

(* viability is closed under taking prefixes, hence p above is THE LONGEST viable prefix *)
Theorem C07_viable_prefix_closed : forall p q, viable (p ++ q) -> viable p.
Proof. exact viable_prefix_closed. Qed.

Theorem C07_unexpected_longest : forall cs pos c,
  Forall (fun x => x <= 0x10FFFF) cs ->
  parse_str cs = Err (EUnexpected pos c) ->
  exists p r, cs = p ++ r /\ blen (text_items p) = pos /\ viable p /\ c = hd_error r /\
    forall p' r', cs = p' ++ r' -> viable p' -> (length p' <= length p)%nat.
Proof. exact unexpected_offset_is_longest_viable. Qed.

(* the ingredients, for every pair of option records with o2 at least as lenient as o1:
   an accepted text stays accepted with the same result, an Unexpected error stays the same *)
Theorem C07_option_independence : forall o1 o2 s,
  (trunc o1 = true -> trunc o2 = true) /\ (inval o1 = true -> inval o2 = true) ->
  match parse_with o1 s with
  | Ok r => parse_with o2 s = Ok r
  | Err (EUnexpected p c) => parse_with o2 s = Err (EUnexpected p c)
  | _ => True
  end.
Proof. exact option_independence. Qed.

(* ---------- E2: the reported character, character boundaries ---------- *)
Theorem C07_reported_char : forall o cs p c,
  parse_str_with o cs = Err (EUnexpected p c) ->
  exists a b, cs = a ++ b /\ p = blen (text_items a) /\ c = hd_error b.
Proof. exact str_reported_char. Qed.

Theorem C07_reported_none_iff : forall o cs p c,
  parse_str_with o cs = Err (EUnexpected p c) -> (c = None <-> p = blen (text_items cs)).
Proof. exact str_reported_none_iff. Qed.

(* byte input: the offset counts the bytes of a prefix a of the decoded characters, the reported
   character is the next decoded character; none is reported only on well-formed input *)
Theorem C07_reported_char_slice : forall o bs p c,
  parse_slice_with o bs = Err (EUnexpected p c) ->
  exists a b, fst (utf8_decode bs) = a ++ b /\ p = N.of_nat (length (utf8_encode_all a)) /\ c = hd_error b /\
              (c = None -> snd (utf8_decode bs) = true).
Proof. exact slice_reported_char. Qed.

(* every offset of every error variant is a character boundary of the input *)
Theorem C07_boundaries : forall o cs e q,
  parse_str_with o cs = Err e -> In q (offsets_of e) ->
  exists a b, cs = a ++ b /\ q = blen (text_items a).
Proof. exact str_boundaries. Qed.

Theorem C07_boundaries_slice : forall o bs e q,
  parse_slice_with o bs = Err e -> In q (offsets_of e) ->
  exists a rest, scalars a /\ bs = utf8_encode_all a ++ rest /\ q = N.of_nat (length (utf8_encode_all a)).
Proof. exact slice_boundaries. Qed.

(* ---------- E3: ill-formed UTF-8 ---------- *)
(* cs = the longest well-formed prefix, decoded; k = its length in bytes.  On ill-formed input
   either InvalidUtf8 k is reported and the well-formed prefix alone is accepted or merely
   runs out of input, or the error is the one the prefix alone gives, located before k. *)
Theorem C07_utf8 : forall bs e,
  parse_slice bs = Err e ->
  let cs := fst (utf8_decode bs) in
  let k := blen (text_items cs) in
  (snd (utf8_decode bs) = true /\ parse_str cs = Err e) \/
  (snd (utf8_decode bs) = false /\
   ((e = EInvalidUtf8 k /\
     ((exists r, parse_str cs = Ok r) \/ parse_str cs = Err (EUnexpected k None)))
    \/
    (parse_str cs = Err e /\ (forall p, e <> EInvalidUtf8 p) /\
     (forall q, In q (offsets_of e) -> q <= k) /\
     (forall p c, e = EUnexpected p c -> p < k /\ c <> None)))).
Proof. exact utf8_error_position. Qed.

(* k is where the first ill-formed sequence starts *)
Theorem C07_utf8_first_ill_formed : forall bs,
  snd (utf8_decode bs) = false ->
  let cs := fst (utf8_decode bs) in
  blen (text_items cs) = N.of_nat (length (utf8_encode_all cs)) /\
  (exists rest, bs = utf8_encode_all cs ++ rest /\ rest <> [] /\ utf8_decode1 rest = None) /\
  (forall cs', scalars cs' -> (exists r, bs = utf8_encode_all cs' ++ r) -> exists t, cs = cs' ++ t).
Proof. exact utf8_first_ill_formed. Qed.

Theorem C07_invalid_utf8_offset : forall o bs k,
  parse_slice_with o bs = Err (EInvalidUtf8 k) ->
  snd (utf8_decode bs) = false /\ k = N.of_nat (length (utf8_encode_all (fst (utf8_decode bs)))).
Proof. exact slice_invalid_utf8. Qed.

(* an input followed by a stream error: same outcome, or that stream error after the parser
   ran out of input *)
Theorem C07_stream_error_last : forall o u,
  match parse_with o (map ParserSoundLex.inj u) with
  | Ok r => parse_with o (map ParserSoundLex.inj u ++ [SErr]) = Ok r \/
            parse_with o (map ParserSoundLex.inj u ++ [SErr]) = Err (EStream (blen u))
  | Err e => (forall p, e <> EStream p) ->
             parse_with o (map ParserSoundLex.inj u ++ [SErr]) = Err e \/
             (parse_with o (map ParserSoundLex.inj u ++ [SErr]) = Err (EStream (blen u)) /\
              exists p, e = EUnexpected p None /\ blen u <= p)
  | _ => True
  end.
Proof. exact poisoned_mirror. Qed.

(* ---------- E4: surrogate errors ---------- *)
(* strict parsing: the span lies inside the offending escape(s), which denote the reported units *)
Theorem C07_surrogate : forall cs,
  (forall s e hi, parse_str cs = Err (EMissingLow s e hi) ->
     exists p esc r, cs = p ++ esc ++ r /\ escape_of esc hi /\ is_high hi = true /\
       blen (text_items p) <= s /\ s <= e /\ e <= blen (text_items (p ++ esc))) /\
  (forall s e hi lo, parse_str cs = Err (EInvalidLow s e hi lo) ->
     exists p esc1 esc2 r, cs = p ++ (esc1 ++ esc2) ++ r /\ escape_of esc1 hi /\ escape_of esc2 lo /\
       is_high hi = true /\ is_low lo = false /\
       blen (text_items p) <= s /\ s <= e /\ e <= blen (text_items (p ++ esc1 ++ esc2))) /\
  (forall s e cp, parse_str cs = Err (EInvalidCodePoint s e cp) ->
     exists p esc r, cs = p ++ esc ++ r /\ escape_of esc cp /\ is_low cp = true /\
       blen (text_items p) <= s /\ s <= e /\ e <= blen (text_items (p ++ esc))).
Proof. exact surrogate_span_inside. Qed.

(* every option record, exact spans: from just after the backslash of the (last) offending escape
   to its end; a missing low surrogate is detected on the element that follows the escape *)
Theorem C07_surrogate_exact : forall o cs,
  (forall a b hi, parse_str_with o cs = Err (EMissingLow a b hi) ->
     exists p esc r, cs = p ++ esc ++ r /\ r <> [] /\ escape_of esc hi /\ is_high hi = true /\
       a = blen (text_items p) + 1 /\ b = blen (text_items (p ++ esc))) /\
  (forall a b hi lo, parse_str_with o cs = Err (EInvalidLow a b hi lo) ->
     exists p esc1 esc2 r, cs = p ++ esc1 ++ esc2 ++ r /\ escape_of esc1 hi /\ escape_of esc2 lo /\
       is_high hi = true /\ is_low lo = false /\
       a = blen (text_items (p ++ esc1)) + 1 /\ b = blen (text_items (p ++ esc1 ++ esc2))) /\
  (forall a b cp, parse_str_with o cs = Err (EInvalidCodePoint a b cp) ->
     exists p esc r, cs = p ++ esc ++ r /\ escape_of esc cp /\ is_low cp = true /\
       a = blen (text_items p) + 1 /\ b = blen (text_items (p ++ esc))).
Proof. exact str_surrogate. Qed.

(* ---------- the theorems are not vacuous: every variant, past offset 0, inside containers ---------- *)
Example C07_examples_text :
  parse_str (s2l "[1,{""k"":[tx") = Err (EUnexpected 10 (Some 0x78)) /\
  parse_str (s2l "[1,{""k"":[tru") = Err (EUnexpected 12 None) /\
  parse_str (s2l "[1,{""k"":""\uD800a""}]") = Err (EMissingLow 10 15 0xD800) /\
  parse_str (s2l "[1,{""k"":""\uD800\uD800""}]") = Err (EInvalidLow 16 21 0xD800 0xD800) /\
  parse_str (s2l "[1,{""k"":""ab\uDC00""}]") = Err (EInvalidCodePoint 12 17 0xDC00) /\
  parse_str [0x5B; 0x22; 0xE9; 0x20AC; 0x1F600; 0x22; 0x78] = Err (EUnexpected 12 (Some 0x78)).
Proof. vm_compute. repeat split. Qed.

Example C07_examples_bytes :
  parse_slice (s2l "[1,{""k"":""a" ++ [0xC0; 0xAF]) = Err (EInvalidUtf8 10) /\
  parse_slice (s2l "[1 x" ++ [0xFF]) = Err (EUnexpected 3 (Some 0x78)) /\
  parse_slice (s2l "[1,{""k"":""\uD800a" ++ [0xFF]) = Err (EMissingLow 10 15 0xD800) /\
  parse_slice (s2l "tru" ++ [0xFF]) = Err (EInvalidUtf8 3).
Proof. vm_compute. repeat split. Qed.

Print Assumptions C07_unexpected.
Print Assumptions C07_viable_prefix_closed.
Print Assumptions C07_unexpected_longest.
Print Assumptions C07_option_independence.
Print Assumptions C07_reported_char.
Print Assumptions C07_reported_none_iff.
Print Assumptions C07_reported_char_slice.
Print Assumptions C07_boundaries.
Print Assumptions C07_boundaries_slice.
Print Assumptions C07_utf8.
Print Assumptions C07_utf8_first_ill_formed.
Print Assumptions C07_invalid_utf8_offset.
Print Assumptions C07_stream_error_last.
Print Assumptions C07_surrogate.
Print Assumptions C07_surrogate_exact.
Print Assumptions C07_examples_text.
Print Assumptions C07_examples_bytes.
