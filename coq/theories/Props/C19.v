(* Props/C19.v -- the json! macro builds the same value as parsing the same literal text.
   Statements only.

   Model/Macro.v: the 41 rules of src/macros.rs in source order as a first-match rewriting
   system over token trees (rustc's macro_rules matcher -- first matching rule wins, the
   `literal`/`expr`/`tt` fragment classes on the JSON-literal token domain -- is a modelled
   contract, validated by compiling and running generated programs).
   Spec/MacroDoc.v: documents [doc] as written inside json!( ), their token trees [tokens],
   the corresponding JSON text [text], the denoted value [value_of], the domain [dom]:
     integers `-`? digits suffix? within the range of their type: i32 when unsuffixed (an
       unsuffixed literal is an i32 here), the type of the suffix otherwise -- one of i8, i16,
       i32, i64, u8, u16, u32, u64, the types T with `impl From<T> for Value`; a negative value
       is `-` followed by the suffixed literal of its magnitude (`-128i8`), so unsigned types
       have no negative values (`-0u8` does not compile); the text has no suffix,
     floats `-`? s suffix? : a float literal of ANY spelling s (`1.50`, `100.0`, `0.0`, `1e5`,
       `1E+3`, `007.5`, and, with a suffix, plain digits: `123456792f32`), suffix f32 or f64 or
       none (f64).  A float literal passes through its float type, so its JSON text is not the
       literal text but the spelling r the float printer gives to the float it denotes:
       [DFloat neg s sfx r] is in the domain when fmt_float (type of sfx) s = Some r and r is an
       unsigned JSON number; value_of and text use r.  (-0.0 is the number -0.)  The literals
       that are re-spelt as themselves (r = s: 1.5, 0.1, 1e21, 1e-7) are the special case in
       which the text is the literal text (C19_self_respelt_float),
     strings and keys of Unicode scalar values, true, false, null,
     keys written as a string literal, a parenthesised string literal, a variable of type
       &str or a parenthesised variable ([env] gives the variables' contents),
     arrays and objects nested to any depth, each with or without a trailing comma,
     duplicate keys allowed.
   [fmt_float] (the float -> spelling dependency: json-number / lexical, composed with rustc's
   correctly rounded reading of the literal) and [env] are universally quantified: the theorems
   hold for every such function; the executable reference of the run is
   Model/MacroFloat.lexical_float (Proofs/MacroFloatExamples.v). *)
From JsonSyntax Require Import Base.Prelude Base.Value Base.Unicode Model.Macro
  Spec.MacroDoc Spec.Minimal Spec.Grammar Model.EntryPoints Proofs.MacroProofs
  Model.MacroSyntax Generated.MacroRules Proofs.MacroInterp Proofs.MacroRulesTie.

(* the rule model builds the denoted value *)
Theorem C19_expand : forall fmt_float env d, dom fmt_float env d ->
  exists fuel, expand fmt_float env fuel (tokens d) = Some (value_of d).
Proof. exact expand_tokens. Qed.

(* the parser model returns the denoted value on the corresponding text *)
Theorem C19_text : forall fmt_float env d, dom fmt_float env d ->
  exists m, parse_str (text d) = Ok (value_of d, m).
Proof. exact parse_text. Qed.

(* the special case of the float literals that are re-spelt as themselves: the JSON text is
   the literal text (the original reading of the property for floats) *)
Theorem C19_self_respelt_float : forall fmt_float env neg s,
  float_lit s -> fmt_float FT64 s = Some s ->
  dom fmt_float env (DFloat neg s None s) /\
  text (DFloat neg s None s) = (if neg then 0x2D :: s else s) /\
  exists fuel m, expand fmt_float env fuel (if neg then [TPunct PMinus; TLit (LFloat s None)] else [TLit (LFloat s None)])
                   = Some (VNum (if neg then 0x2D :: s else s))
                 /\ parse_str (if neg then 0x2D :: s else s) = Ok (VNum (if neg then 0x2D :: s else s), m).
Proof. exact self_respelt_float. Qed.

(* hence both sides agree *)
Theorem C19 : forall fmt_float env d, dom fmt_float env d ->
  exists fuel m, expand fmt_float env fuel (tokens d) = Some (value_of d)
                 /\ parse_str (text d) = Ok (value_of d, m).
Proof. exact macro_equals_parse. Qed.

(* entries in written order, duplicates preserved; items in written order *)
Theorem C19_entries_in_written_order : forall fmt_float env l tc, dom fmt_float env (DObj l tc) ->
  exists fuel, expand fmt_float env fuel (tokens (DObj l tc))
               = Some (VObj (map (fun e => (dkey e, value_of (dval e))) l)).
Proof. exact object_entries_in_written_order. Qed.

Theorem C19_items_in_written_order : forall fmt_float env l tc, dom fmt_float env (DArr l tc) ->
  exists fuel, expand fmt_float env fuel (tokens (DArr l tc)) = Some (VArr (map value_of l)).
Proof. exact array_items_in_written_order. Qed.

(* with or without the trailing comma *)
Theorem C19_trailing_comma_irrelevant : forall fmt_float env d, dom fmt_float env d ->
  forall d', (match d, d' with
              | DArr l _, DArr l' _ => l = l'
              | DObj l _, DObj l' _ => l = l'
              | _, _ => False
              end) ->
  exists fuel v, expand fmt_float env fuel (tokens d) = Some v /\ expand fmt_float env fuel (tokens d') = Some v.
Proof. exact trailing_comma_irrelevant. Qed.

(* the corresponding text is the minimal serialisation of the denoted value, which is well formed *)
Theorem C19_text_is_minimal : forall d, text d = ser_min (value_of d).
Proof. exact text_is_ser_min. Qed.

(* the spelling of an integer is an RFC 8259 number that reads back as that integer *)
Theorem C19_int_spelling : forall z, jnum (dec_of_Z z) /\ Z_of_dec (dec_of_Z z) = z.
Proof. exact int_spelling. Qed.

(* fuel only bounds the recursion: more fuel never changes an answer *)
Theorem C19_fuel_monotone : forall fmt_float env f f' ts v,
  (f <= f')%nat -> expand fmt_float env f ts = Some v -> expand fmt_float env f' ts = Some v.
Proof. exact expand_fuel_monotone. Qed.

(* ---------- the rule set is the one of the source ---------- *)
(* [src_rules] (Generated/MacroRules.v) is regenerated by lib/macro_translate.py from
   `macro_rules! json` in src/macros.rs of the tree under check at the start of every
   `bin/check C19`; [model_rules] (Proofs/MacroInterp.v) is the hand-written reference in the
   embedding of Model/MacroSyntax.v.  This is the obligation that breaks when the rule set of
   the source changes (syntactic: also when two rules that never both match are swapped). *)
Theorem C19_rules_from_source : src_rules = model_rules.
Proof. exact rules_tie. Qed.
(* ... and so are the rule sets of the hidden helper macros those rules invoke: json_vec![..] is vec![..] of the same
   tokens, json_unexpected!() and json_expect_expr_comma!(e, ..) expand to nothing (syntactic) *)
Theorem C19_helpers_from_source : src_helpers_shown = model_helpers_shown.
Proof. exact helpers_tie. Qed.

(* ... and the rule functions of Model/Macro.v implement exactly those rules: one step of the
   model's dispatcher [first_match rules] is one step of the generic first-match interpreter of
   the embedding on the rules read off the source, on every invocation [inv_ok] -- i.e. one that
   uses the internal markers as the source says ("Must be invoked as: json!(@array [] ..)",
   `@object [acc] (key) (rest) copy`, `@key (k)`) with already parsed expressions in the
   accumulator; every invocation without internal marker is such ([inv_ok_user]), and outside
   the two differ (MacroInterp.step_model_needs_inv_ok) *)
Theorem C19_rules_semantics : forall ts, inv_ok ts -> first_match rules ts = interp_step src_rules ts.
Proof. exact src_rules_semantics. Qed.

(* ... hence whole expansions: on every invocation that does not begin with an internal marker
   ([user_inv]; [tokens d] of every document is such), [expand] -- the function of C19_expand --
   is [expand_with (interp_step src_rules)]: the same driver ([mrun_with], [mrun] of
   Model/Macro.v with the one-step function as a parameter) over the generic interpreter of the
   rules of the source *)
Theorem C19_expand_by_source_rules : forall fmt_float env fuel ts, user_inv ts = true ->
  expand fmt_float env fuel ts = expand_with (interp_step src_rules) fmt_float env fuel ts.
Proof. exact expand_by_source_rules. Qed.

(* in particular C19_expand holds of the generic interpreter run on the rules of the source *)
Theorem C19_source_rules_expand : forall fmt_float env d, dom fmt_float env d ->
  exists fuel, expand_with (interp_step src_rules) fmt_float env fuel (tokens d) = Some (value_of d).
Proof. exact source_rules_expand_tokens. Qed.

(* ---------- non-vacuity: a concrete document ---------- *)
(* (the same examples under the executable float reference lexical_f64 are in
   Proofs/MacroFloatExamples.v; this file stays free of the Flocq libraries) *)
Definition ex_env (x : list N) : option (list N) :=
  if str_eqb x (s2l "K0") then Some (s2l "dup") else None.
(* a float dependency that re-spells 1.5 and 1e21 as themselves, 100.0 as 100, 1.50 as 1.5,
   0.0 as 0, 1e5 as 100000, the f32 literals 123456792f32 as 123456790 and 2147483648f32 as
   2147483600, and -- as lexical-write-float 1.0.6 really does -- 2.675e21 as
   2.6750000000000003e21 *)
Definition ex_fmt (t : fty) (s : list N) : option (list N) :=
  match t with
  | FT64 =>
      if str_eqb s (s2l "100.0") then Some (s2l "100")
      else if str_eqb s (s2l "1.50") then Some (s2l "1.5")
      else if str_eqb s (s2l "0.0") then Some (s2l "0")
      else if str_eqb s (s2l "1e5") then Some (s2l "100000")
      else if str_eqb s (s2l "2.675e21") then Some (s2l "2.6750000000000003e21")
      else Some s
  | FT32 =>
      if str_eqb s (s2l "123456792") then Some (s2l "123456790")
      else if str_eqb s (s2l "2147483648") then Some (s2l "2147483600")
      else Some s
  end.

(* json!({ "dup": [-3, -1.5, null, [], {}, [[true,],],], ("dup"): false, K0: "x\n", (K0): 1e21, "e": {"n": -2147483648,}, }) *)
Definition ex_doc : doc :=
  DObj [ (KLit, s2l "dup", DArr [DInt None (-3); DFloat true (s2l "1.5") None (s2l "1.5"); DNull; DArr [] false; DObj [] false;
                                 DArr [DArr [DBool true] true] true] true);
         (KParen, s2l "dup", DBool false);
         (KVar (s2l "K0"), s2l "dup", DStr [0x78; 0x0A]);
         (KParenVar (s2l "K0"), s2l "dup", DFloat false (s2l "1e21") None (s2l "1e21"));
         (KLit, s2l "e", DObj [(KLit, s2l "n", DInt None (-2147483648))] true) ] true.

Example C19_example_expand :
  expand ex_fmt ex_env 64 (tokens ex_doc) = Some (value_of ex_doc).
Proof. vm_compute. reflexivity. Qed.

Example C19_example_text :
  text ex_doc = s2l "{""dup"":[-3,-1.5,null,[],{},[[true]]],""dup"":false,""dup"":""x\n"",""dup"":1e21,""e"":{""n"":-2147483648}}"
  /\ match parse_str (text ex_doc) with Ok (v, _) => value_eqb v (value_of ex_doc) | _ => false end = true.
Proof. vm_compute. split; reflexivity. Qed.

(* float literals of any spelling: json!([-0.0, 0.0, 1.50, 100.0, 1e5, -1.50, 123456792f32, 2147483648f32, 1.5f64, {"z": -0.0,}]) *)
Definition ex_floats : doc :=
  DArr [DFloat true (s2l "0.0") None (s2l "0"); DFloat false (s2l "0.0") None (s2l "0");
        DFloat false (s2l "1.50") None (s2l "1.5"); DFloat false (s2l "100.0") None (s2l "100");
        DFloat false (s2l "1e5") None (s2l "100000"); DFloat true (s2l "1.50") None (s2l "1.5");
        DFloat false (s2l "123456792") (Some FT32) (s2l "123456790");
        DFloat false (s2l "2147483648") (Some FT32) (s2l "2147483600");
        DFloat false (s2l "1.5") (Some FT64) (s2l "1.5");
        DObj [(KLit, s2l "z", DFloat true (s2l "0.0") None (s2l "0"))] true] false.

Example C19_example_any_float_spelling :
  expand ex_fmt ex_env 64 (tokens ex_floats) = Some (value_of ex_floats)
  /\ text ex_floats = s2l "[-0,0,1.5,100,100000,-1.5,123456790,2147483600,1.5,{""z"":-0}]"
  /\ match parse_str (text ex_floats) with Ok (v, _) => value_eqb v (value_of ex_floats) | _ => false end = true.
Proof. vm_compute. repeat split; reflexivity. Qed.

(* suffixed integer literals at the bounds of their types:
   json!([18446744073709551615u64, 9223372036854775808u64, -9223372036854775808i64, 255u8, -128i8, {"k": 65535u16, ("k"): -32768i16, "k": 4294967295u32}]) *)
Definition ex_ints : doc :=
  DArr [DInt (Some TU64) 18446744073709551615; DInt (Some TU64) 9223372036854775808;
        DInt (Some TI64) (-9223372036854775808); DInt (Some TU8) 255; DInt (Some TI8) (-128);
        DObj [(KLit, s2l "k", DInt (Some TU16) 65535); (KParen, s2l "k", DInt (Some TI16) (-32768));
              (KLit, s2l "k", DInt (Some TU32) 4294967295)] false] true.

Example C19_example_suffixed_integers :
  expand ex_fmt ex_env 64 (tokens ex_ints) = Some (value_of ex_ints)
  /\ text ex_ints = s2l "[18446744073709551615,9223372036854775808,-9223372036854775808,255,-128,{""k"":65535,""k"":-32768,""k"":4294967295}]"
  /\ match parse_str (text ex_ints) with Ok (v, _) => value_eqb v (value_of ex_ints) | _ => false end = true.
Proof. vm_compute. repeat split; reflexivity. Qed.

(* a literal out of the range of its type, a negated unsigned literal: do not compile *)
Example C19_out_of_range_integers_are_rejected :
  expand ex_fmt ex_env 4 [TLit (LInt 128 (Some TI8))] = None
  /\ expand ex_fmt ex_env 4 [TPunct PMinus; TLit (LInt 129 (Some TI8))] = None
  /\ expand ex_fmt ex_env 4 [TLit (LInt 256 (Some TU8))] = None
  /\ expand ex_fmt ex_env 4 [TPunct PMinus; TLit (LInt 0 (Some TU8))] = None
  /\ expand ex_fmt ex_env 4 [TLit (LInt 2147483648 None)] = None
  /\ expand ex_fmt ex_env 4 [TPunct PMinus; TLit (LInt 128 (Some TI8))] = Some (VNum (s2l "-128")).
Proof. vm_compute. repeat split; reflexivity. Qed.

(* ---------- the restrictions of the domain are necessary ---------- *)
(* the integer literal -0 is the i32 0, the JSON text -0 keeps its sign *)
Example C19_minus_zero_is_outside :
  expand ex_fmt ex_env 4 [TPunct PMinus; TLit (LInt 0 None)] = Some (VNum (s2l "0"))
  /\ match parse_str (s2l "-0") with Ok (v, _) => value_eqb v (VNum (s2l "-0")) | _ => false end = true.
Proof. vm_compute. split; reflexivity. Qed.

(* a float literal that is not re-spelt as itself builds a different number than its OWN
   spelling parses to (which is why the JSON text of a float literal is the printer's
   spelling): 100.0 by design (trim_floats), 2.675e21 because the dependency's writer is not
   shortest there (known finding C19-lexical-not-shortest: there the implementation's spelling
   differs from the reference spelling) *)
Example C19_float_respelling_is_needed :
  expand ex_fmt ex_env 4 [TLit (LFloat (s2l "2.675e21") None)] = Some (VNum (s2l "2.6750000000000003e21"))
  /\ match parse_str (s2l "2.675e21") with Ok (v, _) => value_eqb v (VNum (s2l "2.675e21")) | _ => false end = true
  /\ expand ex_fmt ex_env 4 [TLit (LFloat (s2l "100.0") None)] = Some (VNum (s2l "100")).
Proof. vm_compute. repeat split; reflexivity. Qed.

(* there is no From<f64>: a parenthesised float is not a json! literal (does not compile) *)
Example C19_parenthesised_float_is_rejected :
  expand ex_fmt ex_env 4 [TGroup Paren [TLit (LFloat (s2l "1.5") None)]] = None
  /\ expand ex_fmt ex_env 4 [TGroup Paren [TLit (LInt 5 None)]] = Some (VNum (s2l "5")).
Proof. vm_compute. split; reflexivity. Qed.

Print Assumptions C19_expand.
Print Assumptions C19_text.
Print Assumptions C19.
Print Assumptions C19_self_respelt_float.
Print Assumptions C19_entries_in_written_order.
Print Assumptions C19_items_in_written_order.
Print Assumptions C19_trailing_comma_irrelevant.
Print Assumptions C19_text_is_minimal.
Print Assumptions C19_int_spelling.
Print Assumptions C19_fuel_monotone.
Print Assumptions C19_rules_from_source.
Print Assumptions C19_helpers_from_source.
Print Assumptions C19_rules_semantics.
Print Assumptions C19_expand_by_source_rules.
Print Assumptions C19_source_rules_expand.
Print Assumptions C19_example_expand.
Print Assumptions C19_example_text.
Print Assumptions C19_example_any_float_spelling.
Print Assumptions C19_example_suffixed_integers.
Print Assumptions C19_out_of_range_integers_are_rejected.
Print Assumptions C19_minus_zero_is_outside.
Print Assumptions C19_float_respelling_is_needed.
Print Assumptions C19_parenthesised_float_is_rejected.
