(* Props/C13.v -- pretty-print layout follows the documented options and limits exactly.
   Statements only.  Reference layout: Spec/Layout.v (written from the field documentation;
   width = number of characters of the one-line text; empty containers use the `empty`
   spacing).  Holds for EVERY option record and EVERY value. *)
From JsonSyntax Require Import Base.Prelude Base.Value Model.Printer Spec.Grammar Spec.Layout
  Proofs.PrinterProofs Proofs.PrinterTheorems
  Base.ConstSyntax Generated.Consts Proofs.ConstsTie.

Theorem C13_print_is_layout : forall o v, print_with o v = Some (layout_text o v).
Proof. exact C13_layout. Qed.

(* the pre-pass and the emission run in lock-step: `sizes[*index]` never goes out of bounds *)
Theorem C13_sizes_lockstep : forall o v sizes0 ind extra,
  let '(sz, sizes1) := pre_compute_size o v sizes0 in
  exists t, fmt_with_size o v ind (sizes1 ++ extra) (length sizes0) = Some (t, length sizes1).
Proof. exact sizes_lockstep. Qed.

(* width is the number of characters actually printed; Expanded means a line break was printed *)
Theorem C13_width_is_length : forall o v sizes0 ind extra sz sizes1 t idx,
  pre_compute_size o v sizes0 = (sz, sizes1) ->
  fmt_with_size o v ind (sizes1 ++ extra) (length sizes0) = Some (t, idx) ->
  match sz with
  | Width w => w = N.of_nat (length t) /\ (nums_no_lf v -> ~ In 0x0A t)
  | Expanded => In 0x0A t
  end.
Proof. exact width_is_length_partial. Qed.

(* the inline and compact presets (no limits) never emit a line break.  The hypothesis
   excludes only values holding a "number" that contains a raw line feed, which no valid
   JSON number does (C13_jnum_no_lf); without it the statement is false (C13_no_break_needs_it) *)
Theorem C13_no_break : forall o v, array_limit o = None -> object_limit o = None -> nums_no_lf v ->
  ~ In 0x0A (layout_text o v).
Proof. exact no_break_partial. Qed.
Theorem C13_jnum_no_lf : forall n, jnum n -> ~ In LF n.
Proof. exact jnum_no_lf. Qed.
Theorem C13_no_break_needs_it : ~ no_break_statement.
Proof. exact no_break_statement_false. Qed.
Theorem C13_inline_never_breaks : forall v, nums_no_lf v -> exists t, print_with inline v = Some t /\ ~ In 0x0A t.
Proof. exact inline_never_breaks. Qed.
Theorem C13_compact_never_breaks : forall v, nums_no_lf v -> exists t, print_with compact v = Some t /\ ~ In 0x0A t.
Proof. exact compact_never_breaks. Qed.

(* the witnesses of the two repaired defects now lay out as documented *)
Example C13_example :
  let o := {| p_indent := ISpaces 2; array_begin := 3; array_end := 3; array_empty := 0;
              array_before_comma := 0; array_after_comma := 0; array_limit := Some (LWidth 10);
              object_begin := 0; object_end := 0; object_empty := 0; object_before_comma := 0;
              object_after_comma := 0; object_before_colon := 0; object_after_colon := 0;
              object_limit := None |} in
  print_with o (VArr [VNum [0x31]; VNum [0x32]]) = Some (s2l "[" ++ [0x0A] ++ s2l "  1," ++ [0x0A] ++ s2l "  2" ++ [0x0A] ++ s2l "]")
  /\ print_with o (VArr []) = Some (s2l "[]").
Proof. vm_compute. split; reflexivity. Qed.


(* ---- static tie of the constant tables (DESIGN.md section 4, "Translator tie for constant tables"):
   `src_..` (Generated/Consts.v) is what lib/const_translate.py evaluates the named function / constant of
   the Rust source to -- regenerated from the tree under check at the start of every `bin/check` of this
   property --, the right-hand side is the same data computed from the model's own function
   (Base/ConstSyntax.v: set_of = the maximal runs of domain points where a predicate holds) ---- *)
Theorem C13_presets_from_source :
  src_preset_pretty = cval_of_popts Printer.pretty /\
  src_preset_compact = cval_of_popts Printer.compact /\
  src_preset_inline = cval_of_popts Printer.inline /\
  (forall a b, cval_of_popts a = cval_of_popts b -> a = b).
Proof. exact ConstsTie.presets_from_source. Qed.

Print Assumptions C13_print_is_layout.
Print Assumptions C13_sizes_lockstep.
Print Assumptions C13_width_is_length.
Print Assumptions C13_no_break.
Print Assumptions C13_jnum_no_lf.
Print Assumptions C13_no_break_needs_it.
Print Assumptions C13_inline_never_breaks.
Print Assumptions C13_compact_never_breaks.
Print Assumptions C13_example.
Print Assumptions C13_presets_from_source.
