(* Props/C11.v -- code-map offsets navigate correctly.  Statements only.
   Specification: Spec/Preorder.v (recursive pre-order of fragments, subtree volumes,
   `shaped cm off v` = the code map agrees from offset off with the volumes of v;
   every code map produced by a successful parse is shaped at offset 0: C05). *)
From JsonSyntax Require Import Base.Prelude Base.Value Model.Parser Model.Object Model.CodeMapNav
  Spec.Multimap Spec.Preorder Proofs.NavProofs.

(* the explicit-stack traversal is the pre-order; its fuel is exact *)
Theorem C11_traverse_preorder : forall v, traverse v = preorder v /\ traverse_leftover v = [].
Proof. exact traverse_preorder. Qed.
Theorem C11_volume : forall v, value_volume v = length (filter is_value_fragment (preorder v)).
Proof. exact value_volume_spec. Qed.
Theorem C11_count : forall p v, count_where p v = length (filter p (preorder v)).
Proof. exact count_where_spec. Qed.

(* fragment i is the i-th fragment of the traversal; indices past the end are rejected with
   the remaining distance *)
Theorem C11_get_fragment : forall v i,
  get_fragment v i = match nth_error (preorder v) i with
                     | Some f => inl f
                     | None => inr (i - length (preorder v))%nat
                     end.
Proof. exact get_fragment_spec. Qed.

(* mapped iterators: offsets are pre-order indices, and the sub-maps are shaped again *)
Theorem C11_array_iter_mapped : forall cm off items, shaped cm off (VArr items) ->
  array_iter_mapped cm off items = Some (mapped_items off items) /\
  length (mapped_items off items) = length items /\
  forall j x, nth_error items j = Some x ->
    nth_error (mapped_items off items) j = Some ((off + item_offset items j)%nat, x) /\
    nth_error (preorder (VArr items)) (item_offset items j) = Some (FValue x) /\
    shaped cm (off + item_offset items j) x.
Proof. exact array_iter_mapped_spec. Qed.

Theorem C11_object_iter_mapped : forall cm off es, shaped cm off (VObj es) ->
  object_iter_mapped cm off es = Some (mapped_entries off es) /\
  length (mapped_entries off es) = length es /\
  forall j k x, nth_error es j = Some (k, x) ->
    nth_error (mapped_entries off es) j = Some (mapped_entry_at off es j (k, x)) /\
    nth_error (preorder (VObj es)) (entry_offset es j) = Some (FEntry k x) /\
    nth_error (preorder (VObj es)) (entry_offset es j + 1) = Some (FKey k) /\
    nth_error (preorder (VObj es)) (entry_offset es j + 2) = Some (FValue x) /\
    shaped cm (off + entry_offset es j + 2) x.
Proof. exact object_iter_mapped_spec. Qed.

(* keyed lookups: exactly the entries carrying the key, ascending, with the offsets
   iter_mapped gives them (the index answer is the scan by C06_queries_scan) *)
Theorem C11_mapped_lookup : forall cm off o k,
  shaped cm off (VObj (entries o)) ->
  indexes_of o k = Some (m_indexes_of (entries o) k) ->
  get_mapped_entries_with_index cm off o k
  = Some (lookup_mapped off (entries o) (m_indexes_of (entries o) k)).
Proof. exact mapped_lookup_multimap. Qed.

(* conversions: never panic on a shaped code map; an error is reported at the offset of the
   FIRST offending fragment in pre-order, with the kind found there *)
Theorem C11_try_from : forall t cm v off, shaped cm off v ->
  exists r, try_from_json_at t cm v off = Some r /\
    match r with
    | None => forall i e, ~ offends t v i e
    | Some (eoff, expected, found) =>
        exists i f, eoff = (off + i)%nat /\ nth_error (preorder v) i = Some (FValue f) /\
          found = kind_of f /\ found <> expected /\ offends t v i expected /\
          forall i' e', offends t v i' e' -> (i <= i')%nat
    end.
Proof. exact try_from_first_mismatch. Qed.

Print Assumptions C11_traverse_preorder.
Print Assumptions C11_volume.
Print Assumptions C11_count.
Print Assumptions C11_get_fragment.
Print Assumptions C11_array_iter_mapped.
Print Assumptions C11_object_iter_mapped.
Print Assumptions C11_mapped_lookup.
Print Assumptions C11_try_from.
