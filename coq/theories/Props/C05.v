(* Props/C05.v -- code map: one exact source span and volume per fragment, in pre-order.
   Statements only.  Specification: Spec/Preorder.v (pre-order list of fragments, subtree
   volumes computed from the value alone) and the spans the annotated grammar assigns. *)
From JsonSyntax Require Import Base.Prelude Base.Value Base.Unicode Base.Source Model.Parser Model.EntryPoints
  Model.CodeMapNav Spec.Grammar Spec.Preorder Spec.Utf8Spec Proofs.ParserSpec Proofs.ParserCorollaries Proofs.CodeMapShape.
From JsonSyntax Require Import Base.ConstSyntax Generated.Consts Proofs.ConstsTie.

(* everything at once, for the parser, on every error-free stream, under every option record:
   volumes are the subtree fragment counts in pre-order, one entry per fragment, every volume
   >= 1, spans inside the input, and entry i is located exactly on the text of fragment i *)
Theorem C05_parser : forall o s v m,
  stream_ok s -> Forall (fun it => fst it <= 0x10FFFF) (items_of s) ->
  parse_items o s = Ok (v, m) ->
  map (fun e => N.to_nat (snd e)) m = volumes v /\
  length m = length (preorder v) /\
  shaped m 0 v /\
  Forall (fun e => 1 <= snd e) m /\
  Forall (fun e => match e with (a, b, _) => a <= b /\ b <= blen (items_of s) end) m /\
  Forall2 (located o (items_of s)) (preorder v) m.
Proof. exact CodeMapShape.C05_parser. Qed.

(* the code map the parser returns is THE code map the grammar assigns (both directions) *)
Theorem C05_code_map_is_grammar : forall o cs v m,
  Forall (fun c => c <= 0x10FFFF) cs ->
  (parse_str_with o cs = Ok (v, m) <-> jtext o (text_items cs) v m).
Proof. exact parse_str_spec. Qed.

(* the root's volume is the length of the map *)
Theorem C05_root_volume : forall o s v m, jtext o s v m ->
  exists a b r, m = (a, b, N.of_nat (length m)) :: r.
Proof. exact jtext_root_volume. Qed.

(* entry i's span is exactly the source text of fragment i: the slice it cuts out is itself
   a derivation of that value / key / entry ... *)
Theorem C05_span_exact : forall o s v m, jtext o s v m -> forall i f a b vl,
  nth_error (preorder v) i = Some f -> nth_error m i = Some (a, b, vl) ->
  exists pre mid post, s = pre ++ mid ++ post /\ blen pre = a /\ blen (pre ++ mid) = b /\
    match f with
    | FValue x => exists m', jv o mid x m'
    | FKey k => jstr o (cps mid) k
    | FEntry k x => exists m', jentry o mid k x m'
    end.
Proof. exact span_exact. Qed.

(* ... and begins and ends on significant characters *)
Theorem C05_span_trimmed : forall o s v m, jtext o s v m -> forall i f a b vl,
  nth_error (preorder v) i = Some f -> nth_error m i = Some (a, b, vl) ->
  exists pre mid post, s = pre ++ mid ++ post /\ blen pre = a /\ blen (pre ++ mid) = b /\
    mid <> [] /\ ws_char (fst (hd (0, 0) mid)) = false /\ ws_char (fst (last mid (0, 0))) = false.
Proof. exact span_trimmed. Qed.

(* the root span excludes the surrounding white space *)
Theorem C05_root_span : forall o s v m, jtext o s v m ->
  Forall (fun e => match e with (a, b, _) => a <= b /\ b <= blen s end) m /\
  exists pre mid post r, s = pre ++ mid ++ post /\ ws pre /\ ws post /\
    m = (blen pre, blen (pre ++ mid), N.of_nat (length m)) :: r.
Proof. exact jtext_spans_inside. Qed.

(* byte-slice and string entry points return the same pair on well-formed bytes *)
Theorem C05_slice_is_str : forall o cs, scalars cs ->
  parse_slice_with o (utf8_encode_all cs) = parse_str_with o cs.
Proof. exact ParserCorollaries.C01_slice_is_str. Qed.

Example C05_example :
  parse_str (s2l " [ {}, {""a"" : [] } ] ")
  = Ok (VArr [VObj []; VObj [([0x61], VArr [])]],
        [(1, 20, 6); (3, 5, 1); (7, 18, 4); (8, 16, 3); (8, 11, 1); (14, 16, 1)]).
Proof. vm_compute. reflexivity. Qed.

(* static tie (DESIGN.md section 4): the object functions of object.rs (entry fragment reserved before the key, key through
   the string scanner, colon, comma, closing brace, the object's own fragment closed at the end), EXECUTED by the translator
   from the source under the strict and the flexible record, return what Parser.object_start / object_continue return on
   the same inputs -- result, position and the whole code map *)
Theorem C05_object_functions_from_source :
  src_leaf_object_start = ct_object_on ct_object_start_outcome object_start src_leaf_object_start
  /\ src_leaf_object_continue = ct_object_on ct_object_continue_outcome (fun o => object_continue o 0) src_leaf_object_continue
  /\ ((2500 <=? length src_leaf_object_start)%nat = true /\ (2500 <=? length src_leaf_object_continue)%nat = true).
Proof. exact ConstsTie.object_functions_from_source. Qed.

Print Assumptions C05_parser.
Print Assumptions C05_code_map_is_grammar.
Print Assumptions C05_object_functions_from_source.
Print Assumptions C05_root_volume.
Print Assumptions C05_span_exact.
Print Assumptions C05_span_trimmed.
Print Assumptions C05_root_span.
Print Assumptions C05_slice_is_str.
Print Assumptions C05_example.
