(* Props/C03.v -- parsing is total, single pass, and iterative.  Statements only.
   What a theorem can carry: the model never reaches a panic site, terminates within a
   fuel linear in the input for EVERY stream (arbitrary characters, stream errors, all
   four option records), and the traversal loop is the pre-order.  Machine stack and drop
   glue are runtime behaviour observed by execution (see DESIGN.md, C03). *)
From JsonSyntax Require Import Base.Prelude Base.Value Base.Unicode Model.Parser Model.EntryPoints
  Model.CodeMapNav Spec.Grammar Spec.Preorder Proofs.ParserRecDef Proofs.ParserL1 Proofs.ParserSafety Proofs.NavProofs.
From JsonSyntax Require Import Base.ConstSyntax Generated.Consts Proofs.ConstsTie.

(* never a panic: `code_map.get_mut(i).unwrap()`, `entry_count - i`, the surrogate formula *)
Theorem C03_never_panics : forall o s site, parse_items o s <> Panic site.
Proof. exact never_panics. Qed.
Theorem C03_entry_points_never_panic : forall o cs bs site,
  parse_with o (chars cs) <> Panic site /\ parse_utf8_with o cs <> Panic site /\
  parse_str_with o cs <> Panic site /\ parse_slice_with o bs <> Panic site /\ from_str cs <> Panic site.
Proof. exact entry_points_never_panic. Qed.

(* termination: 2 * length + 4 iterations of the main loop always suffice *)
Theorem C03_terminates : forall o s, parse_items o s <> OutOfFuel.
Proof. exact machine_fuel_suffices. Qed.

(* total: every input yields Ok or Err *)
Theorem C03_total : forall o s, (exists r, parse_items o s = Ok r) \/ (exists e, parse_items o s = Err e).
Proof.
  exact (fun o s =>
    match parse_items o s as x
      return (x <> OutOfFuel) -> (forall site, x <> Panic site) ->
             (exists r, x = Ok r) \/ (exists e, x = Err e) with
    | Ok r => fun _ _ => or_introl (ex_intro _ r eq_refl)
    | Err e => fun _ _ => or_intror (ex_intro _ e eq_refl)
    | Panic site => fun _ H => False_ind _ (H site eq_refl)
    | OutOfFuel => fun H _ => False_ind _ (H eq_refl)
    end (machine_fuel_suffices o s) (never_panics o s)).
Qed.

(* the explicit stack is a faithful defunctionalisation: the machine computes exactly what
   the recursive-descent reading of the same leaf functions computes *)
Theorem C03_machine_is_recursive_descent : forall o s, parse_items o s = parse_items_rec o s.
Proof. exact machine_eq_rec. Qed.

(* the precondition of `unsafe { NumberBuf::new_unchecked(buffer) }` *)
Theorem C03_number_buffer_valid : forall ctx st buf i st',
  parse_number ctx st = Ok ((buf, i), st') -> jnum buf /\ Forall (fun c => (c < 128)%N) buf.
Proof. exact number_buffer_valid. Qed.

(* every reserved fragment is closed *)
Theorem C03_code_map_closed : forall o s v m, parse_items o s = Ok (v, m) ->
  Forall (fun e => match e with (a, b, vol) => (a <= b)%N /\ (1 <= vol)%N end) m.
Proof. exact code_map_indices_valid. Qed.

(* traversal is the iterative pre-order *)
Theorem C03_traverse_iterative : forall v, traverse v = preorder v /\ traverse_leftover v = [].
Proof. exact traverse_preorder. Qed.

(* static tie (DESIGN.md section 4): the stack machine Value::parse_in of value.rs -- the explicit stack, its four kinds of
   frames, stack_context, value_or_parse, the end-of-input check -- EXECUTED by the translator from the source on whole
   documents under the strict and the flexible record, every function it calls being run from the source as well, returns
   what the model's machine Parser.parse_items returns on the same documents: value, code map, or the error *)
Theorem C03_stack_machine_from_source :
  src_leaf_machine = ct_machine_on src_leaf_machine /\ (5000 <=? length src_leaf_machine)%nat = true.
Proof. exact ConstsTie.stack_machine_from_source. Qed.

Print Assumptions C03_never_panics.
Print Assumptions C03_stack_machine_from_source.
Print Assumptions C03_entry_points_never_panic.
Print Assumptions C03_terminates.
Print Assumptions C03_total.
Print Assumptions C03_machine_is_recursive_descent.
Print Assumptions C03_number_buffer_valid.
Print Assumptions C03_code_map_closed.
Print Assumptions C03_traverse_iterative.
