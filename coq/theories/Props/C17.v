(* Props/C17.v -- Value's own Serialize / Deserialize preserve the JSON value.
   Statements only.  Model: Model/SerdeValue.v (to_value, from_value, from_text).
   Specification: Spec/SerdeRoundTrip.v (neg_zero_norm, ser_spec = first position / last
   value, de_ok = same structure with every number denoting the same integer or double).
   Decimal -> double conversions (std's str::parse::<f64>, serde_json's float_roundtrip
   parser in the text front end) are correctly rounded and modelled by the reference
   Spec/NumSpelling.dbl.  The one dependency left as an argument is [fmt_lex] (lexical's
   float writer behind NumberBuf::try_from(f64)); what is assumed of it is spelt out in each
   statement and re-validated by every correspondence run.  Known classes: K3 nearest double
   infinite (deserialises to null); K4 an object whose first key is serde_json's private
   number token. *)
From Coq Require Import SpecFloat.
From JsonSyntax Require Import Base.Prelude Base.Value Base.Float64 Spec.Multimap
  Spec.NumSpelling Spec.SerdeData Spec.SerdeRoundTrip Model.SerdeValue
  Proofs.SerdeCollapse Proofs.SerdeValueProofs Proofs.SerdeWitnesses
  Base.ConstSyntax Generated.Consts Proofs.ConstsTie.

(* serialising a duplicate-free value reproduces it exactly, "-0" becoming "0" *)
Theorem C17_ser : forall fmt_lex v,
  wf_nums v = true -> K4 v = false -> nodup_keysb v = true ->
  to_value fmt_lex v = Ok (neg_zero_norm v).
Proof. exact to_value_reproduces. Qed.

(* with duplicate keys: each key at its first position holding its last value *)
Theorem C17_dups : forall fmt_lex v,
  wf_nums v = true -> K4 v = false -> to_value fmt_lex v = Ok (ser_spec v).
Proof. exact to_value_collapses. Qed.

(* ... which is what inserting the entries one by one with Object::insert produces *)
Theorem C17_insert_fold : forall es : list entry,
  fold_left (fun acc e => fst (m_insert acc (fst e) (snd e))) es [] = collapse_entries es.
Proof. exact fold_insert_collapse. Qed.

Theorem C17_nodup_no_collapse : forall es : list entry,
  NoDup (map fst es) -> collapse_entries es = es.
Proof. exact collapse_nodup. Qed.

(* deserialising a Value from a Value *)
Theorem C17_de : forall fmt_lex,
  (forall n, sf_is_finite (dbl n) = true -> dbl (fmt_lex (dbl n)) = dbl n) ->
  forall v, K3 v = false -> K4 v = false ->
  exists w, from_value fmt_lex v = Ok w /\ de_ok v w = true.
Proof. exact from_value_preserves. Qed.

(* deserialising a Value from JSON text through serde_json's self-describing deserializer
   (which refuses a number whose nearest double is infinite: K3 is outside its domain) *)
Theorem C17_de_text : forall fmt_lex,
  (forall n, sf_is_finite (dbl n) = true -> dbl (fmt_lex (dbl n)) = dbl n) ->
  fmt_lex (S754_zero true) = [0x2D; 0x30] ->
  forall v, K3 v = false -> K4 v = false ->
  exists w, from_text fmt_lex v = Ok w /\ de_ok v w = true.
Proof. exact from_text_preserves. Qed.

(* de_ok on a duplicate-free value compares with the value itself *)
Theorem C17_de_nodup : forall v, nodup_keysb v = true -> collapse v = v.
Proof. exact collapse_nodup_keys. Qed.

(* the remaining known classes are genuine deviations *)
Theorem C17_K3_refuted : forall fmt_lex,
  K3 w_huge = true /\ K4 w_huge = false /\
  from_value fmt_lex w_huge = Ok VNull /\ de_ok w_huge VNull = false.
Proof. exact K3_refuted. Qed.

Theorem C17_K4_refuted : forall fmt_lex,
  wf_nums w_token = true /\ K4 w_token = true /\ K3 w_token = false /\ nodup_keysb w_token = true /\
  to_value fmt_lex w_token = Ok (VNum (s2l "12")) /\
  from_value fmt_lex w_token = Ok (VNum (s2l "12")) /\
  from_text fmt_lex w_token = Ok (VNum (s2l "12")) /\
  de_ok w_token (VNum (s2l "12")) = false.
Proof. exact K4_refuted. Qed.

(* non-vacuity: a nested value (keys "a", U+00E9, U+10000; an array; numbers -12, u64::MAX,
   1.5, 1e5, -0, 2.5e-3) meets every premise; results for the executable printer fmt_lex_ref *)
Example C17_ser_instance :
  wf_nums ex_v = true /\ K4 ex_v = false /\ nodup_keysb ex_v = true /\
  neg_zero_norm ex_v = ex_v_ser /\ to_value fmt_lex_ref ex_v = Ok ex_v_ser.
Proof. vm_compute. repeat split. Qed.

Example C17_dups_instance :
  wf_nums ex_vd = true /\ K4 ex_vd = false /\ nodup_keysb ex_vd = false /\
  ser_spec ex_vd = VObj [(s2l "a", VObj ex_inner); ([0xE9], VNum (s2l "0"))] /\
  to_value fmt_lex_ref ex_vd = Ok (ser_spec ex_vd).
Proof. vm_compute. repeat split. Qed.

Example C17_de_instance :
  K3 ex_v = false /\ K4 ex_v = false /\
  from_value fmt_lex_ref ex_v = Ok (ex_v_de (s2l "0")) /\ de_ok ex_v (ex_v_de (s2l "0")) = true.
Proof. vm_compute. repeat split. Qed.

Example C17_de_text_instance :
  K3 ex_v = false /\ K4 ex_v = false /\
  from_text fmt_lex_ref ex_v = Ok (ex_v_de (s2l "-0")) /\ de_ok ex_v (ex_v_de (s2l "-0")) = true.
Proof. vm_compute. repeat split. Qed.

Example C17_printer_instance :
  dbl (fmt_lex_ref (dbl (s2l "1e5"))) = dbl (s2l "1e5") /\
  dbl (fmt_lex_ref (dbl (s2l "2.5e-3"))) = dbl (s2l "2.5e-3") /\
  fmt_lex_ref (S754_zero true) = s2l "-0".
Proof. vm_compute. repeat split. Qed.


(* ---- static tie of the constant tables (DESIGN.md section 4, "Translator tie for constant tables"):
   `src_..` (Generated/Consts.v) is what lib/const_translate.py evaluates the named function / constant of
   the Rust source to -- regenerated from the tree under check at the start of every `bin/check` of this
   property --, the right-hand side is the same data computed from the model's own function
   (Base/ConstSyntax.v: set_of = the maximal runs of domain points where a predicate holds) ---- *)
Theorem C17_number_token_from_source :
  src_number_token = SerdeData.number_token /\ src_number_token = SerdeTyped.num_token.
Proof. exact ConstsTie.tie_number_token. Qed.

Print Assumptions C17_ser.
Print Assumptions C17_dups.
Print Assumptions C17_insert_fold.
Print Assumptions C17_nodup_no_collapse.
Print Assumptions C17_de.
Print Assumptions C17_de_text.
Print Assumptions C17_de_nodup.
Print Assumptions C17_K3_refuted.
Print Assumptions C17_K4_refuted.
Print Assumptions C17_ser_instance.
Print Assumptions C17_dups_instance.
Print Assumptions C17_de_instance.
Print Assumptions C17_de_text_instance.
Print Assumptions C17_printer_instance.
Print Assumptions C17_number_token_from_source.
