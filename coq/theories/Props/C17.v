(* Props/C17.v -- Value's own Serialize / Deserialize preserve the JSON value.
   Statements only.  Model: Model/SerdeValue.v (to_value, from_value, from_text).
   Specification: Spec/SerdeRoundTrip.v (neg_zero_norm, ser_spec = first position / last
   value, de_ok = same structure with every number denoting the same integer or double).
   The dependencies are arguments of the model: [lossy] (json-number as_f64_lossy),
   [fmt_lex] (lexical's float writer), [sj_parse] (serde_json's number parser); what is
   assumed of them is spelt out in each statement and re-validated by every correspondence
   run.  Known classes: K1 integer syntax that is not a 64-bit integer; K2 more than 19
   significant digits; K3 nearest double infinite; K4 an object whose first key is
   serde_json's private number token; K5 outside serde_json's exact float range. *)
From Coq Require Import SpecFloat.
From JsonSyntax Require Import Base.Prelude Base.Value Base.Float64 Spec.Multimap
  Spec.NumSpelling Spec.SerdeData Spec.SerdeRoundTrip Model.SerdeValue
  Proofs.SerdeCollapse Proofs.SerdeValueProofs Proofs.SerdeWitnesses.

(* serialising a duplicate-free value reproduces it exactly, "-0" becoming "0" *)
Theorem C17_ser : forall fmt_lex v,
  wf_nums v = true -> K1 v = false -> K4 v = false -> nodup_keysb v = true ->
  to_value fmt_lex v = Ok (neg_zero_norm v).
Proof. exact to_value_reproduces. Qed.

(* with duplicate keys: each key at its first position holding its last value *)
Theorem C17_dups : forall fmt_lex v,
  wf_nums v = true -> K1 v = false -> K4 v = false ->
  to_value fmt_lex v = Ok (ser_spec v).
Proof. exact to_value_collapses. Qed.

(* ... which is what inserting the entries one by one with Object::insert produces *)
Theorem C17_insert_fold : forall es : list entry,
  fold_left (fun acc e => fst (m_insert acc (fst e) (snd e))) es [] = collapse_entries es.
Proof. exact fold_insert_collapse. Qed.

Theorem C17_nodup_no_collapse : forall es : list entry,
  NoDup (map fst es) -> collapse_entries es = es.
Proof. exact collapse_nodup. Qed.

(* deserialising a Value from a Value *)
Theorem C17_de : forall lossy fmt_lex,
  (forall n, valid_number n = true -> is_int64 n = false -> K2num n = false -> lossy n = dbl n) ->
  (forall n, sf_is_finite (dbl n) = true -> dbl (fmt_lex (dbl n)) = dbl n) ->
  forall v, wf_nums v = true -> K2 v = false -> K3 v = false -> K4 v = false ->
  exists w, from_value lossy fmt_lex v = Ok w /\ de_ok v w = true.
Proof. exact from_value_preserves. Qed.

(* deserialising a Value from JSON text through serde_json's self-describing deserializer *)
Theorem C17_de_text : forall fmt_lex sj_parse,
  (forall n, valid_number n = true -> is_int64 n = false -> sj_exact n = true ->
             sj_parse n = if sf_is_finite (dbl n) then Some (dbl n) else None) ->
  (forall n, sf_is_finite (dbl n) = true -> dbl (fmt_lex (dbl n)) = dbl n) ->
  fmt_lex (S754_zero true) = [0x2D; 0x30] ->
  forall v, wf_nums v = true -> K5 v = false -> K3 v = false -> K4 v = false ->
  exists w, from_text fmt_lex sj_parse v = Ok w /\ de_ok v w = true.
Proof. exact from_text_preserves. Qed.

(* de_ok on a duplicate-free value compares with the value itself *)
Theorem C17_de_nodup : forall v, nodup_keysb v = true -> collapse v = v.
Proof. exact collapse_nodup_keys. Qed.

(* the known classes are genuine deviations *)
Theorem C17_K1_refuted : forall fmt_lex,
  (wf_nums w_exp = true /\ K1 w_exp = true /\ K4 w_exp = false /\ nodup_keysb w_exp = true /\
   to_value fmt_lex w_exp = Err ECustom) /\
  (wf_nums w_big = true /\ K1 w_big = true /\ K4 w_big = false /\ nodup_keysb w_big = true /\
   to_value fmt_lex w_big = Err ECustom).
Proof. exact K1_refuted. Qed.

Theorem C17_K2_refuted : forall lossy fmt_lex,
  lossy w_long_s = sf_of_bits w_long_lossy_bits ->
  fmt_lex (sf_of_bits w_long_lossy_bits) = w_long_printed ->
  wf_nums w_long = true /\ K2 w_long = true /\ K3 w_long = false /\ K4 w_long = false /\
  from_value lossy fmt_lex w_long = Ok (VNum w_long_printed) /\
  de_ok w_long (VNum w_long_printed) = false /\
  sf_bits (dbl w_long_s) = (w_long_lossy_bits + 1)%Z.
Proof. exact K2_refuted. Qed.

Theorem C17_K3_refuted : forall lossy fmt_lex,
  lossy w_huge_s = S754_infinity false ->
  wf_nums w_huge = true /\ K3 w_huge = true /\ K2 w_huge = false /\ K4 w_huge = false /\
  from_value lossy fmt_lex w_huge = Ok VNull /\ de_ok w_huge VNull = false.
Proof. exact K3_refuted. Qed.

Theorem C17_K4_refuted : forall lossy fmt_lex sj_parse,
  wf_nums w_token = true /\ K4 w_token = true /\ K1 w_token = false /\ nodup_keysb w_token = true /\
  to_value fmt_lex w_token = Ok (VNum (s2l "12")) /\
  from_value lossy fmt_lex w_token = Ok (VNum (s2l "12")) /\
  from_text fmt_lex sj_parse w_token = Ok (VNum (s2l "12")) /\
  de_ok w_token (VNum (s2l "12")) = false.
Proof. exact K4_refuted. Qed.

Theorem C17_K5_refuted : forall fmt_lex sj_parse,
  sj_parse w_tiny_s = Some (S754_zero false) ->
  fmt_lex (S754_zero false) = s2l "0" ->
  wf_nums w_tiny = true /\ K5 w_tiny = true /\ K3 w_tiny = false /\ K4 w_tiny = false /\
  from_text fmt_lex sj_parse w_tiny = Ok (VNum (s2l "0")) /\
  de_ok w_tiny (VNum (s2l "0")) = false /\ sf_bits (dbl w_tiny_s) = 1%Z.
Proof. exact K5_refuted. Qed.

Print Assumptions C17_ser.
Print Assumptions C17_dups.
Print Assumptions C17_insert_fold.
Print Assumptions C17_nodup_no_collapse.
Print Assumptions C17_de.
Print Assumptions C17_de_text.
Print Assumptions C17_de_nodup.
Print Assumptions C17_K1_refuted.
Print Assumptions C17_K2_refuted.
Print Assumptions C17_K3_refuted.
Print Assumptions C17_K4_refuted.
Print Assumptions C17_K5_refuted.
