(* Props/C04.v -- printing round-trips: any well-formed value under ANY print options
   re-parses (strictly) to itself.  Statements only.
   wfv v: every number satisfies the RFC 8259 number grammar and every string / key is a
   sequence of Unicode scalar values -- exactly what the safe API can construct. *)
From JsonSyntax Require Import Base.Prelude Base.Value Base.Unicode Model.Parser Model.EntryPoints
  Model.Printer Spec.Grammar Spec.Minimal Spec.Layout Proofs.PrintGrammar Proofs.RoundTrip Proofs.PrinterTheorems
  Base.ConstSyntax Generated.Consts Proofs.ConstsTie.

Theorem C04_roundtrip : forall o v, wfv v ->
  exists t m, print_with o v = Some t /\ parse_str t = Ok (v, m).
Proof. exact print_parse_roundtrip. Qed.

Theorem C04_output_is_strict_json : forall o v, wfv v -> exists t, print_with o v = Some t /\ Strict t.
Proof. exact print_strict. Qed.

(* the printed text denotes the value in the annotated grammar (formatting options only
   ever change insignificant white space) *)
Theorem C04_denotes : forall o v, wfv v -> exists m, jtext strict (text_items (layout_text o v)) v m.
Proof. exact layout_text_strict. Qed.

Theorem C04_never_panics : forall o v, exists t, print_with o v = Some t.
Proof. exact print_never_panics. Qed.

Theorem C04_string_literal_denotes : forall s, Forall (fun c => is_scalar c = true) s -> jstr strict (quote s) s.
Proof. exact quote_denotes. Qed.

Example C04_example :
  let v := VObj [([0x6B; 0x22], VArr [VNum (s2l "-1.5e+2"); VStr [0x0A; 0x1F600]; VObj []]); ([0x6B; 0x22], VNull)] in
  match print_with pretty v with
  | Some t => match parse_str t with
              | Ok (w, _) => value_eqb w v && existsb (N.eqb 0x0A) t
              | _ => false
              end
  | None => false
  end = true.
Proof. vm_compute. reflexivity. Qed.


(* ---- static tie of the constant tables (DESIGN.md section 4, "Translator tie for constant tables"):
   `src_..` (Generated/Consts.v) is what lib/const_translate.py evaluates the named function / constant of
   the Rust source to -- regenerated from the tree under check at the start of every `bin/check` of this
   property --, the right-hand side is the same data computed from the model's own function
   (Base/ConstSyntax.v: set_of = the maximal runs of domain points where a predicate holds) ---- *)
Theorem C04_presets_from_source :
  src_preset_pretty = cval_of_popts Printer.pretty /\
  src_preset_compact = cval_of_popts Printer.compact /\
  src_preset_inline = cval_of_popts Printer.inline /\
  (forall a b, cval_of_popts a = cval_of_popts b -> a = b).
Proof. exact ConstsTie.presets_from_source. Qed.

Print Assumptions C04_roundtrip.
Print Assumptions C04_output_is_strict_json.
Print Assumptions C04_denotes.
Print Assumptions C04_never_panics.
Print Assumptions C04_string_literal_denotes.
Print Assumptions C04_example.
Print Assumptions C04_presets_from_source.
