(* Props/C02.v -- faithful decoding: the parsed value is the document's abstract content.
   Statements only.  "The document's content" is the denotation the annotated grammar
   Spec/Grammar.v assigns: items and entries in source order with duplicates kept, strings
   decoded per RFC 8259 section 7 as UTF-16 element sequences, numbers kept as their
   spelling, literals mapped to null/true/false. *)
From JsonSyntax Require Import Base.Prelude Base.Value Base.Unicode Base.Source Model.Parser Model.EntryPoints
  Model.Object Spec.Grammar Spec.Multimap Proofs.ParserSpec Proofs.ParserCorollaries.
From JsonSyntax Require Import Base.ConstSyntax Generated.Consts Proofs.ConstsTie Proofs.ParserSoundLex Proofs.LengthIndependence.

(* whatever the parser returns is what the grammar says the text denotes (any options) *)
Theorem C02_sound : forall o cs v m, Forall (fun c => c <= 0x10FFFF) cs ->
  parse_str_with o cs = Ok (v, m) -> jtext o (text_items cs) v m.
Proof. exact ParserCorollaries.C02_sound. Qed.

(* ... and the denotation is unique: a text denotes at most one value and code map *)
Theorem C02_denotation_functional : forall o t v m v' m',
  jtext o t v m -> jtext o t v' m' -> v = v' /\ m = m'.
Proof. exact ParserCorollaries.C02_denotation_functional. Qed.

(* both directions at once *)
Theorem C02_parse_str_spec : forall o cs v m,
  Forall (fun c => c <= 0x10FFFF) cs ->
  (parse_str_with o cs = Ok (v, m) <-> jtext o (text_items cs) v m).
Proof. exact parse_str_spec. Qed.

(* the clauses the property names, each for ALL instances *)
Theorem C02_unicode_escape : forall h3 h2 h1 h0 d3 d2 d1 d0,
  hexdig h3 = Some d3 -> hexdig h2 = Some d2 -> hexdig h1 = Some d1 -> hexdig h0 = Some d0 ->
  let u := d3 * 4096 + d2 * 256 + d1 * 16 + d0 in
  is_surrogate u = false ->
  parse_str [0x22; 0x5C; 0x75; h3; h2; h1; h0; 0x22] = Ok (VStr [u], [(0, 8, 1)]).
Proof. exact ParserCorollaries.C02_unicode_escape. Qed.

Theorem C02_surrogate_pair : forall h3 h2 h1 h0 l3 l2 l1 l0 a3 a2 a1 a0 b3 b2 b1 b0,
  hexdig h3 = Some a3 -> hexdig h2 = Some a2 -> hexdig h1 = Some a1 -> hexdig h0 = Some a0 ->
  hexdig l3 = Some b3 -> hexdig l2 = Some b2 -> hexdig l1 = Some b1 -> hexdig l0 = Some b0 ->
  let h := a3 * 4096 + a2 * 256 + a1 * 16 + a0 in
  let l := b3 * 4096 + b2 * 256 + b1 * 16 + b0 in
  is_high h = true -> is_low l = true ->
  parse_str (0x22 :: 0x5C :: 0x75 :: h3 :: h2 :: h1 :: h0 :: 0x5C :: 0x75 :: l3 :: l2 :: l1 :: l0 :: [0x22])
  = Ok (VStr [0x10000 + (h - 0xD800) * 0x400 + (l - 0xDC00)], [(0, 14, 1)]).
Proof. exact ParserCorollaries.C02_surrogate_pair. Qed.

Theorem C02_raw_scalar : forall c, is_scalar c = true -> unescaped c = true ->
  parse_str [0x22; c; 0x22] = Ok (VStr [c], [(0, 2 + utf8_len c, 1)]).
Proof. exact ParserCorollaries.C02_raw_scalar. Qed.

Theorem C02_two_char_escapes : forall l d, In (l, d) esc_table ->
  parse_str [0x22; 0x5C; l; 0x22] = Ok (VStr [d], [(0, 4, 1)]).
Proof. exact ParserCorollaries.C02_two_char_escapes. Qed.

Theorem C02_number_verbatim : forall n, jnum n ->
  parse_str n = Ok (VNum n, [(0, N.of_nat (length n), 1)]).
Proof. exact ParserCorollaries.C02_number_verbatim. Qed.

Theorem C02_literals :
  parse_str (s2l "null") = Ok (VNull, [(0, 4, 1)]) /\
  parse_str (s2l "true") = Ok (VBool true, [(0, 4, 1)]) /\
  parse_str (s2l "false") = Ok (VBool false, [(0, 5, 1)]).
Proof. exact ParserCorollaries.C02_literals. Qed.

(* key lookups on the object built from any entry list (the parser builds objects by push
   only) are linear scans of that list, in source order *)
Theorem C02_lookup : forall es k, exists ob,
  from_iter es = Some ob /\ entries ob = es /\
  get ob k = Some (m_get es k) /\
  get_entries ob k = Some (m_get_entries es k) /\
  indexes_of ob k = Some (m_indexes_of es k).
Proof. exact ParserCorollaries.C02_lookup. Qed.

Example C02_example :
  exists m, parse_str (s2l "{""k"":[1.50e+2,""\uD83D\uDE00\n""], ""k"":null}")
  = Ok (VObj [([0x6B], VArr [VNum (s2l "1.50e+2"); VStr [0x1F600; 0x0A]]); ([0x6B], VNull)], m).
Proof. vm_compute. eexists; reflexivity. Qed.

(* the value does not depend on the lengths the characters of the source declare: an error-free source with the
   same characters (another encoding's byte lengths, 0, 2^32 ..) parses to the same value, with a code map of as many
   entries (C05 says where each span lies in terms of the declared lengths) *)
Theorem C02_value_independent_of_declared_lengths : forall o (t t' : list item) v m,
  Forall (fun it => fst it <= 0x10FFFF) t -> cps t' = cps t ->
  parse_with o (map inj t) = Ok (v, m) ->
  exists m', parse_with o (map inj t') = Ok (v, m') /\ length m' = length m.
Proof. exact parse_value_independent_of_lengths. Qed.

(* static tie: Fragment::parse_in of value.rs (white space, dispatch on the first character, how each sub-parser's result
   becomes a value or a Begin.. fragment), EXECUTED by the translator from the source in each context under the strict and
   the flexible record -- its sub-parsers being the functions of null.rs, boolean.rs, number.rs, string.rs, array.rs and
   object.rs run from their own files -- returns what Parser.parse_fragment returns on the same inputs *)
Theorem C02_fragment_from_source :
  src_leaf_fragment = ct_fragment_on src_leaf_fragment /\ (2000 <=? length src_leaf_fragment)%nat = true.
Proof. exact ConstsTie.fragment_from_source. Qed.

(* static tie (DESIGN.md section 4, "Translator tie for constant tables"): the two-character escapes that the arms of
   `match parser.next_char()?` after a backslash in SmallString::parse_in denote -- evaluated from the source on every
   run -- are the characters the parser model returns for "\X", X ranging over char_domain *)
Theorem C02_escapes_from_source : src_escape_table = ct_escape_table.
Proof. exact ConstsTie.parser_escapes_from_source. Qed.

Print Assumptions C02_sound.
Print Assumptions C02_denotation_functional.
Print Assumptions C02_parse_str_spec.
Print Assumptions C02_unicode_escape.
Print Assumptions C02_surrogate_pair.
Print Assumptions C02_raw_scalar.
Print Assumptions C02_two_char_escapes.
Print Assumptions C02_number_verbatim.
Print Assumptions C02_literals.
Print Assumptions C02_lookup.
Print Assumptions C02_example.
Print Assumptions C02_escapes_from_source.
Print Assumptions C02_fragment_from_source.
Print Assumptions C02_value_independent_of_declared_lengths.
