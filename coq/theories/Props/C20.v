(* Props/C20.v -- KindSet is a faithful finite set of value kinds.
   Statements only; every proof is [exact lemma].  [valid s] is s < 64: the
   representations reachable through the API (every constructor and operator
   preserves it: C20_closed). *)
From JsonSyntax Require Import Base.Prelude Base.Value Model.Kind Spec.KindSpec Proofs.KindProofs
  Base.ConstSyntax Generated.Consts Proofs.ConstsTie.

(* a valid representation is exactly its set of members *)
Theorem C20_extensional : forall a b, valid a -> valid b -> (forall k, mem a k = mem b k) -> a = b.
Proof. exact valid_ext. Qed.

Theorem C20_singleton : forall k k', mem (ks_from k) k' = true <-> k = k'.
Proof. exact mem_from. Qed.

Theorem C20_none_all : (forall k, mem ks_none k = false) /\ (forall k, mem ks_all k = true)
                       /\ valid ks_none /\ valid ks_all.
Proof. exact (conj none_spec (conj all_spec (conj eq_refl eq_refl))). Qed.

(* union and intersection, all operand combinations (the assign forms are the
   same functions: `a |= b` stores `a | b`) *)
Theorem C20_union : forall a b k, mem (ks_or a b) k = mem a k || mem b k.
Proof. exact mem_or. Qed.
Theorem C20_intersection : forall a b k, mem (ks_and a b) k = mem a k && mem b k.
Proof. exact mem_and. Qed.
Theorem C20_union_set_kind : forall a k0 k, mem (ks_or_kind a k0) k = mem a k || mem (ks_from k0) k.
Proof. exact mem_or_kind. Qed.
Theorem C20_intersection_set_kind : forall a k0 k, mem (ks_and_kind a k0) k = mem a k && mem (ks_from k0) k.
Proof. exact mem_and_kind. Qed.
Theorem C20_union_kind_set : forall a k0 k, mem (kind_or_ks k0 a) k = mem (ks_from k0) k || mem a k.
Proof. exact mem_kind_or_ks. Qed.
Theorem C20_intersection_kind_set : forall a k0 k, mem (kind_and_ks k0 a) k = mem (ks_from k0) k && mem a k.
Proof. exact mem_kind_and_ks. Qed.
Theorem C20_union_kind_kind : forall k1 k2 k, mem (kind_or k1 k2) k = mem (ks_from k1) k || mem (ks_from k2) k.
Proof. exact mem_kind_or. Qed.
Theorem C20_intersection_kind_kind : forall k1 k2 k, mem (kind_and k1 k2) k = mem (ks_from k1) k && mem (ks_from k2) k.
Proof. exact mem_kind_and. Qed.

Theorem C20_closed : (forall k, valid (ks_from k))
                     /\ (forall a b, valid a -> valid b -> valid (ks_or a b))
                     /\ (forall a b, valid a -> valid b -> valid (ks_and a b)).
Proof. exact (conj mask_valid (conj valid_or valid_and)). Qed.

Theorem C20_len : forall s, valid s -> ks_len s = N.of_nat (length (members s)).
Proof. exact len_spec. Qed.
Theorem C20_is_empty : forall s, valid s -> ks_is_empty s = true <-> members s = [].
Proof. exact is_empty_spec. Qed.

(* forward iteration yields the members in ascending kind order, backward the reverse *)
Theorem C20_iter : forall s, valid s -> ks_iter s = members s.
Proof. exact iter_spec. Qed.
Theorem C20_iter_rev : forall s, valid s -> ks_iter_rev s = rev (members s).
Proof. exact iter_rev_spec. Qed.
Theorem C20_members : forall s k, In k (members s) <-> mem s k = true.
Proof. exact members_mem. Qed.

(* every interleaving of next / next_back of ANY length behaves as a deque of the
   members: same yields, exact remaining size after each step, and the iterator
   state afterwards denotes exactly what remains *)
Theorem C20_double_ended : forall steps s, valid s ->
  fst (run_steps steps s) = fst (deque_run steps (members s)) /\
  members (snd (run_steps steps s)) = snd (deque_run steps (members s)) /\
  valid (snd (run_steps steps s)).
Proof. exact run_steps_refines. Qed.

Theorem C20_display : forall s, valid s -> ks_display s = comma_join (members s).
Proof. exact display_spec. Qed.
Theorem C20_disjunction : forall s, valid s -> ks_disjunction s = render_spec (s2l "or") (members s).
Proof. exact disjunction_spec. Qed.
Theorem C20_conjunction : forall s, valid s -> ks_conjunction s = render_spec (s2l "and") (members s).
Proof. exact conjunction_spec. Qed.

Theorem C20_value_kind : forall v k, is_kind v k = true <-> kind_of v = k.
Proof. exact is_kind_spec. Qed.

(* non-vacuity: a concrete non-trivial set and script *)
Example C20_example :
  valid 41 /\ members 41 = [KNull; KString; KObject] /\
  ks_disjunction 41 = s2l "null, string or object" /\
  fst (run_steps [true; false; false; true] 41)
    = [(Some KNull, 2); (Some KObject, 1); (Some KString, 0); (None, 0)].
Proof. vm_compute. repeat split. Qed.


(* ---- static tie of the constant tables (DESIGN.md section 4, "Translator tie for constant tables"):
   `src_..` (Generated/Consts.v) is what lib/const_translate.py evaluates the named function / constant of
   the Rust source to -- regenerated from the tree under check at the start of every `bin/check` of this
   property --, the right-hand side is the same data computed from the model's own function
   (Base/ConstSyntax.v: set_of = the maximal runs of domain points where a predicate holds) ---- *)
Theorem C20_masks_from_source :
  src_kind_table = map (fun k => (ct_kind_name k, ct_kind_const k, Kind.mask k)) all_kinds /\ (forall k, In k all_kinds).
Proof. exact ConstsTie.masks_from_source. Qed.
Theorem C20_kinds_from_source :
  src_kind_enum = map ct_kind_name all_kinds.
Proof. exact ConstsTie.kinds_from_source. Qed.
Theorem C20_all_from_source :
  src_kind_all = ks_all.
Proof. exact ConstsTie.all_from_source. Qed.
Theorem C20_names_from_source :
  src_kind_display = map (fun k => (ct_kind_name k, kind_name k)) all_kinds.
Proof. exact ConstsTie.names_from_source. Qed.
Theorem C20_anything_from_source :
  src_kind_anything_disjunction = (set_of (fun s => s =? ks_all) byte_domain, ks_disjunction ks_all) /\
  src_kind_anything_conjunction = (set_of (fun s => s =? ks_all) byte_domain, ks_conjunction ks_all).
Proof. exact ConstsTie.anything_from_source. Qed.

Print Assumptions C20_extensional.
Print Assumptions C20_singleton.
Print Assumptions C20_none_all.
Print Assumptions C20_union.
Print Assumptions C20_intersection.
Print Assumptions C20_union_set_kind.
Print Assumptions C20_intersection_set_kind.
Print Assumptions C20_union_kind_set.
Print Assumptions C20_intersection_kind_set.
Print Assumptions C20_union_kind_kind.
Print Assumptions C20_intersection_kind_kind.
Print Assumptions C20_closed.
Print Assumptions C20_len.
Print Assumptions C20_is_empty.
Print Assumptions C20_iter.
Print Assumptions C20_iter_rev.
Print Assumptions C20_members.
Print Assumptions C20_double_ended.
Print Assumptions C20_display.
Print Assumptions C20_disjunction.
Print Assumptions C20_conjunction.
Print Assumptions C20_value_kind.
Print Assumptions C20_example.
Print Assumptions C20_masks_from_source.
Print Assumptions C20_kinds_from_source.
Print Assumptions C20_all_from_source.
Print Assumptions C20_names_from_source.
Print Assumptions C20_anything_from_source.
