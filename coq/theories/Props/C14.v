(* Props/C14.v -- equality, ordering and hashing are coherent and depend only on content.
   Statements only.  In the model an object IS its entry list for ==, cmp and hash
   (Model/Compare.v transcribes `impl PartialEq/Ord/Hash for Object` which read `entries`
   only); that the implementation does so is what the correspondence check observes on
   pairs of histories ending in the same entries with different index states. *)
From JsonSyntax Require Import Base.Prelude Base.Value Base.Unicode Model.Compare
  Proofs.Utf8Order Proofs.CompareProofs.

Theorem C14_cmp_refl : forall a, value_cmp a a = Eq.
Proof. exact cmp_refl. Qed.
Theorem C14_cmp_antisym : forall a b, value_cmp b a = CompOpp (value_cmp a b).
Proof. exact cmp_antisym. Qed.
Theorem C14_cmp_trans : forall a b c x, value_cmp a b = x -> value_cmp b c = x -> value_cmp a c = x.
Proof. exact cmp_trans. Qed.
Theorem C14_cmp_le_trans : forall a b c, value_cmp a b <> Gt -> value_cmp b c <> Gt -> value_cmp a c <> Gt.
Proof. exact cmp_le_trans. Qed.
(* Equal exactly when equal (no well-formedness hypothesis needed) *)
Theorem C14_cmp_eq_iff : forall a b, value_cmp a b = Eq <-> a = b.
Proof. exact cmp_eq_iff_strong. Qed.
Theorem C14_eq_iff_cmp : forall a b, value_eq a b = true <-> value_cmp a b = Eq.
Proof. exact eq_iff_cmp_strong. Qed.
Theorem C14_partial_cmp : forall a b, partial_cmp a b = Some (value_cmp a b).
Proof. exact partial_cmp_total. Qed.

(* objects compare as their entry lists *)
Theorem C14_object_cmp : forall x y, value_cmp (VObj x) (VObj y) = entries_cmp x y.
Proof. exact value_cmp_obj_entries. Qed.
Theorem C14_entries_cmp_eq_iff : forall a b, entries_cmp a b = Eq <-> a = b.
Proof. exact entries_cmp_eq_iff_strong. Qed.
Theorem C14_entries_cmp_antisym : forall a b, entries_cmp b a = CompOpp (entries_cmp a b).
Proof. exact entries_cmp_antisym. Qed.
Theorem C14_entries_cmp_trans : forall a b c x, entries_cmp a b = x -> entries_cmp b c = x -> entries_cmp a c = x.
Proof. exact entries_cmp_trans. Qed.

(* string order: comparing UTF-8 bytes is comparing code points *)
Theorem C14_utf8_order : forall a b, str_cmp a b = lex_cmp N.compare a b.
Proof. exact utf8_order_strong. Qed.

(* hashing: a function of content; equal values feed any hasher the same writes, and the
   write stream determines the value (so a collision can only come from the hasher) *)
Theorem C14_hash_eq : forall a b, value_eq a b = true -> hash_stream a = hash_stream b.
Proof. exact hash_eq. Qed.
Theorem C14_hash_stream_eq_iff : forall a b, hash_stream a = hash_stream b <-> value_eq a b = true.
Proof. exact hash_stream_eq_iff. Qed.

Example C14_example :
  value_cmp (VStr [0xE000]) (VStr [0x10000]) = Lt /\
  value_cmp (VNum (s2l "10")) (VNum (s2l "9")) = Lt /\
  value_cmp (VObj [([0x61], VNull)]) (VObj [([0x61], VNull); ([0x61], VNull)]) = Lt /\
  value_cmp (VArr []) (VObj []) = Lt.
Proof. vm_compute. repeat split. Qed.

Print Assumptions C14_cmp_refl.
Print Assumptions C14_cmp_antisym.
Print Assumptions C14_cmp_trans.
Print Assumptions C14_cmp_le_trans.
Print Assumptions C14_cmp_eq_iff.
Print Assumptions C14_eq_iff_cmp.
Print Assumptions C14_partial_cmp.
Print Assumptions C14_object_cmp.
Print Assumptions C14_entries_cmp_eq_iff.
Print Assumptions C14_entries_cmp_antisym.
Print Assumptions C14_entries_cmp_trans.
Print Assumptions C14_utf8_order.
Print Assumptions C14_hash_eq.
Print Assumptions C14_hash_stream_eq_iff.
Print Assumptions C14_example.
