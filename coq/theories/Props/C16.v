(* Props/C16.v -- serde: typed data round-trips through Value and agrees with serde_json.
   Statements only.  The float formatting / parsing dependencies (lexical) appear as
   universally quantified functions constrained by explicit premises. *)
From JsonSyntax Require Import Base.Prelude Base.Value Spec.SerdeTyped Model.Serde Proofs.SerdeProofs
  Proofs.SerdeShape Proofs.SerdeViaJson.
Local Open Scope Z_scope.

(* to_value then from_value yields the datum (with -0.0 read back as +0.0), for every
   well-typed datum with finite floats outside the three known classes *)
Theorem C16_roundtrip :
  forall (E : env) (fmt_f64 fmt_f32 : Z -> list N) (lossy : list N -> Z),
  (forall b, f64_wf b = true -> f64_finite b = true -> de_f64 (num_event lossy (fmt_f64 b)) = f64_norm b) ->
  (forall b, f32_wf b = true -> f32_finite b = true -> f32_dr b = false ->
             de_f32 (num_event lossy (fmt_f32 b)) = f32_norm b) ->
  forall d t, has_type E d t = true -> finite_floats d = true -> known_class d = false ->
  exists v, tser fmt_f64 fmt_f32 d = Ok v /\
            exists n, forall fuel, (n <= fuel)%nat -> de E lossy fuel t v = Ok (norm d).
Proof. exact roundtrip_RT. Qed.
Print Assumptions C16_roundtrip.

Theorem C16_nonfinite :
  forall fmt_f64 fmt_f32,
  (forall b, f64_finite b = false -> tser fmt_f64 fmt_f32 (SdF64 b) = Ok VNull) /\
  (forall b, f32_finite b = false -> tser fmt_f64 fmt_f32 (SdF32 b) = Ok VNull).
Proof. exact nonfinite_null. Qed.
Print Assumptions C16_nonfinite.

(* same JSON shape as serde_json::to_value (model ser_sj): structure, strings, booleans
   exact, object members up to order, numbers by value -- for data without f32 leaves
   (json-syntax spells an f32 with its shortest digits, serde_json widens it to f64 first;
   for those the shapes agree at binary32 precision, which the correspondence run checks) *)
Theorem C16_shape :
  forall (E : env) (fmt_f64 fmt_f32 : Z -> list N) (lossy : list N -> Z),
  (forall b, f64_wf b = true -> f64_finite b = true -> num_key lossy false (fmt_f64 b) = key_of_f64 b) ->
  forall d, (exists t, has_type E d t = true) -> finite_floats d = true -> known_class d = false ->
  no_f32 d = true ->
  exists v j, tser fmt_f64 fmt_f32 d = Ok v /\ ser_sj d = Ok j /\
              shape_of lossy false v = shape_of_sj false j.
Proof. exact shape_SH. Qed.
Print Assumptions C16_shape.

(* serde_json's rendering (ser_sj) converted into a Value (from_tsj) and deserialized yields
   the datum exactly -- sign of zero included -- with every map's entries in the order of
   their rendered keys (sort_maps); only K2 data (a tuple variant without fields) is excluded *)
Theorem C16_via_json :
  forall (E : env) (fmt_sj : Z -> list N) (lossy : list N -> Z),
  (forall x, f64_wf x = true -> f64_finite x = true -> num_event lossy (fmt_sj x) = EvF x) ->
  (forall b, f32_wf b = true -> f32_finite b = true ->
     f64_wf (f64_of_f32 b) = true /\ f64_finite (f64_of_f32 b) = true /\ f32_of_f64 (f64_of_f32 b) = b) ->
  forall d t, has_type E d t = true -> finite_floats d = true -> k2_class d = false ->
  exists j, ser_sj d = Ok j /\
            exists n, forall fuel, (n <= fuel)%nat -> de E lossy fuel t (from_tsj fmt_sj j) = Ok (sort_maps d).
Proof. exact via_VIA. Qed.
Print Assumptions C16_via_json.

(* the property is false on the known classes (recorded findings) *)
Theorem C16_K1_refuted :
  has_type [] k1_witness (TyMap KStr TyStr) = true /\ finite_floats k1_witness = true /\
  known_class k1_witness = true /\
  to_value_ref k1_witness = Ok (VNum (s2l "12")) /\
  forall lossy fuel, de [] lossy (S fuel) (TyMap KStr TyStr) (VNum (s2l "12")) = Err tt.
Proof. exact k1_refuted. Qed.
Print Assumptions C16_K1_refuted.

Theorem C16_K2_refuted :
  has_type k2_env k2_witness (TyNamed (s2l "E")) = true /\ finite_floats k2_witness = true /\
  known_class k2_witness = true /\
  to_value_ref k2_witness = Ok (VObj [(s2l "Z", VArr [])]) /\
  forall lossy fuel, de k2_env lossy (S fuel) (TyNamed (s2l "E")) (VObj [(s2l "Z", VArr [])]) = Err tt.
Proof. exact k2_refuted. Qed.
Print Assumptions C16_K2_refuted.

Theorem C16_K3_refuted :
  has_type [] (SdF32 0x15ae43fd) TyF32 = true /\ finite_floats (SdF32 0x15ae43fd) = true /\
  known_class (SdF32 0x15ae43fd) = true /\
  lossy_ref k3_spelling = 0x3ab5c87fb0000000 /\
  de_f32 (num_event lossy_ref k3_spelling) = 0x15ae43fe /\
  forall fmt_f64 fmt_f32, fmt_f32 0x15ae43fd = k3_spelling ->
    tser fmt_f64 fmt_f32 (SdF32 0x15ae43fd) = Ok (VNum k3_spelling) /\
    forall fuel, de [] lossy_ref (S fuel) TyF32 (VNum k3_spelling) = Ok (SdF32 0x15ae43fe).
Proof. exact k3_refuted. Qed.
Print Assumptions C16_K3_refuted.

Theorem C16_widen_sample :
  forallb (fun b => f64_wf (f64_of_f32 b) && f64_finite (f64_of_f32 b) && (f32_of_f64 (f64_of_f32 b) =? b)) sample32 = true.
Proof. exact widen_sample. Qed.
Print Assumptions C16_widen_sample.

Theorem C16_reference_instances_sample :
  forallb (fun b => f64_wf b && f64_finite b && (de_f64 (num_event lossy_ref (fmt_f64_ref b)) =? f64_norm b)) sample64 = true /\
  forallb (fun b => f32_wf b && f32_finite b && negb (f32_dr b) && (de_f32 (num_event lossy_ref (fmt_f32_ref b)) =? f32_norm b)) sample32 = true.
Proof. exact reference_instances_sample. Qed.
Print Assumptions C16_reference_instances_sample.
