(* Props/C16.v -- serde: typed data round-trips through Value and agrees with serde_json.
   Statements only.  Reading a number spelling is std's correctly rounded str::parse (the
   model's dbl / sgl); the float PRINTERS (lexical, serde_json's Display) appear as
   universally quantified functions constrained by explicit premises. *)
From JsonSyntax Require Import Base.Prelude Base.Value Base.Float64 Spec.NumSpelling Spec.Multimap Spec.SerdeTyped
  Spec.SerdeShape32 Spec.SerdeDupKeys
  Model.Serde Proofs.SerdeProofs Proofs.SerdeShape Proofs.SerdeViaJson
  Spec.EcmaNumber Proofs.Float64Proofs Proofs.NumberProofs Proofs.NearestDouble Proofs.Float32Proofs Proofs.Float32Total
  Proofs.NumberTotal Proofs.FloatGenMinimal
  Proofs.Float32Widen Proofs.SerdeShape32 Proofs.SerdeDupKeys.
From Coq Require Import Reals SpecFloat.
From Flocq Require Import Core BinarySingleNaN.
Local Open Scope Z_scope.

(* to_value then from_value yields the datum (with -0.0 read back as +0.0), for every
   well-typed datum with finite floats outside the one known class (a map whose first key
   is the private number token).  Premises: the printed spelling of a finite float reads
   back, correctly rounded, as that float. *)
Theorem C16_roundtrip :
  forall (E : env) (fmt_f64 fmt_f32 : Z -> list N),
  (forall b, f64_wf b = true -> f64_finite b = true -> de_f64 (num_event (fmt_f64 b)) = f64_norm b) ->
  (forall b, f32_wf b = true -> f32_finite b = true -> de_f32 (fmt_f32 b) = f32_norm b) ->
  forall d t, has_type E d t = true -> finite_floats d = true -> known_class d = false ->
  exists v, tser fmt_f64 fmt_f32 d = Ok v /\
            exists n, forall fuel, (n <= fuel)%nat -> de E fuel t v = Ok (norm d).
Proof. exact roundtrip_RT. Qed.
(* ---------------------------------------------------------------------------------------
   The binary32 reference (these depend on Flocq's theorems, i.e. on the four standard-library
   axioms): `sgl`, through which the model reads an f32 spelling, IS the IEEE-754 binary32
   round-to-nearest-even of the exact decimal (infinity beyond the range), depends on a spelling
   only through its value, and the shortest-digits binary32 printer used as the reference
   instance of `fmt_f32` reads back to the same bit pattern for EVERY finite f32: the float
   premise of C16_roundtrip is met by that instance, not merely assumed.
   --------------------------------------------------------------------------------------- *)
Theorem C16_nearest_single_correct : forall d, 0 <= d_mant d ->
  let x := decimal_R d in
  let z := nearest_single d in
  if Rlt_bool (Rabs (round32R x)) (bpow radix2 128) then
    valid_binary 24 128 z = true /\ is_finite_SF z = true /\ sign_SF z = d_neg d /\
    SF2R radix2 z = round32R x
  else z = S754_infinity (d_neg d).
Proof. exact nearest_single_correct. Qed.

Theorem C16_sgl_spelling : forall n n' d d',
  read_decimal n = Some d -> read_decimal n' = Some d' -> dec_equiv d d' -> sgl n = sgl n'.
Proof. exact sgl_spelling. Qed.

Theorem C16_f32_printer_round_trips : forall b,
  f32_wf b = true -> f32_finite b = true ->
  sgl (fmt_f32_ref b) = sf32_of_bits b /\ sf32_bits (sgl (fmt_f32_ref b)) = b.
Proof. exact fmt_f32_ref_round_trip_bits. Qed.

(* The digits of the binary32 reference printer, ECMAScript-style: (n, k, s) is a representation
   of the binary32 (m, e) (k digits, s * 10^(n-k) rounds to it under round-to-nearest-even
   binary32), k <= 9, NO decimal with fewer significant digits (whatever its exponent) rounds to
   it, and among the k-digit representations s * 10^(n-k) is closest to the value; of two equally
   close ones the one with the larger digit string s is taken (lexical's rule, not ECMAScript's
   "even": e.g. 385121.625 is spelt 385121.63). *)
Theorem C16_f32_shortest : forall m e n k s,
  valid_binary 24 128 (S754_finite false m e) = true ->
  nks_g (chk32 (S754_finite false m e)) m e = Some (n, k, s) ->
  f32_repr m e n k s /\ k <= 9 /\
  (forall n' k' s', f32_repr m e n' k' s' -> k <= k') /\
  (forall n' s', f32_repr m e n' k s' ->
     (Rabs (IZR s * bpow radix10 (n - k) - dbl_R m e) <=
      Rabs (IZR s' * bpow radix10 (n' - k) - dbl_R m e))%R /\
     (Rabs (IZR s * bpow radix10 (n - k) - dbl_R m e) =
      Rabs (IZR s' * bpow radix10 (n' - k) - dbl_R m e) ->
      (s', n') = (s, n) \/ s' < s)).
Proof. exact nks_g_chk32_shortest. Qed.

(* and those are the digits `fmt_f32_ref` lays out, for every bit pattern of a finite nonzero f32 *)
Theorem C16_f32_printer_digits : forall b sg m e,
  f32_wf b = true -> sf32_of_bits b = S754_finite sg m e ->
  exists n k s, nks_g (chk32 (S754_finite false m e)) m e = Some (n, k, s) /\
    fmt_f32_ref b = (if sg then [0x2D%N] else nil) ++ layout_lex false n k s.
Proof. exact fmt_f32_ref_digits. Qed.

(* why reading through f64 first was a defect (repaired by 5885c93): double rounding *)
Example C16_double_rounding_differs :
  let n := s2l "7.038531e-26" in
  sf_bits (dbl n) = 0x3ab5c87fb0000000 /\
  sf32_bits (round32 (dbl n)) = 0x15ae43fe /\
  sf32_bits (sgl n) = 0x15ae43fd /\
  round32 (dbl n) <> sgl n.
Proof. exact double_rounding_differs. Qed.


Print Assumptions C16_roundtrip.

Theorem C16_nonfinite :
  forall fmt_f64 fmt_f32,
  (forall b, f64_finite b = false -> tser fmt_f64 fmt_f32 (SdF64 b) = Ok VNull) /\
  (forall b, f32_finite b = false -> tser fmt_f64 fmt_f32 (SdF32 b) = Ok VNull).
Proof. exact nonfinite_null. Qed.
Print Assumptions C16_nonfinite.

(* same JSON shape as serde_json::to_value (model ser_sj): structure, strings, booleans
   exact, object members up to order, numbers by value -- for data without f32 leaves
   (json-syntax spells an f32 with its shortest digits, serde_json widens it to f64 first;
   for those the shapes agree at binary32 precision: C16_shape32 below) *)
Theorem C16_shape :
  forall (E : env) (fmt_f64 fmt_f32 : Z -> list N),
  (forall b, f64_wf b = true -> f64_finite b = true -> num_key false (fmt_f64 b) = key_of_f64 b) ->
  forall d, (exists t, has_type E d t = true) -> finite_floats d = true -> known_class d = false ->
  no_f32 d = true ->
  exists v j, tser fmt_f64 fmt_f32 d = Ok v /\ ser_sj d = Ok j /\
              shape_of false v = shape_of_sj false j.
Proof. exact shape_SH. Qed.
Print Assumptions C16_shape.

(* serde_json's rendering (ser_sj) converted into a Value (from_tsj) and deserialized yields
   the datum exactly -- sign of zero included -- with every map's entries in the order of
   their rendered keys (sort_maps); no class is excluded *)
Theorem C16_via_json :
  forall (E : env) (fmt_sj : Z -> list N),
  (forall x, f64_wf x = true -> f64_finite x = true -> num_event (fmt_sj x) = EvF x) ->
  (forall b, f32_wf b = true -> f32_finite b = true -> de_f32 (fmt_sj (f64_of_f32 b)) = b) ->
  forall d t, has_type E d t = true -> finite_floats d = true ->
  exists j, ser_sj d = Ok j /\
            exists n, forall fuel, (n <= fuel)%nat -> de E fuel t (from_tsj fmt_sj j) = Ok (sort_maps d).
Proof. exact via_VIA. Qed.
Print Assumptions C16_via_json.

(* the property is false on the known class (recorded finding) *)
Theorem C16_K1_refuted :
  has_type [] k1_witness (TyMap KStr TyStr) = true /\ finite_floats k1_witness = true /\
  known_class k1_witness = true /\
  to_value_ref k1_witness = Ok (VNum (s2l "12")) /\
  forall fuel, de [] (S fuel) (TyMap KStr TyStr) (VNum (s2l "12")) = Err tt.
Proof. exact k1_refuted. Qed.
Print Assumptions C16_K1_refuted.

(* former findings, repaired in the code and now inside the theorems' domain *)
Theorem C16_empty_tuple_variant_example :
  has_type tv0_env tv0 (TyNamed (s2l "E")) = true /\ known_class tv0 = false /\
  to_value_ref tv0 = Ok (VObj [(s2l "Z", VArr [])]) /\
  from_value_ref tv0_env 3 (TyNamed (s2l "E")) (VObj [(s2l "Z", VArr [])]) = Ok tv0.
Proof. exact empty_tuple_variant_example. Qed.
Print Assumptions C16_empty_tuple_variant_example.

Theorem C16_f32_midpoint_example :
  sf_bits (dbl mid_spelling) = 0x3ab5c87fb0000000 /\
  f32_of_f64 (sf_bits (dbl mid_spelling)) = 0x15ae43fe /\
  de_f32 mid_spelling = 0x15ae43fd /\
  de_f32 (0x2D%N :: mid_spelling) = 0x95ae43fd /\
  fmt_f32_ref 0x15ae43fd = mid_spelling /\
  from_value_ref [] 2 TyF32 (VNum mid_spelling) = Ok (SdF32 0x15ae43fd).
Proof. exact f32_midpoint_example. Qed.
Print Assumptions C16_f32_midpoint_example.

(* non-vacuity: the reference instances satisfy the premises on samples *)
Theorem C16_via_premises_sample :
  forallb (fun x => match num_event (fmt_sj_ref x) with EvF y => y =? x | _ => false end) sample64 = true /\
  forallb (fun b => de_f32 (fmt_sj_ref (f64_of_f32 b)) =? b) sample32 = true.
Proof. exact via_premises_sample. Qed.
Print Assumptions C16_via_premises_sample.

Theorem C16_reference_instances_sample :
  forallb (fun b => f64_wf b && f64_finite b && (de_f64 (num_event (fmt_f64_ref b)) =? f64_norm b)) sample64 = true /\
  forallb (fun b => f32_wf b && f32_finite b && (de_f32 (fmt_f32_ref b) =? f32_norm b)) sample32 = true.
Proof. exact reference_instances_sample. Qed.
Print Assumptions C16_reference_instances_sample.
Print Assumptions C16_nearest_single_correct.
Print Assumptions C16_sgl_spelling.
Print Assumptions C16_f32_printer_round_trips.
Print Assumptions C16_f32_shortest.
Print Assumptions C16_f32_printer_digits.
Print Assumptions C16_double_rounding_differs.

(* ---------------------------------------------------------------------------------------
   The shape clause for data WITH f32 leaves (Spec/SerdeShape32.v): shape32 / shape32_sj are
   shape_of / shape_of_sj with every number replaced by the binary32 nearest to the real it
   denotes (a json-syntax spelling through sgl, a serde_json integer / double through the
   `as f32` cast).  Premises: an f32's printed spelling reads back, correctly rounded at
   binary32, as that f32 (met by the reference printer: C16_f32_printer_round_trips); every
   f64 leaf b of the datum is not separated from its printed spelling by a binary32 rounding
   boundary (f64_agrees32; no such premise for data without f64 leaves; it cannot be dropped:
   C16_shape32_f64_midpoint).  serde_json's side holds the widened double itself, so no
   premise about its printer is needed.  The key fact is C16_widening_exact.
   --------------------------------------------------------------------------------------- *)
Theorem C16_widening_exact : forall b, f32_wf b = true -> f32_finite b = true ->
  f32_of_f64 (f64_of_f32 b) = b.
Proof. exact f32_of_f64_of_f32. Qed.

Theorem C16_shape32 :
  forall (E : env) (fmt_f64 fmt_f32 : Z -> list N),
  (forall b, f32_wf b = true -> f32_finite b = true -> sgl (fmt_f32 b) = sf32_of_bits b) ->
  forall d, (exists t, has_type E d t = true) -> finite_floats d = true -> known_class d = false ->
  f64_leaves_agree32 fmt_f64 d = true ->
  exists v j, tser fmt_f64 fmt_f32 d = Ok v /\ ser_sj d = Ok j /\ shape32 v = shape32_sj j.
Proof. exact shape32_SH. Qed.

Theorem C16_shape32_f32_only :
  forall (E : env) (fmt_f64 fmt_f32 : Z -> list N),
  (forall b, f32_wf b = true -> f32_finite b = true -> sgl (fmt_f32 b) = sf32_of_bits b) ->
  forall d, (exists t, has_type E d t = true) -> finite_floats d = true -> known_class d = false ->
  no_f64 d = true ->
  exists v j, tser fmt_f64 fmt_f32 d = Ok v /\ ser_sj d = Ok j /\ shape32 v = shape32_sj j.
Proof. exact shape32_f32_only. Qed.

(* the same for the model's own functions shape_of true / shape_of_sj true (numbers read as
   Value::deserialize_f32 does: integer spellings through the integer cast) -- what the
   correspondence run evaluates as sh32 -- under the f32 premise of C16_roundtrip *)
Theorem C16_shape32_model :
  forall (E : env) (fmt_f64 fmt_f32 : Z -> list N),
  (forall b, f32_wf b = true -> f32_finite b = true -> de_f32 (fmt_f32 b) = f32_norm b) ->
  forall d, (exists t, has_type E d t = true) -> finite_floats d = true -> known_class d = false ->
  (forall b, In b (f64_leaves d) -> num_key true (fmt_f64 b) = key_of_float true b) ->
  exists v j, tser fmt_f64 fmt_f32 d = Ok v /\ ser_sj d = Ok j /\
              shape_of true v = shape_of_sj true j.
Proof. exact shape32m_SH. Qed.

(* the spelling of an integer reads, at binary32, as the `as f32` cast of the integer *)
Theorem C16_sgl_of_integer : forall z, sgl (z_dec z) = round32 (sf_of_Z z).
Proof. exact sgl_z_dec. Qed.

(* non-vacuity: (0.1f32, 0.1f64, -7i8).  json-syntax writes 0.1 for the f32, serde_json
   0.10000000149011612: the exact shapes differ, the binary32 shapes agree *)
Example C16_shape32_example :
  has_type [] sh32_d sh32_t = true /\ finite_floats sh32_d = true /\ known_class sh32_d = false /\
  f64_leaves_agree32 fmt_f64_shortest sh32_d = true /\
  fmt_f32_ref 0x3DCCCCCD = s2l "0.1" /\
  fmt_sj_ref (f64_of_f32 0x3DCCCCCD) = s2l "0.10000000149011612" /\
  exists v j, tser fmt_f64_shortest fmt_f32_ref sh32_d = Ok v /\ ser_sj sh32_d = Ok j /\
              shape_eqb (shape_of false v) (shape_of_sj false j) = false /\
              shape32 v = shape32_sj j /\ shape_of true v = shape_of_sj true j.
Proof. exact shape32_example. Qed.

(* the f64 premise is necessary: the double 0x3ab5c87fb0000000 (spelt 7.038531e-26) is an
   exact binary32 midpoint *)
Example C16_shape32_f64_midpoint :
  has_type [] sh32_mid TyF64 = true /\ finite_floats sh32_mid = true /\ known_class sh32_mid = false /\
  fmt_f64_shortest 0x3ab5c87fb0000000 = s2l "7.038531e-26" /\
  f64_leaves_agree32 fmt_f64_shortest sh32_mid = false /\
  exists v j, tser fmt_f64_shortest fmt_f32_ref sh32_mid = Ok v /\ ser_sj sh32_mid = Ok j /\
              shape_of false v = shape_of_sj false j /\
              shape32 v = ShNumber (key32 0x15ae43fd) /\ shape32_sj j = ShNumber (key32 0x15ae43fe) /\
              shape32 v <> shape32_sj j.
Proof. exact shape32_f64_midpoint. Qed.

(* ---------------------------------------------------------------------------------------
   A JSON object with a repeated key handed to from_value.
   Map targets (BTreeMap / HashMap): every entry is deserialized and inserted, the last value
   of a key is kept -- so the result is the result on the object with the earlier occurrences
   removed (drop_earlier), and the keys of the result are pairwise different.
   Struct targets and struct variants: a declared field occurring twice is an error
   (serde-derive's `duplicate field`); an enum object must have exactly one entry.
   --------------------------------------------------------------------------------------- *)
Theorem C16_map_last_wins : forall (E : env) fuel kt t es d,
  de E fuel (TyMap kt t) (VObj es) = Ok d ->
  de E fuel (TyMap kt t) (VObj (drop_earlier es)) = Ok d.
Proof. exact map_last_wins. Qed.

Theorem C16_map_keys_distinct : forall (E : env) fuel kt t es xs,
  de E fuel (TyMap kt t) (VObj es) = Ok (SdMap xs) ->
  ForallOrdPairs (fun a b => key_eqb (fst a) (fst b) = false) xs.
Proof. exact map_keys_distinct. Qed.

Theorem C16_struct_dup_field : forall (E : env) fuel n fts es f d,
  assoc n E = Some (DefStruct fts) -> In f (map fst fts) ->
  (2 <= length (m_get_entries es f))%nat ->
  de E fuel (TyNamed n) (VObj es) <> Ok d.
Proof. exact struct_dup_field. Qed.

Theorem C16_struct_variant_dup_field : forall (E : env) fuel n vs v fts es f d,
  assoc n E = Some (DefEnum vs) -> assoc v vs = Some (VStruct fts) -> In f (map fst fts) ->
  (2 <= length (m_get_entries es f))%nat ->
  de E fuel (TyNamed n) (VObj [(v, VObj es)]) <> Ok d.
Proof. exact struct_variant_dup_field. Qed.

Theorem C16_enum_repeated_variant_key : forall (E : env) fuel n vs e1 e2 r d,
  assoc n E = Some (DefEnum vs) -> de E fuel (TyNamed n) (VObj (e1 :: e2 :: r)) <> Ok d.
Proof. exact enum_repeated_variant_key. Qed.

Example C16_dup_examples :
  has_repeated_key dup_obj = true /\
  drop_earlier dup_obj = [(s2l "b", VNum (s2l "2")); (s2l "a", VNum (s2l "3"))] /\
  from_value_ref dup_env 3 (TyMap KStr (TyInt I32)) (VObj dup_obj)
    = Ok (SdMap [(SdStr (s2l "b"), SdInt I32 2); (SdStr (s2l "a"), SdInt I32 3)]) /\
  from_value_ref dup_env 3 (TyMap KStr (TyInt I32)) (VObj [(s2l "a", VBool true); (s2l "a", VNum (s2l "3"))]) = Err tt /\
  from_value_ref dup_env 3 (TyMap (KInt U8) TyBool)
    (VObj [(s2l "1", VBool true); (s2l "+1", VBool false); (s2l "2", VBool true); (s2l "01", VBool true)])
    = Ok (SdMap [(SdInt U8 2, SdBool true); (SdInt U8 1, SdBool true)]) /\
  from_value_ref dup_env 3 (TyNamed (s2l "P")) (VObj [(s2l "x", VNum (s2l "1")); (s2l "x", VNum (s2l "2"))]) = Err tt /\
  from_value_ref dup_env 3 (TyNamed (s2l "P")) (VObj [(s2l "u", VNull); (s2l "x", VNum (s2l "1")); (s2l "u", VNull)])
    = Ok (SdStruct (s2l "P") [(s2l "x", SdInt I32 1); (s2l "o", SdNone)]) /\
  from_value_ref dup_env 4 (TyNamed (s2l "V")) (VObj [(s2l "S", VObj [(s2l "x", VNum (s2l "1")); (s2l "x", VNum (s2l "1"))])]) = Err tt /\
  from_value_ref dup_env 4 (TyNamed (s2l "V")) (VObj [(s2l "A", VNull); (s2l "A", VNull)]) = Err tt.
Proof. exact dup_examples. Qed.

Print Assumptions C16_widening_exact.
Print Assumptions C16_shape32.
Print Assumptions C16_shape32_f32_only.
Print Assumptions C16_shape32_model.
Print Assumptions C16_sgl_of_integer.
Print Assumptions C16_shape32_example.
Print Assumptions C16_shape32_f64_midpoint.
Print Assumptions C16_map_last_wins.
Print Assumptions C16_map_keys_distinct.
Print Assumptions C16_struct_dup_field.
Print Assumptions C16_struct_variant_dup_field.
Print Assumptions C16_enum_repeated_variant_key.
Print Assumptions C16_dup_examples.
