(* Props/C18.v -- conversion to and from serde_json::Value round-trips without loss or panic.
   Statements only.  Model: Model/SerdeValue.v (from_sj, into_sj; panic sites 1 and 2).
   serde_json values: Spec/SerdeJsonValue.v (sj, wf_sj = what the Rust types guarantee:
   integer ranges, finite floats, keys strictly increasing).  Specification:
   Spec/SerdeRoundTrip.v (detour_ok = equal up to object entry order and number spelling).
   Dependencies as arguments: [fmt_ryu] (serde_json Number Display), [sj_parse] (serde_json
   number parser), [lossy] (json-number as_f64_lossy).  Known classes: K3 nearest double
   infinite (panic); K5 / K6 a float spelling outside serde_json's exact parsing range. *)
From Coq Require Import SpecFloat.
From JsonSyntax Require Import Base.Prelude Base.Value Base.Float64 Spec.NumSpelling
  Spec.SerdeJsonValue Spec.SerdeRoundTrip Model.SerdeValue
  Spec.PermEq Proofs.SerdeJsonProofs Proofs.SerdeWitnesses.

(* In the hypotheses on [fmt_ryu], x ranges over the doubles that occur: any f64 bit pattern
   (canonical_f64) or the nearest double of a spelling. *)

(* serde_json -> json-syntax -> serde_json returns an equal value *)
Theorem C18_there_and_back : forall lossy sj_parse fmt_ryu,
  (forall x, sf_is_finite x = true -> (canonical_f64 x = true \/ exists n, x = dbl n) ->
     valid_number (fmt_ryu x) = true /\ is_int64 (fmt_ryu x) = false /\ dbl (fmt_ryu x) = x) ->
  (forall n, valid_number n = true -> is_int64 n = false -> sj_exact n = true ->
             sj_parse n = if sf_is_finite (dbl n) then Some (dbl n) else None) ->
  forall j, wf_sj j = true -> K6 fmt_ryu j = false ->
  there_and_back lossy sj_parse fmt_ryu j = Ok j.
Proof. exact there_and_back_id. Qed.

(* json-syntax -> serde_json -> json-syntax: equal up to entry order and number spelling *)
Theorem C18_back_and_there : forall lossy sj_parse fmt_ryu,
  (forall x, sf_is_finite x = true -> (canonical_f64 x = true \/ exists n, x = dbl n) ->
     valid_number (fmt_ryu x) = true /\ is_int64 (fmt_ryu x) = false /\ dbl (fmt_ryu x) = x) ->
  (forall n, valid_number n = true -> is_int64 n = false -> sj_exact n = true ->
             sj_parse n = if sf_is_finite (dbl n) then Some (dbl n) else None) ->
  forall v, wf_nums v = true -> nodup_keysb v = true -> nums64 v = true -> K5 v = false ->
  exists j w, into_sj lossy sj_parse v = Ok j /\ from_sj fmt_ryu j = Ok w /\ detour_ok v w = true.
Proof. exact back_and_there_preserves. Qed.

(* "up to entry order": detour_ok compares with key_sorted v, which is v up to a permutation
   of object entries at every depth (the relation of C15) *)
Theorem C18_key_sorted_is_permutation : forall v, PermEq (key_sorted v) v.
Proof. exact key_sorted_permeq. Qed.

(* neither direction panics *)
Theorem C18_from_never_panics : forall fmt_ryu,
  (forall x, sf_is_finite x = true -> (canonical_f64 x = true \/ exists n, x = dbl n) -> valid_number (fmt_ryu x) = true) ->
  forall j, wf_sj j = true -> exists v, from_sj fmt_ryu j = Ok v.
Proof. exact from_sj_total. Qed.

Theorem C18_no_panic : forall lossy sj_parse,
  (forall n, valid_number n = true -> is_int64 n = false -> sf_is_finite (dbl n) = true ->
             sj_parse n = None -> sf_is_finite (lossy n) = true) ->
  forall v, wf_nums v = true -> K3 v = false -> exists j, into_sj lossy sj_parse v = Ok j.
Proof. exact into_sj_total. Qed.

(* the known classes are genuine deviations *)
Theorem C18_K3_refuted : forall lossy sj_parse,
  sj_parse w_huge_s = None -> lossy w_huge_s = S754_infinity false ->
  nodup_keysb w_huge = true /\ nums64 w_huge = false /\ into_sj lossy sj_parse w_huge = Panic 2.
Proof. exact K3_panics. Qed.

Theorem C18_K6_refuted : forall lossy sj_parse fmt_ryu,
  fmt_ryu (sf_of_bits w_float_bits) = w_float_printed ->
  sj_parse w_float_printed = Some (sf_of_bits (w_float_bits + 1)) ->
  wf_sj w_float = true /\ K6 fmt_ryu w_float = true /\
  there_and_back lossy sj_parse fmt_ryu w_float = Ok (JNum (SFloat (sf_of_bits (w_float_bits + 1)))) /\
  sj_eqb (JNum (SFloat (sf_of_bits (w_float_bits + 1)))) w_float = false /\
  dbl w_float_printed = sf_of_bits w_float_bits.
Proof. exact K6_refuted. Qed.

Print Assumptions C18_there_and_back.
Print Assumptions C18_back_and_there.
Print Assumptions C18_key_sorted_is_permutation.
Print Assumptions C18_from_never_panics.
Print Assumptions C18_no_panic.
Print Assumptions C18_K3_refuted.
Print Assumptions C18_K6_refuted.
