(* Props/C18.v -- conversion to and from serde_json::Value round-trips without loss or panic.
   Statements only.  Model: Model/SerdeValue.v (from_sj with its panic site 1, into_sj
   which has none).  serde_json values: Spec/SerdeJsonValue.v (sj, wf_sj = what the Rust
   types guarantee: integer ranges, finite floats, keys strictly increasing).
   Specification: Spec/SerdeRoundTrip.v (detour_ok = equal up to object entry order and
   number spelling).  std's str::parse::<f64> is correctly rounded and modelled by the
   reference Spec/NumSpelling.dbl.  Dependency as argument: [fmt_ryu] (serde_json Number
   Display); in the hypothesis on it x ranges over the doubles that occur: any f64 bit
   pattern (canonical_f64) or the nearest double of a spelling. *)
From Coq Require Import SpecFloat.
From JsonSyntax Require Import Base.Prelude Base.Value Base.Float64 Spec.NumSpelling
  Spec.SerdeJsonValue Spec.SerdeRoundTrip Model.SerdeValue
  Spec.PermEq Proofs.SerdeJsonProofs Proofs.SerdeWitnesses.

(* serde_json -> json-syntax -> serde_json returns an equal value *)
Theorem C18_there_and_back : forall fmt_ryu,
  (forall x, sf_is_finite x = true -> (canonical_f64 x = true \/ exists n, x = dbl n) ->
     valid_number (fmt_ryu x) = true /\ is_int64 (fmt_ryu x) = false /\ dbl (fmt_ryu x) = x) ->
  forall j, wf_sj j = true -> there_and_back fmt_ryu j = Ok j.
Proof. exact there_and_back_id. Qed.

(* json-syntax -> serde_json -> json-syntax: equal up to entry order and number spelling *)
Theorem C18_back_and_there : forall fmt_ryu,
  (forall x, sf_is_finite x = true -> (canonical_f64 x = true \/ exists n, x = dbl n) ->
     valid_number (fmt_ryu x) = true /\ is_int64 (fmt_ryu x) = false /\ dbl (fmt_ryu x) = x) ->
  forall v, nodup_keysb v = true -> nums64 v = true ->
  exists j w, into_sj v = Ok j /\ from_sj fmt_ryu j = Ok w /\ detour_ok v w = true.
Proof. exact back_and_there_preserves. Qed.

(* "up to entry order": detour_ok compares with key_sorted v, which is v up to a permutation
   of object entries at every depth (the relation of C15) *)
Theorem C18_key_sorted_is_permutation : forall v, PermEq (key_sorted v) v.
Proof. exact key_sorted_permeq. Qed.

(* neither direction panics, on any value *)
Theorem C18_from_never_panics : forall fmt_ryu,
  (forall x, sf_is_finite x = true -> (canonical_f64 x = true \/ exists n, x = dbl n) ->
     valid_number (fmt_ryu x) = true) ->
  forall j, wf_sj j = true -> exists v, from_sj fmt_ryu j = Ok v.
Proof. exact from_sj_total. Qed.

Theorem C18_no_panic : forall v, exists j, into_sj v = Ok j.
Proof. exact into_sj_total. Qed.

(* outside the stated domain: a magnitude beyond the doubles becomes null *)
Theorem C18_overflow_is_null : forall n, K3num n = true -> into_sj (VNum n) = Ok JNull.
Proof. exact overflow_is_null. Qed.

(* non-vacuity: results for the executable printer fmt_ryu_ref *)
Example C18_back_and_there_instance :
  nodup_keysb ex_v = true /\ nums64 ex_v = true /\
  back_and_there fmt_ryu_ref ex_v = Ok ex_v_detour /\ detour_ok ex_v ex_v_detour = true.
Proof. vm_compute. repeat split. Qed.

Example C18_there_and_back_instance :
  wf_sj ex_j = true /\
  from_sj fmt_ryu_ref ex_j =
    Ok (VObj [(s2l "a", VNum (s2l "18446744073709551615"));
              (s2l "b", VArr [VNum (s2l "-5"); VNum (s2l "1.5"); VNum (s2l "5.04796620613671e-172"); VNull]);
              ([0xE9], VObj [(s2l "x", VStr [0x10000]); (s2l "y", VNum (s2l "-0.0"))])]) /\
  there_and_back fmt_ryu_ref ex_j = Ok ex_j.
Proof. vm_compute. repeat split. Qed.

Example C18_printer_instance :
  (let s := fmt_ryu_ref (dbl (s2l "1e5")) in
   s = s2l "100000.0" /\ valid_number s = true /\ is_int64 s = false /\ dbl s = dbl (s2l "1e5")) /\
  (let x := sf_of_bits 0x1c5f367fcf16b755 in
   fmt_ryu_ref x = s2l "5.04796620613671e-172" /\ dbl (fmt_ryu_ref x) = x).
Proof. vm_compute. repeat split. Qed.

Example C18_overflow_instance : into_sj w_huge = Ok JNull.
Proof. vm_compute. reflexivity. Qed.

Print Assumptions C18_there_and_back.
Print Assumptions C18_back_and_there.
Print Assumptions C18_key_sorted_is_permutation.
Print Assumptions C18_from_never_panics.
Print Assumptions C18_no_panic.
Print Assumptions C18_overflow_is_null.
Print Assumptions C18_back_and_there_instance.
Print Assumptions C18_there_and_back_instance.
Print Assumptions C18_printer_instance.
Print Assumptions C18_overflow_instance.
