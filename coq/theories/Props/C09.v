(* Props/C09.v -- RFC 8785: the compact text of the canonicalized value is the output of the
   reference serializer Spec/Jcs.jcs.  Statements only.  Structural half (member order,
   definedness); the number conversion of the implementation is the parameter [num_canon],
   its agreement with Spec/EcmaNumber.canon_number is the premise [nums_ok] (validated by the
   correspondence run).
   Premise [keys_scalar]: member names are sequences of Unicode scalar values -- always true
   of a Rust String; the Gallina model allows arbitrary code point lists, on which UTF-16
   encoding is not injective (C09_scalar_keys_needed). *)
From JsonSyntax Require Import Base.Prelude Base.Value Base.Unicode Model.Compare Model.Canon
  Spec.Minimal Spec.EcmaNumber Spec.Jcs Spec.CanonSpec Proofs.CompareProofs Proofs.CanonProofs
  Base.Float64 Proofs.Float64Proofs Proofs.NumberProofs Proofs.NearestDouble Proofs.CanonNumber Proofs.NumberExamples Proofs.NumberTotal Proofs.NumberMinimal.
From Coq Require Import ZArith Reals SpecFloat.
From Flocq Require Import Core BinarySingleNaN.

(* canonicalize, then print compactly (C08: compact printing is ser_min) = jcs *)
Theorem C09_canon_jcs : forall (num_canon : list N -> list N) v,
  nodup_keys v -> keys_scalar v -> nums_ok num_canon v ->
  jcs v = Some (ser_min (canonicalize num_canon v)).
Proof. exact canon_jcs. Qed.

(* the same with the well-formedness predicate of the other families *)
Theorem C09_canon_jcs_wfv : forall (num_canon : list N -> list N) v,
  wfv v -> nodup_keys v -> nums_ok num_canon v ->
  jcs v = Some (ser_min (canonicalize num_canon v)).
Proof. exact canon_jcs_wfv. Qed.

(* with the executable reference conversion: whenever RFC 8785 assigns a text, it is this one *)
Theorem C09_canon_jcs_reference : forall v t,
  nodup_keys v -> keys_scalar v -> jcs v = Some t ->
  t = ser_min (canonicalize ref_num_canon v).
Proof. exact canon_jcs_ref. Qed.

(* jcs is defined exactly on values all of whose numbers are renderable; otherwise None *)
Theorem C09_jcs_defined_iff : forall v,
  (exists t, jcs v = Some t) <-> each_num (fun n => exists t, canon_number n = Some t) v.
Proof. exact jcs_defined_iff. Qed.
Theorem C09_jcs_none : forall v,
  ~ each_num (fun n => exists t, canon_number n = Some t) v -> jcs v = None.
Proof. exact jcs_none. Qed.

(* every object of the canonical form is sorted for the comparator; with distinct scalar keys
   the member names are strictly increasing as UTF-16 code unit sequences *)
Theorem C09_sorted : forall (num_canon : list N -> list N) v,
  each_obj entries_sorted (canonicalize num_canon v).
Proof. exact canon_sorted. Qed.
Theorem C09_keys_strictly_increasing : forall (num_canon : list N -> list N) v,
  nodup_keys v -> keys_scalar v -> each_obj keys_increasing (canonicalize num_canon v).
Proof. exact canon_keys_increasing. Qed.
(* the specification's strict key order is the strict part of the implementation's comparison *)
Theorem C09_key_order : forall a b, key_lt a b = true <-> utf16_cmp a b = Lt.
Proof. exact key_lt_utf16. Qed.

(* without [keys_scalar] the statement is false of the model *)
Example C09_scalar_keys_needed :
  let v := VObj [(bad_key1, VBool true); (bad_key2, VBool false)] in
  nodup_keys v /\ nums_ok (fun n => n) v /\
  jcs v <> Some (ser_min (canonicalize (fun n => n) v)).
Proof. exact canon_jcs_needs_scalar_keys. Qed.

(* the premises are satisfiable: {"\u{10000}":1.0,"\u{E000}":[0.50,{"b":null,"a":true}],"a":"x","":10e20} *)
Example C09_example_premises :
  nodup_keys ex_value /\ keys_scalar ex_value /\ nums_ok ref_num_canon ex_value.
Proof. exact ex_hypotheses. Qed.
Example C09_example_canonical : canonicalize ref_num_canon ex_value = ex_canonical.
Proof. exact ex_canonicalize. Qed.
Example C09_example_text :
  jcs ex_value =
  Some (s2l "{"""":1e+21,""a"":""x"","""
          ++ [0x10000] ++ s2l """:1,""" ++ [0xE000] ++ s2l """:[0.5,{""a"":true,""b"":null}]}").
Proof. exact ex_jcs. Qed.

(* ---------------------------------------------------------------------------------------
   NUMBER HALF (these depend on Flocq's theorems, i.e. on the four standard-library axioms
   ClassicalDedekindReals.sig_forall_dec / sig_not_dec, functional_extensionality_dep,
   Classical_Prop.classic -- see the trusted base)
   --------------------------------------------------------------------------------------- *)

(* THE statement of C09 for the reference conversion: on every I-JSON value (distinct member
   names, every number with a finite nearest double) with scalar member names, the compact
   text of the canonicalized value is the RFC 8785 text *)
Theorem C09 : forall v, ijson v -> keys_scalar v ->
  jcs v = Some (ser_min (canonicalize ref_num_canon v)).
Proof. exact canon_ref_jcs. Qed.

(* "the double nearest to its exact decimal value": nearest_double_pos m e is the IEEE-754
   binary64 round-to-nearest-even of m * 10^e (infinity when that exceeds the range) *)
Theorem C09_nearest_double_correct : forall m e, nd_spec (dec_R m e) (nearest_double_pos m e).
Proof. exact nearest_double_pos_correct. Qed.
Theorem C09_nearest_double_signed : forall d, (0 <= d_mant d)%Z ->
  if Rlt_bool (Rabs (round64 (decimal_R d))) (bpow radix2 1024)
  then valid_binary 53 1024 (nearest_double d) = true /\ is_finite_SF (nearest_double d) = true /\
       sign_SF (nearest_double d) = d_neg d /\ SF2R radix2 (nearest_double d) = round64 (decimal_R d)
  else nearest_double d = S754_infinity (d_neg d).
Proof. exact nearest_double_correct. Qed.

(* "shortest round-trip rendering": the rendering reads back to the same double ... *)
Theorem C09_rendering_round_trips : forall x t, ecma_to_string x = Some t ->
  exists d, read_decimal t = Some d /\ nearest_double d = drop_zero_sign x.
Proof. exact ecma_round_trip. Qed.
(* ... its digit string s (k digits, 1 <= k <= 17) is a candidate that rounds back, and no
   examined candidate with fewer digits does *)
Theorem C09_digits_round_trip : forall m e n k s, nks m e = Some (n, k, s) ->
  (1 <= k <= 17)%Z /\ (10 ^ (k - 1) <= s < 10 ^ k)%Z /\
  nearest_double_pos (Z.to_pos s) (n - k) = S754_finite false m e.
Proof. exact nks_some. Qed.
Theorem C09_digits_minimal : forall m e n k s, nks m e = Some (n, k, s) ->
  forall k' c, (1 <= k' < k)%Z -> In c (cands (nks_num m e) (nks_den e) (nks_n0 m e) k') ->
  cand_ok (S754_finite false m e) k' c = false.
Proof. exact nks_minimal. Qed.

(* the digit search always succeeds on a valid finite double (17 digits suffice): the RFC 8785
   rendering of a number exists exactly when its nearest double is finite *)
Theorem C09_rendering_total : forall x,
  valid_binary 53 1024 x = true -> is_finite_SF x = true -> ecma_to_string x <> None.
Proof. exact ecma_to_string_total. Qed.
Theorem C09_renderable_iff_finite : forall n d, read_decimal n = Some d ->
  ((exists t, canon_number n = Some t) <-> is_finite_SF (nearest_double d) = true).
Proof. exact canon_number_some_iff. Qed.

(* ECMA-262 Number::toString step 5 in full: (n, k, s) is a representation of the double
   (k digits, s * 10^(n-k) rounds to it), k <= 17, NO representation has fewer digits
   (whatever its exponent), and among the k-digit representations s * 10^(n-k) is closest to
   the double, an even s being chosen on a tie (a tie between 9 * 10^j and 10^(j+1) cannot
   occur: `tie_9_10_impossible`) *)
Open Scope Z_scope.
Theorem C09_ecma_number_to_string : forall m e n k s,
  valid_binary 53 1024 (S754_finite false m e) = true ->
  nks m e = Some (n, k, s) ->
  ecma_repr m e n k s /\ k <= 17 /\
  (forall n' k' s', ecma_repr m e n' k' s' -> k <= k') /\
  (forall n' s', ecma_repr m e n' k s' ->
     (Rabs (IZR s * bpow radix10 (n - k) - dbl_R m e) <=
      Rabs (IZR s' * bpow radix10 (n' - k) - dbl_R m e))%R /\
     (Rabs (IZR s * bpow radix10 (n - k) - dbl_R m e) =
      Rabs (IZR s' * bpow radix10 (n' - k) - dbl_R m e) ->
      (s', n') = (s, n) \/ Z.even s = true)).
Proof. exact nks_ecma. Qed.
Close Scope Z_scope.

(* RFC 8785 Appendix B, rows checked inside Coq (all 26 are in Proofs/NumberExamples.v) *)
Example C09_rfc8785_appendix_B :
  of_hex 0x0000000000000001 = txt "5e-324" /\
  of_hex 0x7fefffffffffffff = txt "1.7976931348623157e+308" /\
  of_hex 0x4430000000000000 = txt "295147905179352830000" /\
  of_hex 0x44b52d02c7e14af6 = txt "1e+23" /\
  of_hex 0x444b1ae4d6e2ef50 = txt "1e+21" /\
  of_hex 0x3eb0c6f7a0b5ed8d = txt "0.000001" /\
  of_hex 0x3eb0c6f7a0b5ed8c = txt "9.999999999999997e-7" /\
  of_hex 0x43143ff3c1cb0959 = txt "1424953923781206.2".
Proof. vm_compute. repeat split. Qed.
(* the witness of former defect E2 (lossy conversion): now the correctly rounded double *)
Example C09_former_defect_E2 : canon "4.14673952822385274921803532e91" = txt "4.146739528223853e+91".
Proof. exact read_E2_witness. Qed.

Print Assumptions C09_canon_jcs.
Print Assumptions C09_canon_jcs_wfv.
Print Assumptions C09_canon_jcs_reference.
Print Assumptions C09_jcs_defined_iff.
Print Assumptions C09_jcs_none.
Print Assumptions C09_sorted.
Print Assumptions C09_keys_strictly_increasing.
Print Assumptions C09_key_order.
Print Assumptions C09_scalar_keys_needed.
Print Assumptions C09_example_premises.
Print Assumptions C09_example_canonical.
Print Assumptions C09_example_text.
Print Assumptions C09.
Print Assumptions C09_nearest_double_correct.
Print Assumptions C09_nearest_double_signed.
Print Assumptions C09_rendering_round_trips.
Print Assumptions C09_digits_round_trip.
Print Assumptions C09_digits_minimal.
Print Assumptions C09_rfc8785_appendix_B.
Print Assumptions C09_former_defect_E2.
Print Assumptions C09_rendering_total.
Print Assumptions C09_renderable_iff_finite.
Print Assumptions C09_ecma_number_to_string.
