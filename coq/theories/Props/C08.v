(* Props/C08.v -- compact output is the unique minimal serialisation.  Statements only.
   Reference serializer: Spec/Minimal.ser_min. *)
From JsonSyntax Require Import Base.Prelude Base.Value Model.Printer Spec.Minimal
  Proofs.PrinterProofs Proofs.PrinterTheorems.

Theorem C08_compact_is_minimal : forall v, print_with compact v = Some (ser_min v).
Proof. exact C08_compact_minimal. Qed.
(* Display / to_string / From<Value> for String delegate to compact printing *)
Theorem C08_to_string : forall v, to_string v = Some (ser_min v).
Proof. exact to_string_minimal. Qed.
Theorem C08_compact_print : forall v, compact_print v = Some (ser_min v).
Proof. exact compact_print_minimal. Qed.
(* RFC 8785 string escaping, character by character *)
Theorem C08_string_escaping : forall s, string_literal s = quote s.
Proof. exact string_literal_quote. Qed.
Theorem C08_escape_char : forall c, escape_char c = esc_min c.
Proof. exact escape_char_esc_min. Qed.

Example C08_escapes :
  esc_min 0x22 = [0x5C; 0x22] /\ esc_min 0x5C = [0x5C; 0x5C] /\ esc_min 0x08 = s2l "\b" /\
  esc_min 0x09 = s2l "\t" /\ esc_min 0x0A = s2l "\n" /\ esc_min 0x0C = s2l "\f" /\ esc_min 0x0D = s2l "\r" /\
  esc_min 0x1F = s2l "\u001f" /\ esc_min 0x0B = s2l "\u000b" /\ esc_min 0x00 = s2l "\u0000" /\
  esc_min 0x2F = [0x2F] /\ esc_min 0x7F = [0x7F] /\ esc_min 0x2028 = [0x2028] /\ esc_min 0x1F600 = [0x1F600].
Proof. vm_compute. repeat split. Qed.

Print Assumptions C08_compact_is_minimal.
Print Assumptions C08_to_string.
Print Assumptions C08_compact_print.
Print Assumptions C08_string_escaping.
Print Assumptions C08_escape_char.
Print Assumptions C08_escapes.
