(* Props/C08.v -- compact output is the unique minimal serialisation.  Statements only.
   Reference serializer: Spec/Minimal.ser_min. *)
From JsonSyntax Require Import Base.Prelude Base.Value Model.Printer Spec.Minimal
  Proofs.PrinterProofs Proofs.PrinterTheorems
  Base.ConstSyntax Generated.Consts Proofs.ConstsTie.

Theorem C08_compact_is_minimal : forall v, print_with compact v = Some (ser_min v).
Proof. exact C08_compact_minimal. Qed.
(* Display / to_string / From<Value> for String delegate to compact printing *)
Theorem C08_to_string : forall v, to_string v = Some (ser_min v).
Proof. exact to_string_minimal. Qed.
Theorem C08_compact_print : forall v, compact_print v = Some (ser_min v).
Proof. exact compact_print_minimal. Qed.
(* RFC 8785 string escaping, character by character *)
Theorem C08_string_escaping : forall s, string_literal s = quote s.
Proof. exact string_literal_quote. Qed.
Theorem C08_escape_char : forall c, escape_char c = esc_min c.
Proof. exact escape_char_esc_min. Qed.

Example C08_escapes :
  esc_min 0x22 = [0x5C; 0x22] /\ esc_min 0x5C = [0x5C; 0x5C] /\ esc_min 0x08 = s2l "\b" /\
  esc_min 0x09 = s2l "\t" /\ esc_min 0x0A = s2l "\n" /\ esc_min 0x0C = s2l "\f" /\ esc_min 0x0D = s2l "\r" /\
  esc_min 0x1F = s2l "\u001f" /\ esc_min 0x0B = s2l "\u000b" /\ esc_min 0x00 = s2l "\u0000" /\
  esc_min 0x2F = [0x2F] /\ esc_min 0x7F = [0x7F] /\ esc_min 0x2028 = [0x2028] /\ esc_min 0x1F600 = [0x1F600].
Proof. vm_compute. repeat split. Qed.


(* ---- static tie of the constant tables (DESIGN.md section 4, "Translator tie for constant tables"):
   `src_..` (Generated/Consts.v) is what lib/const_translate.py evaluates the named function / constant of
   the Rust source to -- regenerated from the tree under check at the start of every `bin/check` of this
   property --, the right-hand side is the same data computed from the model's own function
   (Base/ConstSyntax.v: set_of = the maximal runs of domain points where a predicate holds) ---- *)
Theorem C08_escapes_from_source :
  src_string_literal =
    (exceptions_of (list_eqb N.eqb) (fun c => Printer.string_literal [c]) (fun c => [0x22; c; 0x22]) char_domain,
     table_of Printer.string_literal string_samples)
  /\ (forall c, Printer.string_literal [c] = 0x22 :: escape_char c ++ [0x22])
  /\ (forall c, 256 <= c -> escape_char c = [c]).
Proof. exact ConstsTie.escapes_from_source. Qed.
Theorem C08_string_size_from_source :
  src_printed_string_size =
    (exceptions_of N.eqb (fun c => Printer.printed_string_size [c]) (fun _ => 3) char_domain,
     table_of Printer.printed_string_size string_samples)
  /\ (forall c, Printer.printed_string_size [c] = 2 + char_width c)
  /\ (forall c, 256 <= c -> char_width c = 1).
Proof. exact ConstsTie.string_size_from_source. Qed.
Theorem C08_digit_from_source :
  src_digit = table_of Printer.hex_digit_char nibble_domain.
Proof. exact ConstsTie.digit_from_source. Qed.

Print Assumptions C08_compact_is_minimal.
Print Assumptions C08_to_string.
Print Assumptions C08_compact_print.
Print Assumptions C08_string_escaping.
Print Assumptions C08_escape_char.
Print Assumptions C08_escapes.
Print Assumptions C08_escapes_from_source.
Print Assumptions C08_string_size_from_source.
Print Assumptions C08_digit_from_source.
