(* Props/C15.v -- unordered equality is exactly equality up to permutation of object
   entries.  Statements only.  Specification: Spec/PermEq.v. *)
From JsonSyntax Require Import Base.Prelude Base.Value Model.Unordered Spec.PermEq Proofs.UnorderedProofs.

Theorem C15_unordered_eq_iff_permeq : forall a b, unordered_eq a b = true <-> PermEq a b.
Proof. exact C15_unordered_eq_iff. Qed.
Theorem C15_wrapper : forall a b, unordered_wrapper_eq a b = true <-> PermEq a b.
Proof. exact unordered_wrapper_eq_iff. Qed.

(* an equivalence relation implied by ordinary equality *)
Theorem C15_refl : forall a, PermEq a a.
Proof. exact permeq_refl. Qed.
Theorem C15_sym : forall a b, PermEq a b -> PermEq b a.
Proof. exact permeq_sym. Qed.
Theorem C15_trans : forall a b c, PermEq a b -> PermEq b c -> PermEq a c.
Proof. exact permeq_trans. Qed.
Theorem C15_eq_implies : forall a b, a = b -> PermEq a b.
Proof. exact eq_implies_permeq. Qed.
Theorem C15_symmetric_result : forall a b, unordered_eq a b = unordered_eq b a.
Proof. exact unordered_eq_sym. Qed.

(* multiplicities count (the witness of the repaired defect) *)
Example C15_multiplicities_count :
  let k := [0x6B] in let one := VNum [0x31] in let two := VNum [0x32] in
  unordered_eq (VObj [(k, one); (k, one); (k, two)]) (VObj [(k, one); (k, two); (k, two)]) = false.
Proof. exact multiplicities_count. Qed.

Print Assumptions C15_unordered_eq_iff_permeq.
Print Assumptions C15_wrapper.
Print Assumptions C15_refl.
Print Assumptions C15_sym.
Print Assumptions C15_trans.
Print Assumptions C15_eq_implies.
Print Assumptions C15_symmetric_result.
Print Assumptions C15_multiplicities_count.
