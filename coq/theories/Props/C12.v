(* Props/C12.v -- lenient options: a conservative extension relaxing only surrogate escapes.
   Statements only.  Specification: the annotated grammar `jv o` of Spec/Grammar.v, whose
   string rule `decode o` admits an unpaired high unit only with o.trunc and a lone low unit
   only with o.inval, each denoting exactly one U+FFFD; a high unit immediately followed by
   a low unit always combines. *)
From JsonSyntax Require Import Base.Prelude Base.Value Base.Unicode Base.Source Model.Parser Model.EntryPoints
  Spec.Grammar Proofs.ParserSpec Proofs.LenientOptions.
From JsonSyntax Require Import Base.ConstSyntax Generated.Consts Proofs.ConstsTie.

(* the parser implements `jv o` for each of the four option records *)
Theorem C12_parse_spec : forall o cs v m,
  Forall (fun c => c <= 0x10FFFF) cs ->
  (parse_str_with o cs = Ok (v, m) <-> jtext o (text_items cs) v m).
Proof. exact parse_str_spec. Qed.

(* conservativity: whatever strict mode accepts is returned unchanged -- value AND code map --
   under every option record *)
Theorem C12_conservative : forall o cs r,
  parse_str_with strict cs = Ok r -> Forall (fun c => c <= 0x10FFFF) cs -> parse_str_with o cs = Ok r.
Proof. exact LenientOptions.C12_conservative. Qed.
Theorem C12_grammar_mono : forall o s v m, jtext strict s v m -> jtext o s v m.
Proof. exact jtext_mono. Qed.

(* no leak: a leniently accepted text is a strictly valid text of the same length in which
   only \u escapes have been respelt (by \uFFFD); it denotes the same value and code map *)
Theorem C12_no_leak : forall o t v m, jv o t v m ->
  exists t', jv strict t' v m /\ blen t' = blen t /\ length t' = length t.
Proof. exact LenientOptions.C12_no_leak. Qed.
Theorem C12_no_leak_parser : forall o cs v m,
  Forall (fun c => c <= 0x10FFFF) cs -> parse_str_with o cs = Ok (v, m) ->
  exists cs', parse_str_with strict cs' = Ok (v, m) /\ length cs' = length cs.
Proof. exact LenientOptions.C12_no_leak_parser. Qed.

(* the repair touches only surrogate \u escapes, one element for one element, and the
   repaired sequence decodes strictly to the same characters: each replaced escape is
   exactly one U+FFFD *)
Theorem C12_decode_repair : forall o els s,
  decode o els = Some s -> decode strict (repair_elems o els) = Some s.
Proof. exact decode_repair. Qed.
Theorem C12_replaced_escape_is_one_fffd : forall o els,
  length (repair_elems o els) = length els /\
  forall i, nth_error (repair_elems o els) i = nth_error els i \/
            (exists u, nth_error els i = Some (U16 u) /\ is_surrogate u = true /\
                       nth_error (repair_elems o els) i = Some (U16 0xFFFD)).
Proof. exact replaced_escape_is_one_fffd. Qed.

(* independence: without trunc no high unit is ever replaced whatever inval says; without
   inval no low unit is ever replaced whatever trunc says; with both off nothing is *)
Theorem C12_trunc_off : forall i els n u,
  nth_error els n = Some (U16 u) -> is_high u = true ->
  nth_error (repair_elems {| trunc := false; inval := i |} els) n = Some (U16 u).
Proof. exact repair_trunc_off. Qed.
Theorem C12_inval_off : forall t els n u,
  nth_error els n = Some (U16 u) -> is_low u = true ->
  nth_error (repair_elems {| trunc := t; inval := false |} els) n = Some (U16 u).
Proof. exact repair_inval_off. Qed.
Theorem C12_strict_repairs_nothing : forall o els,
  trunc o = false -> inval o = false -> repair_elems o els = els.
Proof. exact repair_only_when_enabled. Qed.

(* correctly paired surrogates still combine, and the former defect G stays repaired *)
Example C12_pairs_still_combine :
  decode flexible [U16 0xD83D; U16 0xDE00] = Some [0x1F600] /\
  decode flexible [U16 0xD800; U16 0xD83D; U16 0xDE00] = Some [0xFFFD; 0x1F600] /\
  decode {| trunc := true; inval := false |} [U16 0xD800; U16 0xD800] = Some [0xFFFD; 0xFFFD] /\
  decode {| trunc := true; inval := false |} [U16 0xDC00] = None /\
  decode {| trunc := false; inval := true |} [U16 0xDC00] = Some [0xFFFD] /\
  decode {| trunc := false; inval := true |} [U16 0xD800] = None.
Proof. exact pairs_still_combine. Qed.
Example C12_no_leak_example :
  parse_str_with flexible (s2l "[""\uD800x\uDC00""]") = parse_str_with strict (s2l "[""\uFFFDx\uFFFD""]") /\
  exists m, parse_str_with flexible (s2l "[""\uD800x\uDC00""]") = Ok (VArr [VStr [0xFFFD; 0x78; 0xFFFD]], m).
Proof. exact no_leak_example. Qed.

(* static tie (DESIGN.md section 4): the string scanner SmallString::parse_in, EXECUTED by the translator from the
   source on every run -- under each of the four option records, on strings made of surrogate escapes, other escapes
   and raw characters, terminated and not, with failing source items -- returns what Parser.parse_string returns on
   the same inputs: the decoded characters, the code map, every error with its span and code units *)
Theorem C12_string_scanner_from_source :
  src_leaf_string = ct_string_on src_leaf_string /\ (2000 <=? length src_leaf_string)%nat = true.
Proof. exact ConstsTie.string_scanner_from_source. Qed.

Print Assumptions C12_parse_spec.
Print Assumptions C12_conservative.
Print Assumptions C12_grammar_mono.
Print Assumptions C12_no_leak.
Print Assumptions C12_no_leak_parser.
Print Assumptions C12_decode_repair.
Print Assumptions C12_replaced_escape_is_one_fffd.
Print Assumptions C12_trunc_off.
Print Assumptions C12_inval_off.
Print Assumptions C12_strict_repairs_nothing.
Print Assumptions C12_pairs_still_combine.
Print Assumptions C12_no_leak_example.
Print Assumptions C12_string_scanner_from_source.
