(* Extract/Extract.v -- extraction of the executable models and specs to OCaml.
   ExtrOcamlBasic only: bool, option, unit, list, prod, sumbool, sumor map to OCaml's;
   N, positive, Z, nat, comparison stay the extracted Coq datatypes.  No Extract Constant.
   Run from the output directory (see bin/setup); not part of the proof build. *)
Require Extraction.
Require Import ExtrOcamlBasic.
From JsonSyntax Require Import Base.Prelude Base.Value Base.Unicode Model.Kind Spec.KindSpec
  Model.Parser Model.EntryPoints Model.Compare Model.Object Model.CodeMapNav
  Model.Printer Spec.Minimal Spec.Layout Model.Unordered Spec.Multimap
  Base.Float64 Spec.EcmaNumber Spec.Jcs Model.Canon
  Spec.NumSpelling Spec.SerdeData Spec.SerdeJsonValue Spec.SerdeRoundTrip Model.SerdeValue
  Model.Macro Model.MacroFloat Spec.MacroDoc Spec.SerdeTyped Model.Serde
  Spec.SerdeShape32 Spec.SerdeDupKeys.

Extraction Language OCaml.
Set Extraction KeepSingleton.

Extraction "model.ml"
  (* arithmetic helpers used by the driver glue *)
  N.add N.mul N.sub N.eqb N.leb N.ltb N.of_nat N.to_nat N.div_eucl N.div N.modulo N.compare Z.of_N
  s2l str_eqb value_eqb kind_of
  (* C20 *)
  mask ks_none ks_all ks_from ks_or ks_and ks_or_kind ks_and_kind kind_or_ks kind_and_ks
  kind_or kind_and ks_len ks_is_empty ks_iter ks_iter_rev run_steps kind_name
  ks_display ks_disjunction ks_conjunction is_kind
  members render_spec comma_join deque_run
  (* parser family *)
  utf8_encode_all utf8_decode utf16_units is_scalar
  strict flexible chars parse_with parse parse_utf8_with parse_utf8 parse_infallible_utf8
  parse_utf8_infallible_with parse_str_with parse_str from_str parse_slice_with parse_slice
  (* comparison *)
  value_cmp value_eq entry_cmp entries_cmp hash_stream str_cmp
  (* objects *)
  empty_obj from_vec push push_front remove_at contains_key index_of redundant_index_of indexes_of
  get_entries_with_index get_entries get get_with_index get_unique get_unique_entry set_value_at
  insert insert_front remove remove_unique sort get_or_insert_with extend from_iter dump
  im_contains_duplicate_keys
  (* navigation *)
  traverse traverse_leftover count_where value_volume get_fragment array_iter_mapped
  object_iter_mapped get_mapped_entries_with_index try_from_json_at fragment_count
  (* printer *)
  print_with pretty compact inline pretty_print compact_print inline_print to_string
  pre_compute_size string_literal printed_string_size ser_min layout_text layout
  unordered_eq
  (* multimap spec *)
  m_contains m_indexes_of m_index_of m_redundant_index_of m_get_entries m_get m_get_entries_with_index
  m_get_unique m_get_unique_entry m_push m_push_front m_remove_at m_insert m_insert_front m_remove
  m_remove_unique m_get_or_insert_with m_set_value_at m_extend m_from_vec
  (* canonicalization *)
  canonicalize canon_number jcs read_decimal nearest_double ecma_to_string sf_bits sf_of_bits
  sf_is_finite utf16_cmp key_lt
  (* serde: Value's own impls (C17) and the serde_json bridge (C18) *)
  Z.opp Z.abs_N Z.ltb Z.to_N
  to_value from_value from_text from_sj into_sj ser_spec de_ok detour_ok collapse nodup_keysb
  nums64 wf_nums wf_sj sj_eqb K3 K4 dbl valid_number is_int64 num_pres
  (* json! macro *)
  expand tokens text value_of lexical_f64 lexical_float dec_of_Z
  (* serde, typed data (C16) *)
  to_value_ref from_value_ref ser_sj from_sj_ref shape_ref shape_sj_ref shape_eqb has_type finite_floats
  tser de from_tsj shape_of shape_of_sj fmt_f64_ref fmt_f32_ref fmt_sj_ref de_f64 de_f32 f64_norm f32_norm
  num_key key_of_f64 nkey_eqb f64_of_f32 f32_of_f64
  no_f32 known_class norm sort_maps num_event tsd_eqb null_like
  sgl sf32_bits shape32 shape32_sj f64_agrees32 f64_leaves_agree32 f64_leaves no_f64 key_of_float
  last_wins key_eqb drop_earlier has_repeated_key.
