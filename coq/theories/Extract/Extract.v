(* Extract/Extract.v -- extraction of the executable models and specs to OCaml.
   ExtrOcamlBasic only: bool, option, unit, list, prod, sumbool, sumor map to OCaml's;
   N, positive, Z, nat, comparison stay the extracted Coq datatypes.  No Extract Constant.
   Run from the output directory (see bin/setup); not part of the proof build. *)
Require Extraction.
Require Import ExtrOcamlBasic.
From JsonSyntax Require Import Base.Prelude Base.Value Model.Kind Spec.KindSpec.

Extraction Language OCaml.
Set Extraction KeepSingleton.

Extraction "model.ml"
  (* arithmetic helpers used by the driver glue *)
  N.add N.mul N.sub N.eqb N.leb N.ltb N.of_nat N.to_nat N.div_eucl N.div N.modulo N.compare Z.of_N
  s2l str_eqb value_eqb kind_of
  (* C20 *)
  mask ks_none ks_all ks_from ks_or ks_and ks_or_kind ks_and_kind kind_or_ks kind_and_ks
  kind_or kind_and ks_len ks_is_empty ks_iter ks_iter_rev run_steps kind_name
  ks_display ks_disjunction ks_conjunction is_kind
  members render_spec comma_join deque_run.
